#!/usr/bin/env python3
"""Mutation self-test of the checkers (both ways).

Each mutant is (id, property, file, old, new, expect) where `old` must occur exactly
once in `file`; it is replaced by `new` in a scratch copy of /repo/pint (under a fresh
temporary directory, removed afterwards) and `/verif/check <property>` is run against
that copy (PINT_REPO=<scratch>).  The check must exit 1 and mention `expect` (a rule
key fragment).  Mutants whose anchor text is gone are *skipped* (tree changed), never
failed.  Kinds: "break" (must fire), "benign" (behaviour-preserving edit; must stay
silent, exit 0).

usage: run.py [--only ID-or-property ...] [--jobs N] [--json out]
"""
from __future__ import annotations

import json
import os
import shutil
import subprocess
import sys
import tempfile
from concurrent.futures import ThreadPoolExecutor

HERE = os.path.dirname(os.path.abspath(__file__))
VERIF = os.path.dirname(HERE)
REPO = os.environ.get("PINT_REPO", "/repo")
sys.path.insert(0, HERE)


def load_mutants():
    out = []
    for fn in sorted(os.listdir(HERE)):
        if fn.startswith("mutants_") and fn.endswith(".py"):
            ns = {}
            with open(os.path.join(HERE, fn)) as fh:
                exec(compile(fh.read(), fn, "exec"), ns)
            out.extend(ns.get("MUTANTS", []))
    return out


def copy_tree(dst):
    src = os.path.join(REPO, "pint")
    shutil.copytree(src, os.path.join(dst, "pint"),
                    ignore=shutil.ignore_patterns("testsuite", "__pycache__", "*.pyc"))


def run_one(m):
    path = os.path.join(REPO, m["file"])
    try:
        text = open(path, encoding="utf-8").read()
    except OSError:
        return {**m, "status": "skipped", "why": "file missing"}
    if text.count(m["old"]) != 1:
        return {**m, "status": "skipped", "why": f"anchor text occurs {text.count(m['old'])}x"}
    tmp = tempfile.mkdtemp(prefix="pintmut-")
    try:
        copy_tree(tmp)
        p2 = os.path.join(tmp, m["file"])
        with open(p2, "w", encoding="utf-8") as fh:
            fh.write(text.replace(m["old"], m["new"]))
        if p2.endswith(".py"):
            try:
                compile(open(p2).read(), p2, "exec")
            except SyntaxError as e:
                return {**m, "status": "broken-mutant", "why": str(e)}
        env = dict(os.environ, PINT_REPO=tmp, VERIF_EVIDENCE_DIR=os.path.join(tmp, "evidence"))
        r = subprocess.run([os.path.join(VERIF, "check"), m["property"]], capture_output=True, text=True, env=env)
        out = r.stdout + r.stderr
        kind = m.get("kind", "break")
        if kind == "benign":
            ok = r.returncode == 0
            status = "ok" if ok else "FALSE-ALARM"
        else:
            fired = r.returncode == 1 and "VIOLATION property=" + m["property"] in out
            named = m.get("expect", "") in out
            ok = fired and named
            status = "ok" if ok else ("MISSED" if not fired else "fired-but-wrong-instance")
        tail = [l for l in out.splitlines() if "[" in l and "]" in l and ":" in l][-6:]
        return {**m, "status": status, "exit": r.returncode, "out": tail if not ok else tail[:2]}
    finally:
        shutil.rmtree(tmp, ignore_errors=True)


def main(argv):
    only = []
    jobs = os.cpu_count() or 4
    jout = None
    i = 0
    while i < len(argv):
        if argv[i] == "--only":
            i += 1
            while i < len(argv) and not argv[i].startswith("--"):
                only.append(argv[i])
                i += 1
            continue
        if argv[i] == "--jobs":
            jobs = int(argv[i + 1])
            i += 1
        elif argv[i] == "--json":
            jout = argv[i + 1]
            i += 1
        i += 1
    ms = load_mutants()
    if only:
        ms = [m for m in ms if m["id"] in only or m["property"] in only]
    with ThreadPoolExecutor(max_workers=jobs) as ex:
        res = list(ex.map(run_one, ms))
    bad = 0
    for r in res:
        flag = r["status"]
        if flag not in ("ok", "skipped"):
            bad += 1
        print(f"{flag:26s} {r['property']} {r['id']}: {r.get('why', '')}")
        if flag not in ("ok", "skipped"):
            for l in r.get("out", []):
                print("      ", l)
    n_ok = sum(1 for r in res if r["status"] == "ok")
    n_skip = sum(1 for r in res if r["status"] == "skipped")
    print(f"selftest: {len(res)} mutants, {n_ok} ok, {n_skip} skipped, {bad} bad")
    if jout:
        with open(jout, "w") as fh:
            json.dump([{k: v for k, v in r.items() if k not in ("old", "new")} for r in res], fh, indent=1)
    return 1 if bad else 0


if __name__ == "__main__":
    sys.exit(main(sys.argv[1:]))
