PE = "pint/pint_eval.py"
U = "pint/util.py"
PR = "pint/facets/plain/registry.py"
MUTANTS = [
 dict(id="C07-unary-above-power", property="C07", file=PE, old='    "unary": 2,\n', new='    "unary": 4,\n', expect="_OP_PRIORITY|"),
 dict(id="C07-mod-low-priority", property="C07", file=PE, old='    "%": 1,\n', new='    "%": 0,\n', expect="_OP_PRIORITY|"),
 dict(id="C07-caret-left-assoc", property="C07", file=PE, old='                    ) and token_text not in ("**", "^"):', new='                    ) and token_text not in ("**",):', expect="right-associative-only-power"),
 dict(id="C07-floordiv-is-truediv", property="C07", file=PE, old='    "//": operator.floordiv,\n', new='    "//": operator.truediv,\n', expect="_BINARY_OPERATOR_MAP|//"),
 dict(id="C07-unary-minus-identity", property="C07", file=PE, old='"-": lambda x: x * -1}', new='"-": lambda x: x}', expect="_UNARY_OPERATOR_MAP|-"),
 dict(id="C07-implicit-lt", property="C07", file=PE, old='                if op_priority[""] <= op_priority.get(prev_op, -1):', new='                if op_priority[""] < op_priority.get(prev_op, -1):', expect="equal-priority-groups-left"),
 dict(id="C07-no-result-assert", property="C07", file=PE, old="""            if depth > 0 or prev_op:
                # have to close recursion
                assert result is not None
                return result, index""", new="""            if depth > 0 or prev_op:
                # have to close recursion
                return result, index""", expect="result-known-before-return"),
 dict(id="C07-unopened-paren-ok", property="C07", file=PE, old="""                if prev_op == "<none>":
                    raise DefinitionSyntaxError(
                        f"unopened parentheses in tokens: {current_token}"
                    )
                elif prev_op == "(":""", new="""                if prev_op == "(":""", expect="unopened-parenthesis-raises"),
 dict(id="C07-eval-in-eval-token", property="C07", file=U, old="                return non_int_type(token_text)", new="                return non_int_type(eval(token_text))", expect="G-REACH"),
 dict(id="C07-import-from-token", property="C07", file=PR, old='            if token_text == "dimensionless":\n                return self.Quantity(1)', new='            if token_text == "dimensionless":\n                return self.Quantity(1)\n            elif token_text.startswith("__"):\n                import importlib\n                return importlib.import_module(token_text)', expect="sink-reachable"),
 dict(id="C07-getattr-from-token", property="C07", file=PR, old='            elif token_text in values:\n                return self.Quantity(values[token_text])', new='            elif token_text in values:\n                return self.Quantity(values[token_text])\n            elif hasattr(self, token_text):\n                return getattr(self, token_text)', expect="computed-attribute"),
 dict(id="C07-sign-sets", property="C07", file=PE, old='        if possible_e.string[1] in ["+", "-"]:', new='        if possible_e.string[1] == "-":', expect="exponent-sign-sets-agree"),
 dict(id="C07-caret-not-rewritten", property="C07", file=U, old='    input_string = input_string.replace("^", "**")\n', new='', expect="caret-is-power"),
 dict(id="C07-cubed-is-squared", property="C07", file=U, old='    (r"({}) cubed", r"\\1**3"),', new='    (r"({}) cubed", r"\\1**2"),', expect="_subs_re_list"),
 dict(id="C07-pretty-minus", property="C07", file=U, old='_pretty_table = str.maketrans("⁰¹²³⁴⁵⁶⁷⁸⁹·⁻", "0123456789*-")', new='_pretty_table = str.maketrans("⁰¹²³⁴⁵⁶⁷⁸⁹·⁻", "0123456789*+")', expect="_pretty_table"),
]
