ND = "pint/facets/nonmultiplicative/definitions.py"
NR = "pint/facets/nonmultiplicative/registry.py"
NO = "pint/facets/nonmultiplicative/objects.py"
PQ = "pint/facets/plain/quantity.py"
PD = "pint/facets/plain/definitions.py"
MUTANTS = [
 dict(id="C06-offset-from-ref-inplace-order", property="C06", file=ND, old="            value -= self.offset\n            value /= self.scale\n", new="            value /= self.scale\n            value -= self.offset\n", expect="OffsetConverter.from_reference|inplace==functional"),
 dict(id="C06-log-to-ref-functional", property="C06", file=ND, old="value = self.scale * exp(log(self.logbase) * (value / self.logfactor))", new="value = self.scale * exp(log(self.logbase) * value * self.logfactor)", expect="LogarithmicConverter"),
 dict(id="C06-log-inplace-scale", property="C06", file=ND, old="                value = exp(value)\n            value *= self.scale\n", new="                value = exp(value)\n            value /= self.scale\n", expect="LogarithmicConverter.to_reference|inplace==functional"),
 dict(id="C06-scale-from-ref-multiplies", property="C06", file=PD, old="            value = value / self.scale\n", new="            value = value * self.scale\n", expect="ScaleConverter"),
 dict(id="C06-from-ref-src-converter", property="C06", file=NR, old="            value = self._units[dst_offset_unit].converter.from_reference(", new="            value = self._units[src_offset_unit].converter.from_reference(", expect="from_reference-uses-dst_offset_unit-converter"),
 dict(id="C06-to-ref-unconditional", property="C06", file=NR, old="""        if src_offset_unit:
            if any(u.startswith("delta_") for u in dst):
                raise DimensionalityError(src, dst)
            value = self._units[src_offset_unit].converter.to_reference(value, inplace)""", new="""        if src_offset_unit or dst_offset_unit:
            if any(u.startswith("delta_") for u in dst):
                raise DimensionalityError(src, dst)
            value = self._units[src_offset_unit].converter.to_reference(value, inplace)""", expect="to_reference-iff-src_offset_unit"),
 dict(id="C06-validation-error-not-translated", property="C06", file=NR, old="""        except ValueError as ex:
            raise DimensionalityError(src, dst, extra_msg=f" - In source units, {ex}")""", new="""        except ValueError as ex:
            src_offset_unit = None""", expect="validation-failure-becomes-DimensionalityError"),
 dict(id="C06-delta-guard-removed", property="C06", file=NR, old="""            if any(u.startswith("delta_") for u in dst):
                raise DimensionalityError(src, dst)
""", new="", expect="offset-delta-mixing-refused"),
 dict(id="C06-higher-order-allowed", property="C06", file=NR, old="""            if exponent != 1:
                raise ValueError("offset units in higher order.")
""", new="", expect="_validate_and_extract|higher-order"),
 dict(id="C06-addsub-delta-result-units", property="C06", file=PQ, old="            units = self._units.rename(self_non_mul_unit, \"delta_\" + self_non_mul_unit)\n", new="            units = self._units\n", expect="result-units"),
 dict(id="C06-addsub-final-else-falls-through", property="C06", file=PQ, old="""            magnitude = op(self._convert_magnitude_not_inplace(tu), other._magnitude)
            units = other._units
        else:
            raise OffsetUnitCalculusError(self._units, other._units)""", new="""            magnitude = op(self._convert_magnitude_not_inplace(tu), other._magnitude)
            units = other._units
        else:
            units = self._units
            magnitude = op(self._magnitude, other.to(self._units).magnitude)""", expect="every-other-combination-raises"),
 dict(id="C06-iaddsub-wrong-target", property="C06", file=PQ, old="            self._magnitude = op(self._magnitude, other.to(tu)._magnitude)\n", new="            self._magnitude = op(self._magnitude, other.to(self._units)._magnitude)\n", expect="_iadd_sub|row"),
 dict(id="C06-addsub-condition-weakened", property="C06", file=PQ, old="""        elif (
            op == operator.sub
            and len(other_non_mul_units) == 1
            and other._units[other_non_mul_unit] == 1
            and not self._has_compatible_delta(other_non_mul_unit)
        ):
            # we convert to self directly since it is multiplicative
            magnitude = op(self._magnitude, other.to(self._units)._magnitude)
            units = self._units""", new="""        elif (
            len(other_non_mul_units) == 1
            and other._units[other_non_mul_unit] == 1
            and not self._has_compatible_delta(other_non_mul_unit)
        ):
            # we convert to self directly since it is multiplicative
            magnitude = op(self._magnitude, other.to(self._units)._magnitude)
            units = self._units""", expect="branch-conditions==documented-rows"),
 dict(id="C06-muldiv-guard-not-called", property="C06", file=PQ, old="""        new_self = self

        if not self._ok_for_muldiv(no_offset_units_self):
            raise OffsetUnitCalculusError(self._units, other._units)""", new="""        new_self = self

        if not self._ok_for_muldiv:
            raise OffsetUnitCalculusError(self._units, other._units)""", expect="predicate-called|PlainQuantity._mul_div"),
 dict(id="C06-ok-for-muldiv-simplified", property="C06", file=NO, old="""            if len(self._units) > 1:
                is_ok = False
            if (
                len(self._units) == 1
                and not self._REGISTRY.autoconvert_offset_to_baseunit
            ):
                is_ok = False""", new="""            if not self._REGISTRY.autoconvert_offset_to_baseunit:
                is_ok = False""", expect="_ok_for_muldiv|agrees-with-documented-rule"),
 dict(id="C06-delta-keeps-offset", property="C06", file=NR, old="            ScaleConverter(definition.converter.scale),", new="            definition.converter,", expect="delta-converts-by-scale-only"),
 dict(id="C06-pow-no-autoconvert-check", property="C06", file=PQ, old="""                if not self._is_multiplicative:
                    if self._REGISTRY.autoconvert_offset_to_baseunit:
                        new_self = self.to_root_units()
                    else:
                        raise OffsetUnitCalculusError(self._units)
""", new="""                if not self._is_multiplicative:
                    new_self = self.to_root_units()
""", expect="PlainQuantity.__pow__|offset-base"),
 dict(id="C06-benign-log-factor-order", property="C06", file=ND, kind="benign", old="value = self.logfactor * log(value / self.scale) / log(self.logbase)", new="value = log(value / self.scale) / log(self.logbase) * self.logfactor", expect=""),
]
