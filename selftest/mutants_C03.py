PQ = "pint/facets/plain/quantity.py"
MUTANTS = [
 dict(id="C03-rfloordiv-no-conversion", property="C03", file=PQ, old="            magnitude = other._magnitude // self.to(other._units)._magnitude", new="            magnitude = other._magnitude // self._magnitude", expect="PlainQuantity.__rfloordiv__|floor-division"),
 dict(id="C03-mod-wrong-units", property="C03", file=PQ, old="""        magnitude = self._magnitude % other.to(self._units)._magnitude
        return self.__class__(magnitude, self._units)""", new="""        magnitude = self._magnitude % other.to(self._units)._magnitude
        return self.__class__(magnitude, other._units)""", expect="PlainQuantity.__mod__|constructor"),
 dict(id="C03-iaddsub-noop-conversion", property="C03", file=PQ, old="                self._magnitude = op(self._magnitude, other.to(self._units)._magnitude)\n\n        elif (", new="                self._magnitude = op(self._magnitude, other.to(other._units)._magnitude)\n\n        elif (", expect="PlainQuantity._iadd_sub|additive"),
 dict(id="C03-rtruediv-swapped", property="C03", file=PQ, old="return self.__class__(other_magnitude / self._magnitude, 1 / self._units)", new="return self.__class__(self._magnitude / other_magnitude, 1 / self._units)", expect="PlainQuantity.__rtruediv__|other/self"),
 dict(id="C03-addsub-no-dim-gate", property="C03", file=PQ, old="""            return self.__class__(magnitude, units)

        if not self.dimensionality == other.dimensionality:
            raise DimensionalityError(
                self._units, other._units, self.dimensionality, other.dimensionality
            )
""", new="""            return self.__class__(magnitude, units)
""", expect="dimensionality-gate-dominates-combination"),
 dict(id="C03-addsub-bare-always", property="C03", file=PQ, old="""            elif self.dimensionless:
                units = self.UnitsContainer()
                magnitude = op(
                    self.to(units)._magnitude,
                    _to_magnitude(other, self.force_ndarray, self.force_ndarray_like),
                )
            else:
                raise DimensionalityError(self._units, "dimensionless")
            return self.__class__(magnitude, units)""", new="""            else:
                units = self.UnitsContainer()
                magnitude = op(
                    self.to(units)._magnitude,
                    _to_magnitude(other, self.force_ndarray, self.force_ndarray_like),
                )
            return self.__class__(magnitude, units)""", expect="bare-number-guards-present"),
 dict(id="C03-ifloordiv-no-conversion", property="C03", file=PQ, old="            self._magnitude = self.to(\"\")._magnitude // other\n", new="            self._magnitude //= other\n", expect="PlainQuantity.__ifloordiv__|floor-division"),
 dict(id="C03-iaddsub-dimless-no-relabel", property="C03", file=PQ, old="""            elif self.dimensionless:
                self.ito(self.UnitsContainer())
                self._magnitude = op(self._magnitude, other_magnitude)""", new="""            elif self.dimensionless:
                self._magnitude = op(
                    self._convert_magnitude(self.UnitsContainer()), other_magnitude
                )""", expect="PlainQuantity._iadd_sub|inplace-result-consistent"),
 dict(id="C03-truediv-int-cast-and", property="C03", file=PQ, old="if isinstance(self.m, int) or isinstance(getattr(other, \"m\", None), int):", new="if isinstance(self.m, int) and isinstance(getattr(other, \"m\", None), int):", expect="int-cast-if-either-operand-is-int"),
 dict(id="C03-imuldiv-mutates-other", property="C03", file=PQ, old="            other = other.to_root_units()\n\n        self._magnitude = magnitude_op(self._magnitude, other._magnitude)", new="            other.ito_root_units()\n\n        self._magnitude = magnitude_op(self._magnitude, other._magnitude)", expect="in-place-conversion"),
 dict(id="C03-addsub-inplace-conversion-in-functional", property="C03", file=PQ, old="""                magnitude = op(
                    self._convert_magnitude_not_inplace(other._units), other._magnitude
                )
                units = other._units""", new="""                magnitude = op(self._convert_magnitude(other._units), other._magnitude)
                units = other._units""", expect="functional-form-uses-inplace-conversion"),
 dict(id="C03-divmod-remainder-units", property="C03", file=PQ, old="""            self.__class__(q, self.UnitsContainer({})),
            self.__class__(r, self._units),
        )""", new="""            self.__class__(q, self.UnitsContainer({})),
            self.__class__(r, self.UnitsContainer({})),
        )""", expect="PlainQuantity.__divmod__|constructor"),
 dict(id="C03-isub-dispatch-add", property="C03", file=PQ, old="            return self._iadd_sub(other, operator.isub)", new="            return self._iadd_sub(other, operator.iadd)", expect="PlainQuantity.__isub__|dispatches"),
 dict(id="C03-rsub-not-negated", property="C03", file=PQ, old="        return -self._add_sub(other, operator.sub)", new="        return self._add_sub(other, operator.sub)", expect="__rsub__|negated-difference"),
 dict(id="C03-benign-temp-var", property="C03", file=PQ, kind="benign", old="            magnitude = other._magnitude // self.to(other._units)._magnitude", new="            mine = self.to(other._units)\n            magnitude = other._magnitude // mine._magnitude", expect=""),
 dict(id="C03-ipow-array-exponent-raw-magnitude", property="C03", file=PQ, old='                        self._magnitude = self.m_as("") ** other.m_as("")\n', new='                        self._magnitude = self.m_as("") ** other._magnitude\n', expect="__ipow__|exponent-is-root-magnitude-or-bare-number"),
]
