FP = "pint/delegates/formatter/plain.py"
FL = "pint/delegates/formatter/latex.py"
FH = "pint/delegates/formatter/html.py"
FF = "pint/delegates/formatter/full.py"
FH_ = "pint/delegates/formatter/_format_helpers.py"
SH = "pint/delegates/formatter/_spec_helpers.py"
MUTANTS = [
 dict(id="C09-default-power-caret", property="C09", file=FP, old='            power_fmt="{} ** {}",', new='            power_fmt="{} ^^ {}",', expect="DefaultFormatter|power_fmt"),
 dict(id="C09-compact-product", property="C09", file=FP, old='            product_fmt="*",  # TODO: Should this just be \'\'?', new='            product_fmt="x",', expect="CompactFormatter|product_fmt"),
 dict(id="C09-pretty-exponents-swapped", property="C09", file=FH_, old='_PRETTY_EXPONENTS = "⁰¹²³⁴⁵⁶⁷⁸⁹"', new='_PRETTY_EXPONENTS = "⁰¹³²⁴⁵⁶⁷⁸⁹"', expect="_PRETTY_EXPONENTS|digits-in-order"),
 dict(id="C09-pretty-index-out-of-range", property="C09", file=FH_, old="    for n in range(10):\n        ret = ret.replace(str(n), _PRETTY_EXPONENTS[n])", new="    for n in range(11):\n        ret = ret.replace(str(n), _PRETTY_EXPONENTS[n])", expect="table-index-in-bounds"),
 dict(id="C09-L-before-Lx", property="C09", file=FF, old='''        self._formatters["Lx"] = SIunitxFormatter(registry)
        self._formatters["L"] = LatexFormatter(registry)''', new='''        self._formatters["L"] = LatexFormatter(registry)
        self._formatters["Lx"] = SIunitxFormatter(registry)''', expect="no-key-shadows-a-longer-key"),
 dict(id="C09-P-is-html", property="C09", file=FF, old='        self._formatters["P"] = PrettyFormatter(registry)', new='        self._formatters["P"] = HTMLFormatter(registry)', expect="key-to-class"),
 dict(id="C09-flags-shortest-first", property="C09", file=SH, old="    known_flags = sorted(REGISTERED_FORMATTERS.keys(), key=len, reverse=True)", new="    known_flags = sorted(REGISTERED_FORMATTERS.keys(), key=len)", expect="longest-flag-first"),
 dict(id="C09-latex-frac-no-single-denominator", property="C09", file=FL, old="""            single_denominator=True,
            product_fmt=r" \\cdot ",""", new="""            single_denominator=False,
            product_fmt=r" \\cdot ",""", expect="LatexFormatter|"),
 dict(id="C09-html-sup", property="C09", file=FH, old='''            power_fmt=r"{}<sup>{}</sup>",''', new='''            power_fmt=r"{}<sub>{}</sub>",''', expect="HTMLFormatter|power_fmt"),
]
