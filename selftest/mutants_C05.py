PQ = "pint/facets/plain/quantity.py"
MUTANTS = [
 dict(id="C05-eq-zero-no-mult-guard", property="C05", file=PQ, old="""        if (
            self._is_multiplicative
            and other._is_multiplicative
            and eq(self._magnitude, 0, True)
            and eq(other._magnitude, 0, True)
        ):""", new="""        if eq(self._magnitude, 0, True) and eq(other._magnitude, 0, True):""", expect="both-zero-shortcut-requires-multiplicative"),
 dict(id="C05-eq-zero-half-guard", property="C05", file=PQ, old="            self._is_multiplicative\n            and other._is_multiplicative\n            and eq(self._magnitude, 0, True)", new="            self._is_multiplicative\n            and eq(self._magnitude, 0, True)", expect="PlainQuantity.__eq__|"),
 dict(id="C05-eq-bare-zero-no-mult-test", property="C05", file=PQ, old="""                if self._is_multiplicative:
                    # compare magnitude
                    return eq(self._magnitude, other, False)
                else:
                    # compare the magnitude after converting the
                    # non-multiplicative quantity to plain units
                    if self._REGISTRY.autoconvert_offset_to_baseunit:
                        return eq(self.to_base_units()._magnitude, other, False)
                    else:
                        raise OffsetUnitCalculusError(self._units)

            if self.dimensionless:""", new="""                return eq(self._magnitude, other, False)

            if self.dimensionless:""", expect="PlainQuantity.__eq__|comparison"),
 dict(id="C05-compare-no-dim-check", property="C05", file=PQ, old="""        if self.dimensionality != other.dimensionality:
            raise DimensionalityError(
                self._units, other._units, self.dimensionality, other.dimensionality
            )
        return op(self.to_root_units().magnitude, other.to_root_units().magnitude)""", new="""        return op(self.to_root_units().magnitude, other.to_root_units().magnitude)""", expect="PlainQuantity.compare|"),
 dict(id="C05-compare-registry-check-late", property="C05", file=PQ, old="""        # Registry equality check based on util.SharedRegistryObject
        if self._REGISTRY is not other._REGISTRY:
            mess = "Cannot operate with {} and {} of different registries."
            raise ValueError(
                mess.format(self.__class__.__name__, other.__class__.__name__)
            )

        if self._units == other._units:
            return op(self._magnitude, other._magnitude)""", new="""        if self._units == other._units:
            return op(self._magnitude, other._magnitude)

        # Registry equality check based on util.SharedRegistryObject
        if self._REGISTRY is not other._REGISTRY:
            mess = "Cannot operate with {} and {} of different registries."
            raise ValueError(
                mess.format(self.__class__.__name__, other.__class__.__name__)
            )
""", expect="registry-check-before-reading-other"),
 dict(id="C05-compare-raw-magnitudes", property="C05", file=PQ, old="        return op(self.to_root_units().magnitude, other.to_root_units().magnitude)", new="        return op(self._magnitude, other.to_root_units().magnitude)", expect="PlainQuantity.compare|"),
 dict(id="C05-hash-units", property="C05", file=PQ, old="            (self_base.__class__, self_base.magnitude, self_base.dimensionality)", new="            (self_base.__class__, self_base.magnitude, self_base.units)", expect="hash-granularity"),
 dict(id="C05-hash-shortcut-before-conversion", property="C05", file=PQ, old="""        self_base = self.to_base_units()
        if self_base.dimensionless:
            return hash(self_base.magnitude)
""", new="""        if self.dimensionless:
            return hash(self.magnitude)
        self_base = self.to_base_units()
""", expect="PlainQuantity.__hash__|"),
 dict(id="C05-eq-dimerror-true", property="C05", file=PQ, old="""            if self.dimensionality != other.dimensionality:
                return bool_result(False)
            # Same dimensionality but no direct""", new="""            if self.dimensionality != other.dimensionality:
                return bool_result(True)
            # Same dimensionality but no direct""", expect="different-dimension-returns-False"),
 dict(id="C05-le-uses-lt", property="C05", file=PQ, old="    __le__ = lambda self, other: self.compare(other, op=operator.le)", new="    __le__ = lambda self, other: self.compare(other, op=operator.lt)", expect="PlainQuantity.__le__"),
 dict(id="C05-eq-converts-wrong-target", property="C05", file=PQ, old="""                self._convert_magnitude_not_inplace(other._units),
                other._magnitude,
                False,""", new="""                self._convert_magnitude_not_inplace(self._units),
                other._magnitude,
                False,""", expect="PlainQuantity.__eq__|comparison"),
 dict(id="C05-benign-eq-reorder-guard", property="C05", file=PQ, kind="benign", old="            self._is_multiplicative\n            and other._is_multiplicative\n            and eq(self._magnitude, 0, True)", new="            other._is_multiplicative\n            and self._is_multiplicative\n            and eq(self._magnitude, 0, True)", expect=""),
 dict(id="C05-ito-carries-memo-key", property="C05", file=PQ, old="        self._magnitude = self._convert_magnitude(other, *contexts, **ctx_kwargs)\n        self._units = other\n", new="        self._magnitude = self._convert_magnitude(other, *contexts, **ctx_kwargs)\n        if self._dimensionality_units is self._units:\n            self._dimensionality_units = other\n        self._units = other\n", expect="Quantity:_dimensionality_units|written-by"),
 dict(id="C05-benign-ito-invalidates-memo-key", property="C05", file=PQ, kind="benign", old="        self._magnitude = self._convert_magnitude(other, *contexts, **ctx_kwargs)\n        self._units = other\n", new="        self._magnitude = self._convert_magnitude(other, *contexts, **ctx_kwargs)\n        self._dimensionality_units = None\n        self._units = other\n", expect=""),
]
