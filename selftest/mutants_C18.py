E = "pint/errors.py"
PQ = "pint/facets/plain/quantity.py"
PR = "pint/facets/plain/registry.py"
U = "pint/util.py"
MUTANTS = [
 dict(id="C18-dimerror-reduce-swapped", property="C18", file=E, old="""        return self.__class__, (
            self.units1,
            self.units2,
            self.dim1,
            self.dim2,
            self.extra_msg,
        )""", new="""        return self.__class__, (
            self.units2,
            self.units1,
            self.dim1,
            self.dim2,
        )""", expect="reduce-roundtrip|pint.errors::DimensionalityError|fields"),
 dict(id="C18-unpickle-construct-first", property="C18", file="pint/__init__.py", old="""    for arg in args:
        # Prefixed units are defined within the registry
        # on parsing (which does not happen here).
        # We need to make sure that this happens before using.
        if isinstance(arg, UnitsContainer):
            for name in arg:
                application_registry.parse_units(name)

    return cls(*args)""", new="""    out = cls(*args)
    for arg in args:
        if isinstance(arg, UnitsContainer):
            for name in arg:
                application_registry.parse_units(name)

    return out""", expect="_unpickle|"),
 dict(id="C18-floordiv-isinstance", property="C18", file=PQ, old="""    def __floordiv__(self, other):
        if self._check(other):""", new="""    def __floordiv__(self, other):
        if isinstance(other, PlainQuantity):""", expect="PlainQuantity.__floordiv__|registry-check-before-using-other"),
 dict(id="C18-deepcopy-no-dynamic-classes", property="C18", file=PR, old="        new.__dict__ = copy.deepcopy(self.__dict__, memo)\n        new._init_dynamic_classes()\n", new="        new.__dict__ = copy.deepcopy(self.__dict__, memo)\n", expect="registry-deepcopy|dynamic-classes-recreated"),
 dict(id="C18-deepcopy-no-memo", property="C18", file=PR, old="        memo[id(self)] = new\n", new="", expect="registry-deepcopy|copy-entered-in-memo"),
 dict(id="C18-system-rebind-self", property="C18", file="pint/facets/system/registry.py", old="            system.__class__ = new.System", new="            system.__class__ = self.System", expect="registry-deepcopy|instances-rebound|System"),
 dict(id="C18-group-no-rebind", property="C18", file="pint/facets/group/registry.py", old="""    def __deepcopy__(self, memo):
        new = super().__deepcopy__(memo)
        # The copied groups belong to the copy, not to the source registry.
        for grp in new._groups.values():
            grp.__class__ = new.Group
        return new

""", new="", expect="registry-deepcopy|instances-rebound|Group"),
 dict(id="C18-getstate-hash", property="C18", file=U, old="        return self._d, self._one, self._non_int_type\n", new="        return self._d, self._one, self._non_int_type, self._hash\n", expect="UnitsContainer|getstate-setstate-same-fields"),
 dict(id="C18-reduce-type-self", property="C18", file=PQ, old="        return _unpickle_quantity, (PlainQuantity, self.magnitude, self._units)", new="        return _unpickle_quantity, (PlainQuantity, self.magnitude)", expect="PlainQuantity.__reduce__|hook-and-fields"),
 dict(id="C18-syntaxerror-reduce-dropped", property="C18", file="pint/delegates/txt_defparser/common.py", old="""    def __reduce__(self):
        # The inherited __reduce__ only carries msg: keep the location and the
        # statement (position and raw text) so that the message survives pickling.
        return (
            self.__class__,
            (self.msg, self.location),
            {"_statement": self._statement},
        )
""", new="", expect="instance-state-carried"),
 dict(id="C18-copy-shares-magnitude", property="C18", file=PQ, old="        ret = self.__class__(copy.copy(self._magnitude), self._units)", new="        ret = self.__class__(self._magnitude, self._units)", expect="PlainQuantity.__copy__"),
 dict(id="C18-from-tuple-swapped", property="C18", file=PQ, old="        return cls(tup[0], cls._REGISTRY.UnitsContainer(tup[1]))", new="        return cls(tup[1], cls._REGISTRY.UnitsContainer(tup[0]))", expect="to_tuple/from_tuple"),
 dict(id="C18-check-no-raise", property="C18", file=U, old="""        elif isinstance(other, SharedRegistryObject):
            mess = "Cannot operate with {} and {} of different registries."
            raise ValueError(
                mess.format(self.__class__.__name__, other.__class__.__name__)
            )
        else:
            return False""", new="""        else:
            return False""", expect="_check|foreign-registry-object-raises"),
]
