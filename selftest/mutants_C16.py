NF = "pint/facets/numpy/numpy_func.py"
NQ = "pint/facets/numpy/quantity.py"
MUTANTS = [
 dict(id="C16-benign-hypot-unsupported", property="C16", file=NF, kind="benign", old='    "floor",\n    "hypot",\n    "rint",', new='    "floor",\n    "rint",', expect=""),
 dict(id="C16-hypot-moved", property="C16", file=NF, old='copy_units_output_ufuncs = ["ldexp", "fmod", "mod", "remainder"]', new='copy_units_output_ufuncs = ["ldexp", "fmod", "mod", "remainder", "maximum"]', expect="registration|no-name-registered-twice-differently"),
 dict(id="C16-sin-degree", property="C16", file=NF, old='    "sin": ("radian", ""),', new='    "sin": ("degree", ""),', expect="ufunc:sin|policy"),
 dict(id="C16-sqrt-square", property="C16", file=NF, old='    "sqrt": "sqrt",', new='    "sqrt": "square",', expect="ufunc:sqrt|policy"),
 dict(id="C16-less-no-conversion", property="C16", file=NF, old='matching_input_bare_output_ufuncs = [\n    "equal",\n    "greater",', new='strip_unit_input_output_ufuncs += ["greater"]\nmatching_input_bare_output_ufuncs = [\n    "equal",', expect="ufunc:greater|policy"),
 dict(id="C16-new-op-not-dispatched", property="C16", file=NF, old='    elif unit_op == "invdiv":', new='    elif unit_op == "cube":\n        result_unit = first_input_units**3\n    elif unit_op == "invdiv":', expect="op-strings|dispatched==understood"),
 dict(id="C16-searchsorted-args", property="C16", file=NF, old='    ("searchsorted", ["a", "v"], False),', new='    ("searchsorted", ["a"], False),', expect="function:searchsorted|unit-arguments"),
 dict(id="C16-var-sum", property="C16", file=NF, old='for func_str in ("var", "nanvar"):\n    implement_func("function", func_str, input_units=None, output_unit="variance")', new='for func_str in ("var", "nanvar"):\n    implement_func("function", func_str, input_units=None, output_unit="sum")', expect="function:var|policy"),
 dict(id="C16-interp-swap", property="C16", file=NF, old="(fp, left, right), output_wrap = unwrap_and_wrap_consistent_units(fp, left, right)", new="(fp, right, left), output_wrap = unwrap_and_wrap_consistent_units(fp, left, right)", expect="_interp|order-preserving-destructuring"),
 dict(id="C16-interp-kw-swap", property="C16", file=NF, old="np.interp(x, xp, fp, left=left, right=right, period=period)", new="np.interp(x, xp, fp, left=right, right=left, period=period)", expect="_interp|keyword-role"),
 dict(id="C16-where-condition-units", property="C16", file=NF, old='    condition = getattr(condition, "magnitude", condition)\n    args, output_wrap = unwrap_and_wrap_consistent_units(*args)', new='    args, output_wrap = unwrap_and_wrap_consistent_units(condition, *args)\n    condition, args = args[0], args[1:]', expect="_where|"),
 dict(id="C16-copyto-no-conversion", property="C16", file=NF, old="            src = src.m_as(dst.units)\n", new="            src = src.m\n", expect="_copyto|"),
 dict(id="C16-method-wrap-ito", property="C16", file=NQ, old="        return self.to(to_units)\n", new="        self.ito(to_units)\n        return self\n", expect="_numpy_method_wrap|no-inplace-conversion-of-self"),
 dict(id="C16-clip-no-conversion", property="C16", file=NQ, old="                min = min.to(self).magnitude", new="                min = min.magnitude", expect="NumpyQuantity.clip|min-converted"),
 dict(id="C16-mulfunc-inline", property="C16", file=NF, old="            b = _base_unit_if_needed(b)\n            units *= b.units\n            b = b._magnitude\n\n        mag", new="            units *= b.units\n            b = _base_unit_if_needed(b)._magnitude\n\n        mag", expect="converted-operand-bound-before-use"),
 dict(id="C16-trapz-units-before-conversion", property="C16", file=NF, old="            x = _base_unit_if_needed(x)\n            units *= x.units\n", new="            units *= x.units\n            x = _base_unit_if_needed(x)\n", expect="x-read-before-offset-conversion"),
 dict(id="C16-get-op-sqrt", property="C16", file=NF, old="        result_unit = first_input_units**0.5", new="        result_unit = first_input_units**2", expect="get_op_output_unit|sqrt"),
 dict(id="C16-unwrap-last-unit", property="C16", file=NF, old="        lambda value: first_input_units._REGISTRY.Quantity(value, first_input_units),", new="        lambda value: first_input_units._REGISTRY.Quantity(value),", expect="unwrap_and_wrap_consistent_units|"),
]
