MO = "pint/facets/measurement/objects.py"
PE = "pint/pint_eval.py"
MUTANTS = [
 dict(id="C19-no-negative-gate", property="C19", file=MO, old="""            if error < 0:
                raise ValueError("The magnitude of the error cannot be negative")
            else:
                mag = ufloat(value, error)""", new="""            mag = ufloat(value, error)""", expect="negative-error-tested"),
 dict(id="C19-gate-abs", property="C19", file=MO, old="            if error < 0:\n", new="            if error < 0 and False:\n", expect="negative-error-tested"),
 dict(id="C19-error-not-converted", property="C19", file=MO, old="                error = error.to(units).magnitude\n", new="                error = error.magnitude\n", expect="quantity-error-converted-to-value-units"),
 dict(id="C19-ufloat-swapped", property="C19", file=MO, old="mag = ufloat(value, error)", new="mag = ufloat(error, value)", expect="ufloat(value, error)"),
 dict(id="C19-rebuild-ufloat", property="C19", file=MO, old="            mag = value\n", new="            mag = ufloat(value.nominal_value, value.std_dev) if hasattr(value, 'std_dev') else value\n", expect="magnitude-is-value-or-ufloat"),
 dict(id="C19-plusminus-units", property="C19", file=MO, old="            error = error.to(self._units).magnitude\n", new="            error = error.magnitude\n", expect="quantity-error-converted-to-own-units"),
 dict(id="C19-plusminus-abs-product", property="C19", file=MO, old="error = error * abs(self.magnitude)", new="error = abs(error * self.magnitude)", expect="relative-error-scaled-by-abs-magnitude"),
 dict(id="C19-plusminus-no-abs", property="C19", file=MO, old="error = error * abs(self.magnitude)", new="error = error * self.magnitude", expect="relative-error-scaled-by-abs-magnitude"),
 dict(id="C19-plusminus-rel-quantity", property="C19", file=MO, old="""            if relative:
                raise ValueError(f"{error} is not a valid relative error.")
""", new="", expect="quantity-as-relative-error-raises"),
 dict(id="C19-error-prop", property="C19", file=MO, old="self._REGISTRY.Quantity(self.magnitude.std_dev, self.units)", new="self._REGISTRY.Quantity(self.magnitude.std_dev, self.units) * 2", expect="Measurement.error"),
 dict(id="C19-priority", property="C19", file=PE, old='    "+/-": 4,', new='    "+/-": 1,', expect="plus-minus-binds-tightest"),
 dict(id="C19-nan-zero-merged", property="C19", file=PE, old='        if float(mantissa.string) == 0.0:', new='        if mantissa.string.startswith("0"):', expect="exponent-skipped-only-for-nan-and-zero"),
 dict(id="C19-exponent-only-value", property="C19", file=PE, old="        std_dev = _apply_e_notation(std_dev, possible_e)\n", new="", expect="exponent-applied-to-value-and-error"),
 dict(id="C19-benign-rename-local", property="C19", kind="benign", file=MO, old="""            mag = value
        else:
            try:
                error = error.to(units).magnitude
            except AttributeError:
                pass
            if error < 0:
                raise ValueError("The magnitude of the error cannot be negative")
            else:
                mag = ufloat(value, error)

        inst = super().__new__(cls, mag, units)
        return inst""", new="""            magnitude = value
        else:
            try:
                error = error.to(units).magnitude
            except AttributeError:
                pass
            if error < 0:
                raise ValueError("The magnitude of the error cannot be negative")
            magnitude = ufloat(value, error)

        return super().__new__(cls, magnitude, units)""", expect=""),
 dict(id="C19-benign-rename-mag", property="C19", kind="benign", file=MO, old="""            mag = value
        else:""", new="""            mag = value  # kept
        else:""", expect=""),
]
