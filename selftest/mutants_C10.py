PD = "pint/facets/plain/definitions.py"
PR = "pint/facets/plain/registry.py"
TP = "pint/delegates/txt_defparser/"
MUTANTS = [
 dict(id="C10-mixed-ref-return", property="C10", file=PD, old="""        else:
            raise self.def_err(
                "Cannot mix dimensions and units in the same definition. \"""", new="""        else:
            return self.def_err(
                "Cannot mix dimensions and units in the same definition. \"""", expect="UnitDefinition.__post_init__|error-object-raised"),
 dict(id="C10-symbol-validator-name", property="C10", file=PD, old="errors.is_valid_unit_symbol(self.defined_symbol)", new="errors.is_valid_unit_symbol(self.name)", expect="validator-field-agreement"),
 dict(id="C10-alias-adder-unregistered", property="C10", file=PR, old="        self._register_adder(AliasDefinition, self._add_alias)\n", new="", expect="adder|AliasDefinition"),
 dict(id="C10-relation-order", property="C10", file=TP + "context.py", old="            plain.CommentDefinition,\n            BidirectionalRelation,\n            ForwardRelation,\n            plain.UnitDefinition,", new="            plain.CommentDefinition,\n            ForwardRelation,\n            BidirectionalRelation,\n            plain.UnitDefinition,", expect="ContextDefinition|body-classifier-order"),
 dict(id="C10-unit-before-prefix", property="C10", file=TP + "defparser.py", old="            plain.PrefixDefinition,\n            plain.UnitDefinition,\n        ],", new="            plain.UnitDefinition,\n            plain.PrefixDefinition,\n        ],", expect="root-classifier-order|PrefixDefinition<UnitDefinition"),
 dict(id="C10-cache-header-no-type", property="C10", file="pint/delegates/base_defparser.py", old="        non_int_type: str = chosen_non_int_type.__qualname__\n", new="", expect="disk_cache|header-has-non_int_type"),
 dict(id="C10-syntax-error-skipped", property="C10", file=TP + "defparser.py", old="                stmt.set_location(last_location)\n                raise stmt", new="                stmt.set_location(last_location)\n                continue", expect="iter_parsed_project|syntax-error-statements-raised"),
 dict(id="C10-cycle-no-raise", property="C10", file="pint/util.py", old="""        if not t:
            raise ValueError(
                "Cyclic dependencies exist among these items: {}".format(
                    ", ".join(repr(x) for x in dependencies.items())
                )
            )""", new="""        if not t:
            return""", expect="solve_dependencies|cycle-raises"),
 dict(id="C10-context-defaults-float", property="C10", file=TP + "context.py", old="defaults = {str(k).strip(): config.to_number(v) for k, v in defaults}", new="defaults = {str(k).strip(): float(v) for k, v in defaults}", expect="BeginContext.from_string_and_config"),
 dict(id="C10-derived-dim-dropped", property="C10", file=PR, old="""    def _add_derived_dimension(self, definition: DerivedDimensionDefinition) -> None:
        for dim_name""", new="""    def _add_derived_dimension(self, definition: DerivedDimensionDefinition) -> None:
        if definition.name in self._dimensions:
            return
        for dim_name""", expect="_add_derived_dimension|always-stored"),
 dict(id="C10-group-units-not-consumed", property="C10", file=TP + "group.py", old="        return tuple(el for el in self.body if isinstance(el, plain.UnitDefinition))", new="        return tuple(el for el in self.body if isinstance(el, plain.CommentDefinition))", expect="GroupDefinition|body-member-consumed"),
 dict(id="C10-comment-guard", property="C10", file=TP + "plain.py", old='        if not s.startswith("#"):\n            return None\n        return cls(s[1:].strip())', new='        if "#" not in s:\n            return None\n        return cls(s[1:].strip())', expect="classifier-guard|CommentDefinition"),
 dict(id="C10-prefix-error-dropped", property="C10", file=TP + "plain.py", old="""        except definitions.NotNumeric as ex:
            return common.DefinitionSyntaxError(
                f"Prefix definition ('{name}') must contain only numbers, not {ex.value}"
            )""", new="""        except definitions.NotNumeric as ex:
            common.DefinitionSyntaxError(
                f"Prefix definition ('{name}') must contain only numbers, not {ex.value}"
            )
            value = 1""", expect="error-returned-or-raised"),
 dict(id="C10-warm-cache-dropped", property="C10", file=PR, old="            else:\n                self._cache = cache\n            return\n", new="            return\n", expect="disk_cache|loaded-cache-installed"),
 dict(id="C10-cache-key-root-only", property="C10", file="pint/delegates/base_defparser.py", old="                for stmt in pp.iter_statements()\n                if isinstance(stmt, fp.BOS)", new="                for stmt in [pp[None].parsed_source.start_stmt if hasattr(pp[None], 'parsed_source') else None]\n                if isinstance(stmt, fp.BOS)", expect="key-covers-every-loaded-source"),
 dict(id="C10-skip-units", property="C10", file=TP + "defparser.py", old="        fp.EOS,\n        plain.CommentDefinition,\n    )", new="        fp.EOS,\n        plain.CommentDefinition,\n        plain.AliasDefinition,\n    )", expect="DefParser.skip_classes"),
]
