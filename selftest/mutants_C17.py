RH = "pint/registry_helpers.py"
MUTANTS = [
 dict(id="C17-wraps-no-arity-test", property="C17", file=RH, old="""        if len(args) != count_params:
            raise TypeError(
                "%s takes %i parameters, but %i units were passed"
                % (func.__name__, count_params, len(args))
            )
""", new="", expect="wraps|parameter-count-tested"),
 dict(id="C17-check-arity-warn", property="C17", file=RH, old="""        if len(dimensions) != count_params:
            raise TypeError(""", new="""        if len(dimensions) > count_params:
            raise TypeError(""", expect="check|parameter-count-tested"),
 dict(id="C17-dependent-not-added", property="C17", file=RH, old="""                else:
                    # The variable was already found elsewhere,
                    # we consider it a dependent variable.
                    dependent_args_ndx.add(ndx)
            else:
                dependent_args_ndx.add(ndx)""", new="""                else:
                    # The variable was already found elsewhere,
                    # we consider it a dependent variable.
                    pass
            else:
                dependent_args_ndx.add(ndx)""", expect="every-index-classified-exactly-once"),
 dict(id="C17-check-none-break", property="C17", file=RH, old="                if dim is None:\n                    continue", new="                if dim is None:\n                    break", expect="check.wrapper|none-skips"),
 dict(id="C17-dependent-skip-bare", property="C17", file=RH, old="            value = values[ndx]\n            assert _replace_units(args_as_uc[ndx][0], values_by_name) is not None", new="            value = values[ndx]\n            if not hasattr(value, '_units'):\n                continue\n            assert _replace_units(args_as_uc[ndx][0], values_by_name) is not None", expect="dependent-pass-converts-every-value"),
 dict(id="C17-definition-condition", property="C17", file=RH, old="                if value == 1 and key not in defs_args:", new="                if key not in defs_args:", expect="definition-iff-exponent-1"),
 dict(id="C17-strict-passes", property="C17", file=RH, old="""                    else:
                        raise ValueError(
                            "A wrapped function using strict=True requires \"""", new="""                    elif False:
                        raise ValueError(
                            "A wrapped function using strict=True requires \"""", expect="_converter|strict"),
 dict(id="C17-apply-defaults-overrides", property="C17", file=RH, old="            and param.default != Parameter.empty\n            and param.name not in kwargs", new="            and param.default != Parameter.empty", expect="_apply_defaults|only-absent-parameters"),
 dict(id="C17-check-order", property="C17", file=RH, old="""            for i, param_name in enumerate(sig.parameters):
                if i >= len(args):
                    list_args.append(kw[param_name])

            for dim, value""", new="""            list_args.extend(kw.values())

            for dim, value""", expect="keyword-arguments-in-signature-order"),
 dict(id="C17-result-not-rewrapped", property="C17", file=RH, old="""            return ureg.Quantity(
                result, _replace_units(ret[0], values_by_name) if ret[1] else ret[0]
            )""", new="""            return ureg.Quantity(result, ret[0])""", expect="result-rewrapped"),
 dict(id="C17-replace-units-no-exponent", property="C17", file=RH, old="        q = q * values_by_name[arg_name] ** exponent", new="        q = q * values_by_name[arg_name]", expect="_replace_units"),
]
