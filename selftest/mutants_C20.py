DE = "pint/default_en.txt"
CE = "pint/constants_en.txt"
MUTANTS = [
 dict(id="C20-inch-digit", property="C20", file=DE, old="    yard = 0.9144 * meter = yd = international_yard", new="    yard = 0.9114 * meter = yd = international_yard", expect="unit:yard|value"),
 dict(id="C20-pound-grain", property="C20", file=DE, old="    pound = 7e3 * grain = lb", new="    pound = 7.1e3 * grain = lb", expect="unit:pound|value"),
 dict(id="C20-speed-of-light", property="C20", file=CE, old="speed_of_light = 299792458 m/s", new="speed_of_light = 299792485 m/s", expect="constant:speed_of_light|value"),
 dict(id="C20-fahrenheit-offset", property="C20", file=DE, old="offset: 233.15 + 200 / 9 = °F", new="offset: 233.15 + 200 / 8 = °F", expect="offset_unit:degree_Fahrenheit|offset"),
 dict(id="C20-symbol-swap", property="C20", file=DE, old="ronna- = 1e27 = R-", new="ronna- = 1e27 = r-", expect="prefix:ronna|symbol"),
 dict(id="C20-imperial-floz", property="C20", file=DE, old="    imperial_fluid_ounce = imperial_pint / 20", new="    imperial_fluid_ounce = imperial_pint / 16", expect="unit:imperial_fluid_ounce|value"),
 dict(id="C20-electron-mass-digit", property="C20", file=CE, old="electron_mass = 9.1093837139e-31 kg", new="electron_mass = 9.1093837015e-31 kg", expect="measured:electron_mass|digits"),
 dict(id="C20-newton-dims", property="C20", file=DE, old="newton = kilogram * meter / second ** 2 = N", new="newton = kilogram * meter / second = N", expect="unit:newton|"),
 dict(id="C20-kibi", property="C20", file=DE, old="kibi- = 2**10 = Ki-", new="kibi- = 10**3 = Ki-", expect="prefix:kibi|value"),
 dict(id="C20-degree", property="C20", file=DE, old="degree = π / 180 * radian = deg", new="degree = π / 200 * radian = deg", expect="angle:degree|value"),
 dict(id="C20-mmHg", property="C20", file=DE, old="mercury = 13.5951 * kilogram / liter", new="mercury = 13.5915 * kilogram / liter", expect="unit:millimeter_Hg|value"),
 dict(id="C20-quarter-regression", property="C20", file=DE, old="    quarter = 28 * pound\n", new="    quarter = 28 * stone\n", expect="unit:quarter|value"),
 dict(id="C20-benign-reformat", property="C20", file=DE, kind="benign", old="    yard = 0.9144 * meter = yd = international_yard", new="    yard = 9144e-4 * meter = yd = international_yard", expect=""),
]
