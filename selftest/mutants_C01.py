PR = "pint/facets/plain/registry.py"
MUTANTS = [
 dict(id="C01-drop-dim-gate", property="C01", file=PR,
      old="""        if src_dim != dst_dim:
            return DimensionalityError(src, dst, src_dim, dst_dim)

        # Here src and dst have only multiplicative units left.""",
      new="""        # Here src and dst have only multiplicative units left.""",
      expect="conversion_factor|"),
 dict(id="C01-gate-same-arg", property="C01", file=PR,
      old="""        dst_dim = self._get_dimensionality(dst)

        # If the source and destination dimensionality are different,
        # then the conversion cannot be performed.
        if src_dim != dst_dim:
            return DimensionalityError(src, dst, src_dim, dst_dim)""",
      new="""        dst_dim = self._get_dimensionality(src)

        # If the source and destination dimensionality are different,
        # then the conversion cannot be performed.
        if src_dim != dst_dim:
            return DimensionalityError(src, dst, src_dim, dst_dim)""",
      expect="dim-test-compares-src-and-dst"),
 dict(id="C01-drop-raise-factor", property="C01", file=PR,
      old="""        if isinstance(factor, DimensionalityError):
            raise factor

""", new="", expect="plain_convert|"),
 dict(id="C01-raise-to-pass", property="C01", file=PR,
      old="""        if isinstance(factor, DimensionalityError):
            raise factor
""", new="""        if isinstance(factor, DimensionalityError):
            factor = 1
""", expect="plain_convert|error-object-raised"),
 dict(id="C01-qty-compat-units", property="C01", file="pint/facets/plain/quantity.py",
      old="""        if isinstance(other, (PlainQuantity, PlainUnit)):
            return self.dimensionality == other.dimensionality

        if isinstance(other, str):
            return (
                self.dimensionality == self._REGISTRY.parse_units(other).dimensionality
            )

        return self.dimensionless

    def _convert_magnitude_not_inplace""",
      new="""        if isinstance(other, (PlainQuantity, PlainUnit)):
            return self._units == other._units

        if isinstance(other, str):
            return (
                self.dimensionality == self._REGISTRY.parse_units(other).dimensionality
            )

        return self.dimensionless

    def _convert_magnitude_not_inplace""",
      expect="verdict-compares-dimensionalities"),
 dict(id="C01-memo-wrong-key", property="C01", file=PR,
      old="        cache[input_units] = dims\n", new="        cache[dims] = dims\n", expect="dimensionality|store-key"),
 dict(id="C01-keep-dimless-marker", property="C01", file=PR,
      old="""        if "[]" in accumulator:
            del accumulator["[]"]
""", new="", expect="dimensionless-marker-removed"),
 dict(id="C01-keep-zero-exponents", property="C01", file=PR,
      old="dims = self.UnitsContainer({k: v for k, v in accumulator.items() if v != 0})",
      new="dims = self.UnitsContainer({k: v for k, v in accumulator.items()})", expect="zero-exponents-filtered"),
 dict(id="C01-ctx-convert-bypass", property="C01", file="pint/facets/context/registry.py",
      old="""                value, src = src._magnitude, src._units

        return super()._convert(value, src, dst, inplace)""",
      new="""                value, src = src._magnitude, src._units
                if src == dst:
                    return value

        return super()._convert(value, src, dst, inplace)""",
      expect="every-normal-exit-through-super-convert"),
 dict(id="C01-nonmult-offset-gate", property="C01", file="pint/facets/nonmultiplicative/registry.py",
      old="""        if src_dim != dst_dim:
            raise DimensionalityError(src, dst, src_dim, dst_dim)
""", new="", expect="nonmult_convert|"),
 dict(id="C01-check-no-raise", property="C01", file="pint/registry_helpers.py",
      old="""                    raise DimensionalityError(value, "a quantity of", val_dim, dim)""",
      new="""                    warnings.warn(str(DimensionalityError(value, "a quantity of", val_dim, dim)))""",
      expect="registry_helpers.check|failed-check-raises"),
 dict(id="C01-benign-rename-local", property="C01", file=PR, kind="benign",
      old="""        src_dim = self._get_dimensionality(src)
        dst_dim = self._get_dimensionality(dst)

        # If the source and destination dimensionality are different,
        # then the conversion cannot be performed.
        if src_dim != dst_dim:
            return DimensionalityError(src, dst, src_dim, dst_dim)""",
      new="""        sdim = self._get_dimensionality(src)
        ddim = self._get_dimensionality(dst)
        if not sdim == ddim:
            err = DimensionalityError(src, dst, sdim, ddim)
            return err""", expect=""),
 dict(id="C01-benign-compat-reorder", property="C01", file="pint/facets/plain/unit.py", kind="benign",
      old="""        if isinstance(other, (PlainQuantity, PlainUnit)):
            return self.dimensionality == other.dimensionality
""",
      new="""        if isinstance(other, (PlainQuantity, PlainUnit)):
            mine = self.dimensionality
            return other.dimensionality == mine
""", expect=""),
]
