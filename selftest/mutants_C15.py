Q = "pint/facets/plain/qto.py"
PQ = "pint/facets/plain/quantity.py"
MUTANTS = [
 dict(id="C15-ito-root-mixed", property="C15", file=PQ, old="""        _, other = self._REGISTRY._get_root_units(self._units)

        self._magnitude = self._convert_magnitude(other)
        self._units = other

        return None

    def to_root_units""", new="""        _, other = self._REGISTRY._get_root_units(self._units)
        _, other2 = self._REGISTRY._get_base_units(self._units)

        self._magnitude = self._convert_magnitude(other)
        self._units = other2

        return None

    def to_root_units""", expect="PlainQuantity.ito_root_units"),
 dict(id="C15-compact-returns-mixed", property="C15", file=Q, old="    return quantity.to(new_unit_container)", new="    return quantity.__class__(q_base.to(new_unit_container).magnitude, quantity._units)", expect="to_compact|exit-is-input-or-conversion"),
 dict(id="C15-compact-prefix-from-input", property="C15", file=Q, old="    magnitude = q_base.magnitude\n    # Support uncertainties\n    if hasattr(magnitude, \"nominal_value\"):\n        magnitude = magnitude.nominal_value", new="    magnitude = qm", expect="prefix-from-converted-magnitude"),
 dict(id="C15-compact-zero-guard", property="C15", file=Q, old="    if quantity.unitless or qm == 0 or math.isnan(qm) or math.isinf(qm):", new="    if quantity.unitless or math.isnan(qm) or math.isinf(qm):", expect="to_compact|unchanged-for|qm == 0"),
 dict(id="C15-reduced-break", property="C15", file=Q, old="        if unit1 not in units:\n            continue", new="        if unit1 not in units:\n            break", expect="eliminated-unit-skipped-not-aborting"),
 dict(id="C15-ito-reduced-differs", property="C15", file=Q, old="""    if len(quantity._units) == 1:
        return None

    units = quantity._units.copy()
    new_units = _get_reduced_units(quantity, units)

    return quantity.ito(new_units)""", new="""    units = quantity._units.copy()
    new_units = _get_reduced_units(quantity, units)

    return quantity.ito(new_units)""", expect="to_reduced_units/ito_reduced_units|same-branches"),
 dict(id="C15-ireduce-self", property="C15", file=PQ, old="            if result._REGISTRY.auto_reduce_dimensions:\n                result.ito_reduced_units()", new="            if result._REGISTRY.auto_reduce_dimensions:\n                self.ito_reduced_units()", expect="ireduce_dimensions|"),
 dict(id="C15-ito-base-root", property="C15", file=PQ, old="""        _, other = self._REGISTRY._get_base_units(self._units)

        self._magnitude = self._convert_magnitude(other)""", new="""        _, other = self._REGISTRY._get_root_units(self._units)

        self._magnitude = self._convert_magnitude(other)""", expect="ito_base_units"),
 dict(id="C15-compact-ceil-floor-swapped", property="C15", file=Q, old="    if unit_power > 0:\n        power = math.floor(", new="    if unit_power < 0:\n        power = math.floor(", expect="floor-for-positive-ceil-for-negative"),
 dict(id="C15-preferred-ito-direct-write", property="C15", file=Q, old="    units = _get_preferred(quantity, preferred_units)\n    return quantity.ito(units)", new="    units = _get_preferred(quantity, preferred_units)\n    quantity._units = units._units if hasattr(units, '_units') else units\n    return None", expect="ito_preferred"),
]
