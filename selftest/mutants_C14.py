SR = "pint/facets/system/registry.py"
SO = "pint/facets/system/objects.py"
GR = "pint/facets/group/registry.py"
GO = "pint/facets/group/objects.py"
PQ = "pint/facets/plain/quantity.py"
MUTANTS = [
 dict(id="C14-setter-no-reset", property="C14", file=SR, old="        self._base_units_cache = {}\n        self._default_system_name = name\n", new="        self._default_system_name = name\n", expect="writer=default_system.setter"),
 dict(id="C14-write-guard", property="C14", file=SR, old="        if check_nonmult and system == self._default_system_name:\n            self._base_units_cache[input_units]", new="        if check_nonmult:\n            self._base_units_cache[input_units]", expect="write-guard-implies-read-guard"),
 dict(id="C14-exponent-dropped", property="C14", file=SR, old="                destination_units *= new_unit**value", new="                destination_units *= new_unit", expect="_get_base_units|"),
 dict(id="C14-factor-conversion-reversed", property="C14", file=SR, old="base_factor = self.convert(factor, units, destination_units)", new="base_factor = self.convert(factor, destination_units, units)", expect="factor-converted-root-to-base"),
 dict(id="C14-system-created-on-demand", property="C14", file=SR, old="bu = self.get_system(system, False).base_units", new="bu = self.get_system(system, True).base_units", expect="system-looked-up-not-created"),
 dict(id="C14-ito-base-uses-root", property="C14", file=PQ, old="""        _, other = self._REGISTRY._get_base_units(self._units)

        self._magnitude = self._convert_magnitude(other)""", new="""        _, other = self._REGISTRY._get_root_units(self._units)

        self._magnitude = self._convert_magnitude(other)""", expect="PlainQuantity.ito_base_units|target-from-_get_base_units"),
 dict(id="C14-group-union-to-intersection", property="C14", file=GO, old="                tmp |= group.members", new="                tmp &= group.members", expect="Group.members|union"),
 dict(id="C14-group-compat-no-intersection", property="C14", file=GR, old="        return frozenset(ret & members)", new="        return frozenset(ret | members)", expect="group._get_compatible_units|plain-listing-intersected"),
 dict(id="C14-unknown-group-empty", property="C14", file=GR, old="""        else:
            raise ValueError("Unknown Group with name '%s'" % group)""", new="""        else:
            members = frozenset()""", expect="unknown-group-raises"),
 dict(id="C14-cycle-test-after-link", property="C14", file=GO, old="""            if grp.is_used_group(self.name):
                raise ValueError(
                    "Cyclic relationship found between %s and %s"
                    % (self.name, group_name)
                )

            self._used_groups.add(group_name)
            grp._used_by.add(self.name)""", new="""            self._used_groups.add(group_name)
            grp._used_by.add(self.name)

            if grp.is_used_group(self.name):
                raise ValueError(
                    "Cyclic relationship found between %s and %s"
                    % (self.name, group_name)
                )""", expect="cycle-test-before-mutation"),
 dict(id="C14-used-by-not-updated", property="C14", file=GO, old="            self._used_groups.add(group_name)\n            grp._used_by.add(self.name)\n", new="            self._used_groups.add(group_name)\n", expect="used_groups-and-used_by-updated-together"),
 dict(id="C14-sys-getattr-order", property="C14", file=SO, old="""        u = getattr(self._REGISTRY, self.name + "_" + item, None)
        if u is not None:
            return u
        return getattr(self._REGISTRY, item)""", new="""        u = getattr(self._REGISTRY, item, None)
        if u is not None:
            return u
        return getattr(self._REGISTRY, self.name + "_" + item)""", expect="System.__getattr__|scoped-first"),
 dict(id="C14-default-group-all-units", property="C14", file=GR, old="            grp.add_units(*(all_units - group_units))", new="            grp.add_units(*all_units)", expect="default-group-gets-orphans"),
 dict(id="C14-system-members-stale", property="C14", file=GO, old="            if self.name in system._used_groups:\n                system.invalidate_members()\n", new="            pass\n", expect="memo=System:_computed_members|dep=Group-members"),
 dict(id="C14-none-not-default", property="C14", file=SR, old="        if system is None:\n            system = self._default_system_name\n", new="", expect="none-means-default-system"),
]
MUTANTS += [
 dict(id="C14-bare-rule-not-inverted", property="C14", file=SO, old="                base_unit_names[old_unit] = {new_unit: 1 / value}", new="                base_unit_names[old_unit] = {new_unit: value}", expect="bare-rule-inverted"),
 dict(id="C14-old-new-rule-old-formula", property="C14", file=SO, old="                    other_unit: -value / old_exponent", new="                    other_unit: -1 / value", expect="other-units-exponent-inverted"),
 dict(id="C14-invalidate-iterative-no-systems", property="C14", file=GO, old="""        self._computed_members = None
        d = self._REGISTRY._groups
        for name in self._used_by:
            d[name].invalidate_members()
""", new="""        self._computed_members = None
        d = self._REGISTRY._groups
        pending = set(self._used_by)
        while pending:
            g = d[pending.pop()]
            g._computed_members = None
            pending |= g._used_by
""", expect="dep=used-group-members"),
]
