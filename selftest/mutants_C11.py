CR = "pint/facets/context/registry.py"
CO = "pint/facets/context/objects.py"
U = "pint/util.py"
MUTANTS = [
 dict(id="C11-lifo", property="C11", file=U, old="        node, path = fifo.popleft()", new="        node, path = fifo.pop()", expect="frontier-is-fifo"),
 dict(id="C11-no-early-return", property="C11", file=U, old="""            if adjascent_node == end:
                return path + [adjascent_node]
            else:
                fifo.append((adjascent_node, path + [adjascent_node]))

    return None""", new="""            if adjascent_node == end:
                found = path + [adjascent_node]
            else:
                fifo.append((adjascent_node, path + [adjascent_node]))

    return found""", expect="find_shortest_path|"),
 dict(id="C11-convert-bypass-super", property="C11", file=CR, old="""                value, src = src._magnitude, src._units

        return super()._convert(value, src, dst, inplace)""", new="""                value, src = src._magnitude, src._units
                if src == dst:
                    return value

        return super()._convert(value, src, dst, inplace)""", expect="every-normal-exit-through-super-convert"),
 dict(id="C11-path-reversed", property="C11", file=CR, old="path = find_shortest_path(self._active_ctx.graph, src_dim, dst_dim)", new="path = find_shortest_path(self._active_ctx.graph, dst_dim, src_dim)", expect="path-from-src-dim-to-dst-dim"),
 dict(id="C11-pairs-skip", property="C11", file=CR, old="for a, b in zip(path[:-1], path[1:]):", new="for a, b in zip(path[:-1], path[2:]):", expect="consecutive-pairs-in-path-order"),
 dict(id="C11-maps-not-reversed", property="C11", file=CO, old="self.maps = [ctx.relation_to_context for ctx in reversed(contexts)] + self.maps", new="self.maps = [ctx.relation_to_context for ctx in contexts] + self.maps", expect="contexts-and-maps-prepended-reversed"),
 dict(id="C11-maps-appended", property="C11", file=CO, old="self.contexts = list(reversed(contexts)) + self.contexts", new="self.contexts = self.contexts + list(reversed(contexts))", expect="contexts-and-maps-prepended-reversed"),
 dict(id="C11-graph-stale", property="C11", file=CO, old="        self.maps = [ctx.relation_to_context for ctx in reversed(contexts)] + self.maps\n        self._graph = None", new="        self.maps = [ctx.relation_to_context for ctx in reversed(contexts)] + self.maps", expect="memo=ContextChain:_graph"),
 dict(id="C11-graph-edge-reversed", property="C11", file=CO, old="                self._graph[fr_].add(to_)", new="                self._graph[to_].add(fr_)", expect="ContextChain.graph|edge-direction"),
 dict(id="C11-kwargs-order", property="C11", file=CR, old="            kwargs = dict(self._active_ctx.defaults, **kwargs)", new="            kwargs = dict(kwargs, **self._active_ctx.defaults)", expect="call-kwargs-override-enclosing-defaults"),
 dict(id="C11-transform-no-defaults", property="C11", file=CO, old="        return func(registry, value, **self.defaults)", new="        return func(registry, value)", expect="rule-called-with-context-parameters"),
 dict(id="C11-redefine-base-allowed", property="C11", file=CR, old="""        if basedef.is_base:
            raise ValueError("Can't redefine a plain unit to a derived one")
""", new="", expect="_redefine|base-unit-rejected"),
 dict(id="C11-redefine-dim-change-allowed", property="C11", file=CR, old="        if dims_old != dims_new:\n            raise ValueError(", new="        if False:\n            raise ValueError(", expect="_redefine|dimension-change"),
 dict(id="C11-redefine-dims-wrong", property="C11", file=CR, old="dims_new = self._get_dimensionality(definition.reference)", new="dims_new = self._get_dimensionality(basedef.reference)", expect="_redefine|dims_new"),
 dict(id="C11-reverse-rule-always", property="C11", file=CO, old="                if relation.bidirectional:\n                    ctx.add_transformation(dst, src, relation.transformation)", new="                ctx.add_transformation(dst, src, relation.transformation)", expect="reverse-rule-only-if-bidirectional"),
 dict(id="C11-chain-defaults-oldest", property="C11", file=CO, old="        for ctx in self.values():\n            return ctx.defaults\n        return {}", new="        out = {}\n        for ctx in self.values():\n            out = ctx.defaults\n        return out", expect="ContextChain.defaults"),
 dict(id="C11-benign-temp-in-chain-transform", property="C11", file=CR, kind="benign", old="path = find_shortest_path(self._active_ctx.graph, src_dim, dst_dim)", new="graph = self._active_ctx.graph\n            path = find_shortest_path(graph, src_dim, dst_dim)", expect=""),
]
