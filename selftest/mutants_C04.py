U = "pint/util.py"
PU = "pint/facets/plain/unit.py"
MUTANTS = [
 dict(id="C04-mul-no-hash-reset", property="C04", file=U, old="""            if new._d[key] == 0:
                del new._d[key]

        new._hash = None
        return new

    __rmul__ = __mul__

    def __pow__""", new="""            if new._d[key] == 0:
                del new._d[key]

        return new

    __rmul__ = __mul__

    def __pow__""", expect="UnitsContainer.__mul__|hash-reset"),
 dict(id="C04-add-hash-reset-in-branch", property="C04", file=U, old="""        if newval:
            new._d[key] = newval
        else:
            new._d.pop(key, None)
        new._hash = None
        return new""", new="""        if newval:
            new._d[key] = newval
            new._hash = None
        else:
            new._d.pop(key, None)
        return new""", expect="UnitsContainer.add|hash-reset"),
 dict(id="C04-rename-no-hash-reset", property="C04", file=U, old="        new._d[newkey] = new._d.pop(oldkey)\n        new._hash = None\n", new="        new._d[newkey] = new._d.pop(oldkey)\n", expect="UnitsContainer.rename|hash-reset"),
 dict(id="C04-truediv-keeps-zero", property="C04", file=U, old="""            new._d[key] -= self._normalize_nonfloat_value(value)
            if new._d[key] == 0:
                del new._d[key]
""", new="""            new._d[key] -= self._normalize_nonfloat_value(value)
""", expect="additive-update-removes-zero|UnitsContainer.__truediv__"),
 dict(id="C04-pow-zero-guard-removed", property="C04", file=U, old="""        new = self.copy()
        if isinstance(other, Number) and other == 0:
            # u ** 0 is dimensionless: no zero-exponent entry may survive.
            new._d.clear()
        else:
            for key, value in new._d.items():
                new._d[key] *= other
        new._hash = None""", new="""        new = self.copy()
        for key, value in new._d.items():
            new._d[key] *= other
        new._hash = None""", expect="multiplicative-update-excludes-zero-factor|UnitsContainer.__pow__"),
 dict(id="C04-copy-shares-dict", property="C04", file=U, old="        out._d = self._d.copy()\n", new="        out._d = self._d\n", expect="dict-copied-not-shared"),
 dict(id="C04-add-pop-no-default", property="C04", file=U, old="            new._d.pop(key, None)\n", new="            new._d.pop(key)\n", expect="removal-tolerates-absent-key"),
 dict(id="C04-add-inplace", property="C04", file=U, old="        new = self.copy()\n        if newval:\n            new._d[key] = newval", new="        new = self\n        if newval:\n            new._d[key] = newval", expect="copy-on-write|UnitsContainer.add"),
 dict(id="C04-hash-includes-type", property="C04", file=U, old="            self._hash = hash(frozenset(self._d.items()))", new="            self._hash = hash((self._non_int_type, frozenset(self._d.items())))", expect="hash"),
 dict(id="C04-unit-mul-divides", property="C04", file=PU, old="                return self.__class__(self._units * other._units)", new="                return self.__class__(self._units / other._units)", expect="PlainUnit.__mul__|delegates-to-container-operator"),
 dict(id="C04-operate-no-cleanup", property="C04", file=U, old="    def operate(self, items, op=operator.iadd, cleanup: bool = True):", new="    def operate(self, items, op=operator.iadd, cleanup: bool = False):", expect="ParserHelper.operate|cleanup-default-true"),
 dict(id="C04-pi-floor", property="C04", file=U, old="q[0]: neg * f.numerator * max_den / f.denominator", new="q[0]: neg * f.numerator * max_den // f.denominator", expect="pi_theorem|exact-rational-arithmetic"),
 dict(id="C04-outside-writer", property="C04", file="pint/facets/plain/registry.py", old="            ret = ret.add(cname, value)\n", new="            ret = ret.add(cname, value)\n            ret._d.pop('', None)\n", expect="repr-field-written-outside-owner"),
 dict(id="C04-mul-subtracts", property="C04", file=U, old="        for key, value in other.items():\n            new._d[key] += value\n", new="        for key, value in other.items():\n            new._d[key] -= value\n", expect="UnitsContainer.__mul__|exponent-arithmetic"),
 dict(id="C04-benign-rename-var", property="C04", file=U, kind="benign", old="""        new = self.copy()
        for k in keys:
            new._d.pop(k)
        new._hash = None
        return new""", new="""        out = self.copy()
        out._hash = None
        for k in keys:
            out._d.pop(k)
        out._hash = None
        return out""", expect=""),
]
