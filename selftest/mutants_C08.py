PR = "pint/facets/plain/registry.py"
MUTANTS = [
 dict(id="C08-search-before-exact", property="C08", file=PR, old="""        try:
            return self._units[name_or_alias].name
        except KeyError:
            pass

        candidates = self.parse_unit_name(name_or_alias, case_sensitive)
        if not candidates:
            raise UndefinedUnitError(name_or_alias)
""", new="""        candidates = self.parse_unit_name(name_or_alias, case_sensitive)
        if not candidates:
            try:
                return self._units[name_or_alias].name
            except KeyError:
                pass
            raise UndefinedUnitError(name_or_alias)
""", expect="get_name|exact-lookup-before-prefix-search"),
 dict(id="C08-prefix-offset-allowed", property="C08", file=PR, old="""            if not self._units[unit_name].is_multiplicative:
                raise OffsetUnitCalculusError(
                    "Prefixing a unit requires multiplying the unit."
                )
""", new="", expect="get_name|offset-units-not-prefixed"),
 dict(id="C08-alias-not-indexed", property="C08", file=PR, old="            self._helper_single_adder(alias, unit, self._units, self._units_casei)", new="            self._helper_single_adder(alias, unit, self._units, None)", expect="casei-index|writer=GenericPlainRegistry._add_alias"),
 dict(id="C08-parse-cache-unguarded-write", property="C08", file=PR, old="        if as_delta:\n            cache[input_string] = ret\n", new="        cache[input_string] = ret\n", expect="parse_unit|write-requires-as_delta"),
 dict(id="C08-casei-raw-prefix", property="C08", file=PR, old="""                    ):
                        yield (
                            self._prefixes[prefix].name,""", new="""                    ):
                        yield (
                            prefix,""", expect="_yield_unit_triplets|canonical-prefix-name"),
 dict(id="C08-double-prefix-guard-removed", property="C08", file=PR, old="""                        if prefix and name not in self._units_casei.get(
                            name.lower(), ()
                        ):
                            continue
""", new="", expect="prefix-only-on-defined-spellings"),
 dict(id="C08-getname-casei", property="C08", file=PR, old="            return prefix + unit_name\n\n        return unit_name", new="            self._units_casei[name.lower()].add(name)\n            return prefix + unit_name\n\n        return unit_name", expect="prefixed-units-not-in-casei-index"),
 dict(id="C08-dedup-prefers-unprefixed", property="C08", file=PR, old="                candidates.pop((\"\", cp + cu, \"\"), None)", new="                candidates.pop((cp, cu, \"\"), None)", expect="_dedup_candidates|prefixed-reading-preferred"),
 dict(id="C08-delta-always", property="C08", file=PR, old="            if as_delta and (many or (not many and value != 1)):", new="            if as_delta:", expect="delta-only-if-compound-or-exponent"),
 dict(id="C08-delta-for-multiplicative", property="C08", file=PR, old="                if not definition.is_multiplicative:\n                    cname = \"delta_\" + cname", new="                cname = \"delta_\" + cname", expect="delta-only-if-non-multiplicative"),
 dict(id="C08-symbol-swapped-candidate", property="C08", file=PR, old="        return self._prefixes[prefix].symbol + self._units[unit_name].symbol", new="        return self._prefixes[prefix].symbol + self._units[unit_name].name", expect="get_symbol|prefix-symbol+unit-symbol"),
 dict(id="C08-contains-swallows-all", property="C08", file=PR, old="        except UndefinedUnitError:\n            return False", new="        except Exception:\n            return False", expect="registry.__contains__"),
 dict(id="C08-getattr-no-private-check", property="C08", file=PR, old="        getattr_maybe_raise(self, item)\n\n        # self.Unit will call parse_units", new="        # self.Unit will call parse_units", expect="GenericPlainRegistry.__getattr__|private-names-rejected-first"),
 dict(id="C08-suffix-strip-off-by-one", property="C08", file=PR, old="                    name = name[: -len(suffix)]", new="                    name = name[: -len(suffix) - 1]", expect="strips-prefix-and-suffix"),
 dict(id="C08-adder-pops-wrong-key", property="C08", file=PR, old="        self._cache.parse_unit.pop(key, None)\n", new="        self._cache.parse_unit.pop(value.name, None)\n", expect="memo=Registry:_cache.parse_unit"),
]
