PR = "pint/facets/plain/registry.py"
U = "pint/util.py"
MUTANTS = [
 dict(id="C02-factor-key-swapped", property="C02", file=PR, old="        cache[(src, dst)] = factor\n", new="        cache[(dst, src)] = factor\n", expect="conversion_factor|store-key"),
 dict(id="C02-factor-second-component", property="C02", file=PR, old="factor, _ = self._get_root_units(src / dst)", new="_, factor = self._get_root_units(src / dst)", expect="factor-is-first-component"),
 dict(id="C02-eval-token-float-detour", property="C02", file=U, old="                return non_int_type(token_text)", new="                return non_int_type(float(token_text))", expect="eval_token|"),
 dict(id="C02-int-first-lost", property="C02", file=U, old="""                try:
                    return int(token_text)
                except ValueError:
                    return float(token_text)""", new="""                return float(token_text)""", expect="integers-stay-integers"),
 dict(id="C02-recurse-exp-not-combined", property="C02", file=PR, old="                accumulators[None] *= reg.converter.scale**exp2", new="                accumulators[None] *= reg.converter.scale**exp", expect="scale-raised-to-combined-exponent"),
 dict(id="C02-recurse-passes-exp", property="C02", file=PR, old="                    self._get_root_units_recurse(reg.reference, exp2, accumulators)", new="                    self._get_root_units_recurse(reg.reference, exp, accumulators)", expect="recursion-carries-combined-exponent"),
 dict(id="C02-getname-returns-unit-name", property="C02", file=PR, old="            return prefix + unit_name\n\n        return unit_name", new="            return unit_name\n\n        return unit_name", expect="get_name|"),
 dict(id="C02-getname-reference-squared", property="C02", file=PR, old="                self.UnitsContainer({unit_name: 1}),", new="                self.UnitsContainer({unit_name: 2}),", expect="reference-is-unit^1"),
 dict(id="C02-getname-wrong-prefix-converter", property="C02", file=PR, old="            prefix_def = self._prefixes[prefix]", new="            prefix_def = self._prefixes[\"\"]", expect="get_name|prefix-converter"),
 dict(id="C02-float-in-root-units", property="C02", file=PR, old="        factor = accumulators[None]\n", new="        factor = float(accumulators[None])\n", expect="no-float-on-factor-path"),
 dict(id="C02-convert-inplace-divides", property="C02", file=PR, old="        if inplace:\n            value *= factor\n        else:\n            value = value * factor", new="        if inplace:\n            value /= factor\n        else:\n            value = value * factor", expect="both-forms-multiply-by-factor"),
 dict(id="C02-accumulator-starts-zero", property="C02", file=PR, old="        accumulators[None] = 1\n", new="        accumulators[None] = 0\n", expect="accumulator-starts-at-one"),
 dict(id="C02-disk-cache-dropped", property="C02", file=PR, old="            else:\n                self._cache = cache\n            return\n", new="            return\n", expect="disk_cache|loaded-cache-installed"),
 dict(id="C02-exponent-not-normalised", property="C02", file=U, old="""        if not isinstance(value, int) and not isinstance(value, self._non_int_type):
            return self._non_int_type(value)  # type: ignore[no-any-return]
        return value""", new="""        return value""", expect="_normalize_nonfloat_value"),
]
