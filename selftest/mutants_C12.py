CR = "pint/facets/context/registry.py"
CO = "pint/facets/context/objects.py"
SR = "pint/facets/system/registry.py"
MUTANTS = [
 dict(id="C12-no-rollback", property="C12", file=CR,
      old="""        try:
            self._switch_context_cache_and_units()
        except Exception:
            # A failed activation must change nothing: drop what was just
            # inserted and restore the previous cache and units overlay.
            self._active_ctx.remove_contexts(len(contexts))
            self._switch_context_cache_and_units()
            raise
""", new="        self._switch_context_cache_and_units()\n", expect="enable_contexts|rollback-on-failure"),
 dict(id="C12-rollback-wrong-count", property="C12", file=CR, old="            self._active_ctx.remove_contexts(len(contexts))\n", new="            self._active_ctx.remove_contexts(1)\n", expect="rollback-removes-what-was-inserted"),
 dict(id="C12-rollback-no-restore", property="C12", file=CR, old="            self._active_ctx.remove_contexts(len(contexts))\n            self._switch_context_cache_and_units()\n            raise", new="            self._active_ctx.remove_contexts(len(contexts))\n            raise", expect="rollback-restores-cache-and-overlay"),
 dict(id="C12-rollback-swallows", property="C12", file=CR, old="            self._active_ctx.remove_contexts(len(contexts))\n            self._switch_context_cache_and_units()\n            raise", new="            self._active_ctx.remove_contexts(len(contexts))\n            self._switch_context_cache_and_units()", expect="rollback-reraises"),
 dict(id="C12-context-no-finally", property="C12", file=CR,
      old="""        try:
            # After adding the context and rebuilding the graph, the registry
            # is ready to use.
            yield self
        finally:
            # Upon leaving the with statement,
            # the added contexts are removed from the active one.
            self.disable_contexts(len(names))""",
      new="""        yield self
        self.disable_contexts(len(names))""", expect="context|exceptional-exit-disables"),
 dict(id="C12-context-disable-one", property="C12", file=CR, old="            self.disable_contexts(len(names))", new="            self.disable_contexts(1)", expect="context|disables-as-many-as-enabled"),
 dict(id="C12-context-enable-inside-try", property="C12", file=CR,
      old="""        self.enable_contexts(*names, **kwargs)

        try:
            # After adding""",
      new="""        try:
            self.enable_contexts(*names, **kwargs)
            # After adding""", expect="failed-enable-not-disabled-twice"),
 dict(id="C12-disable-no-switch", property="C12", file=CR, old="        self._active_ctx.remove_contexts(n)\n        self._switch_context_cache_and_units()", new="        self._active_ctx.remove_contexts(n)", expect="disable_contexts|switch-after-remove"),
 dict(id="C12-on-redefinition-not-finally", property="C12", file=CR,
      old="""        try:
            for ctx in reversed(self._active_ctx.contexts):
                for definition in ctx.redefinitions:
                    self._redefine(definition)
        finally:
            self._on_redefinition = on_redefinition_backup""",
      new="""        for ctx in reversed(self._active_ctx.contexts):
            for definition in ctx.redefinitions:
                self._redefine(definition)
        self._on_redefinition = on_redefinition_backup""", expect="on_redefinition-restored"),
 dict(id="C12-redefine-order", property="C12", file=CR, old="            for ctx in reversed(self._active_ctx.contexts):", new="            for ctx in self._active_ctx.contexts:", expect="redefinitions-applied-oldest-first"),
 dict(id="C12-from-context-mutates", property="C12", file=CO, old="            newdef = dict(context.defaults, **defaults)\n", new="            context.defaults.update(defaults)\n            newdef = dict(context.defaults, **defaults)\n", expect="Context.from_context|writes-only-fresh-copy"),
 dict(id="C12-from-context-override-order", property="C12", file=CO, old="            newdef = dict(context.defaults, **defaults)\n", new="            newdef = dict(defaults, **context.defaults)\n", expect="passed-defaults-override-declared"),
 dict(id="C12-with-context-outside", property="C12", file=CR,
      old="""                with self.context(name, **kwargs):
                    return func(*values, **wrapper_kwargs)""",
      new="""                with self.context(name, **kwargs):
                    pass
                return func(*values, **wrapper_kwargs)""", expect="with_context|call-inside-with-context"),
 dict(id="C12-benign-rollback-baseexception", property="C12", file=CR, kind="benign", old="        except Exception:\n            # A failed activation", new="        except BaseException:\n            # A failed activation", expect=""),
]
