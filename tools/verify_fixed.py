#!/usr/bin/env python3
"""verify_fixed.py: for every 'fixed' entry of known_findings.json, reverse the fix commit on a scratch copy of
/repo/pint (git show <commit> -- pint | patch -R) and run the property's check against the copy: it must exit 1 and
report exactly the recorded rule key.  Shows that a repaired defect is reported again if it ever returns."""
import json, os, shutil, subprocess, sys, tempfile
VERIF = os.path.dirname(os.path.dirname(os.path.abspath(__file__)))
kf = json.load(open(os.path.join(VERIF, "known_findings.json")))
bad = 0
for f in kf["findings"]:
    if f["status"] != "fixed":
        continue
    tmp = tempfile.mkdtemp(prefix="vfix-")
    try:
        shutil.copytree("/repo/pint", os.path.join(tmp, "pint"), ignore=shutil.ignore_patterns("testsuite", "__pycache__"))
        diff = subprocess.run(["git", "-C", "/repo", "show", "--format=", f["commit"], "--", "pint", ":!pint/testsuite"], capture_output=True, text=True).stdout
        r = subprocess.run(["patch", "-R", "-p1", "-s", "-f", "-d", tmp], input=diff, capture_output=True, text=True)
        if r.returncode != 0:
            print(f"?? {f['property']} {f['commit']} reverse patch does not apply cleanly: {r.stdout.strip()[:120]}")
            bad += 1
            continue
        env = dict(os.environ, PINT_REPO=tmp, VERIF_EVIDENCE_DIR=os.path.join(tmp, "ev"))
        rr = subprocess.run([os.path.join(VERIF, "check"), f["property"]], capture_output=True, text=True, env=env)
        rule, key = f["key"].split("|", 1)
        named = any(f"[{rule}] {key}" in l for l in rr.stdout.splitlines())
        ok = rr.returncode == 1 and named
        if not ok:
            bad += 1
        print(f"{'ok ' if ok else 'BAD'} {f['property']} {f['commit']} exit={rr.returncode} key={'reported' if named else 'NOT reported'}: {f['key']}")
        if not ok:
            for l in rr.stdout.splitlines():
                if l.startswith("  pint") or "ANALYSIS" in l:
                    print("      ", l[:220])
    finally:
        shutil.rmtree(tmp, ignore_errors=True)
sys.exit(1 if bad else 0)
