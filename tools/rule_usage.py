#!/usr/bin/env python3
"""rule_usage.py <seed-root> [out.json]: which rule instances report which stored seeded change (all packs).
Used to decide which brittle rules are load-bearing."""
import json, os, shutil, subprocess, sys, tempfile
from concurrent.futures import ThreadPoolExecutor
VERIF = os.path.dirname(os.path.dirname(os.path.abspath(__file__)))
root = sys.argv[1]
out = sys.argv[2] if len(sys.argv) > 2 else "/tmp/rule_usage.json"
claimed = sorted(f[:-3] for f in os.listdir(os.path.join(VERIF, "sa", "rules")) if f.startswith("C") and f.endswith(".py"))


def one(name):
    pf = os.path.join(root, name, "patch.diff")
    tmp = tempfile.mkdtemp(prefix="ru-")
    res = {}
    try:
        shutil.copytree("/repo/pint", os.path.join(tmp, "pint"), ignore=shutil.ignore_patterns("testsuite", "__pycache__"))
        if subprocess.run(["patch", "-p1", "-s", "-f", "-d", tmp, "-i", pf], capture_output=True).returncode != 0:
            return name, None
        for c in claimed:
            ev = os.path.join(tmp, "ev")
            env = dict(os.environ, PINT_REPO=tmp, VERIF_EVIDENCE_DIR=ev)
            rr = subprocess.run([os.path.join(VERIF, "check"), c], capture_output=True, text=True, env=env)
            if rr.returncode == 1:
                keys = []
                vd = os.path.join(ev, "violations")
                for f in sorted(os.listdir(vd)) if os.path.isdir(vd) else []:
                    if f.startswith(c + "-"):
                        v = json.load(open(os.path.join(vd, f)))
                        keys.append(f"{v['rule']}|{v['key']}")
                res[c] = sorted(set(keys))
                shutil.rmtree(vd, ignore_errors=True)
            elif rr.returncode == 2:
                res[c] = ["ANALYSIS-ERROR"]
        return name, res
    finally:
        shutil.rmtree(tmp, ignore_errors=True)


names = sorted(n for n in os.listdir(root) if os.path.exists(os.path.join(root, n, "patch.diff")))
R = {}
with ThreadPoolExecutor(max_workers=12) as ex:
    for name, res in ex.map(one, names):
        R[name] = res
json.dump(R, open(out, "w"), indent=1)
print("written", out, len(R))
