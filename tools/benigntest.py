#!/usr/bin/env python3
"""benigntest.py <root>: false-alarm measurement.  <root>/<Cxx>/ref<k>.patch.diff are behaviour-preserving
refactorings written by independent sub-agents.  Each is applied to a scratch copy of /repo/pint (never to /repo) and
EVERY rule pack is run against the copy: exit 0 = silent (good), exit 1 = false alarm (to be read and corrected in the
machinery), exit 2 = analysis no longer applicable to the rewritten construct (documented limit, not a violation)."""
import json, os, shutil, subprocess, sys, tempfile
from concurrent.futures import ThreadPoolExecutor
VERIF = os.path.dirname(os.path.dirname(os.path.abspath(__file__)))
root = sys.argv[1]
only = [a for a in sys.argv[2:] if not a.startswith("--")]
json_out = next((a[7:] for a in sys.argv[2:] if a.startswith("--json=")), None)
claimed = sorted(f[:-3] for f in os.listdir(os.path.join(VERIF, "sa", "rules")) if f.startswith("C") and f.endswith(".py"))


def items():
    for name in sorted(os.listdir(root)):
        d = os.path.join(root, name)
        if not os.path.isdir(d):
            continue
        if os.path.exists(os.path.join(d, "patch.diff")):
            yield name, os.path.join(d, "patch.diff"), os.path.join(d, "meta.json")
        else:
            for k in range(1, 10):
                pf = os.path.join(d, f"ref{k}.patch.diff")
                if os.path.exists(pf):
                    yield f"{name}-{k}", pf, os.path.join(d, f"ref{k}_meta.json")


def one(it):
    rid, pf, mf = it
    tmp = tempfile.mkdtemp(prefix="benign-")
    try:
        shutil.copytree("/repo/pint", os.path.join(tmp, "pint"), ignore=shutil.ignore_patterns("testsuite", "__pycache__"))
        r = subprocess.run(["patch", "-p1", "-s", "-f", "-d", tmp, "-i", pf], capture_output=True, text=True)
        if r.returncode != 0:
            return rid, {"status": "patch-does-not-apply"}, [f"{rid}: PATCH DOES NOT APPLY"]
        alarms, inapplicable = [], []
        for c in claimed:
            env = dict(os.environ, PINT_REPO=tmp, VERIF_EVIDENCE_DIR=os.path.join(tmp, "ev"))
            rr = subprocess.run([os.path.join(VERIF, "check"), c], capture_output=True, text=True, env=env)
            if rr.returncode == 1:
                alarms.append((c, [l.strip() for l in rr.stdout.splitlines() if l.startswith("  pint")][:3]))
            elif rr.returncode == 2:
                inapplicable.append((c, (rr.stdout.strip().splitlines() or ["?"])[-1][:200]))
        meta = {}
        try:
            meta = json.load(open(mf))
        except Exception:
            pass
        status = "FALSE-ALARM" if alarms else ("inapplicable" if inapplicable else "silent")
        out = [f"{rid}: {status}  [{meta.get('function', meta.get('construct', '?'))}] {meta.get('summary', '')[:100]}"]
        for c, ls in alarms:
            for l in ls:
                out.append(f"      {c}: {l[:230]}")
        for c, l in inapplicable:
            out.append(f"      {c}: {l}")
        return rid, {"status": status, "alarms": [{"check": c, "reports": ls} for c, ls in alarms], "inapplicable": [{"check": c, "why": l} for c, l in inapplicable]}, out
    finally:
        shutil.rmtree(tmp, ignore_errors=True)


RES = {}
its = [it for it in items() if not only or it[0].split("-")[0] in only]
with ThreadPoolExecutor(max_workers=int(os.environ.get("SEEDTEST_JOBS", "12"))) as ex:
    for rid, res, out in ex.map(one, its):
        RES[rid] = res
        for l in out:
            print(l)
if json_out:
    json.dump(RES, open(json_out, "w"), indent=1)
n = {}
for v in RES.values():
    n[v["status"]] = n.get(v["status"], 0) + 1
print("summary:", n)
