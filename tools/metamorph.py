#!/usr/bin/env python3
"""metamorph.py [--keep] [--only T1,T2] [--checks C01,C02] [--files a.py,b.py]

Mechanical false-alarm measurement.  Each transformation below rewrites EVERY function of a scratch copy of
/repo/pint in a way that preserves behaviour by construction (no judgement involved, unlike the sub-agent
refactorings).  All rule packs are then run against the copy; any exit 1 is a false alarm of the machinery, any exit 2
an anchor the machinery can no longer recognise.  Nothing here executes pint.

  T0 unparse        ast.unparse round trip (layout, parentheses, quotes, comments dropped)
  T1 rename-locals  every plain local variable x (not a parameter, not shared with a nested scope, not global /
                    nonlocal) becomes x_rn
  T2 flip-if        `if c: A else: B`  ->  `if not c: B else: A`      (no elif chains)
  T3 unelse         `if c: ...return/raise/continue/break  else: B`  ->  `if c: ...` followed by B
  T4 reelse         `if c: ...return/raise/continue/break` followed by REST  ->  `if c: ... else: REST`
  T6 split-and      `if a and b: X` (no else)  ->  `if a: if b: X`
  T7 de-morgan      `not (a and b)` <-> `not a or not b` (and the dual) in if/while tests
  T8 rename-nested  nested functions and closure-shared locals renamed (x -> x_nn)
  T5 hoist-args     the arguments of a call used as an expression statement / assigned value / returned value that
                    are themselves calls are NOT hoisted (evaluation order); instead every `return <expr>` whose
                    expression is not a name or constant becomes `ret_tmp = <expr>; return ret_tmp`
"""
from __future__ import annotations

import ast
import os
import shutil
import subprocess
import sys
import tempfile
from concurrent.futures import ThreadPoolExecutor

VERIF = os.path.dirname(os.path.dirname(os.path.abspath(__file__)))
REPO = os.environ.get("PINT_REPO", "/repo")
SCOPES = (ast.FunctionDef, ast.AsyncFunctionDef, ast.Lambda, ast.ClassDef, ast.ListComp, ast.SetComp, ast.DictComp, ast.GeneratorExp)


def own_nodes(fn):
    """nodes of fn's own scope (nested scopes excluded, but yielded themselves as leaves)"""
    stack = list(ast.iter_child_nodes(fn))
    while stack:
        n = stack.pop()
        yield n
        if not isinstance(n, SCOPES):
            stack.extend(ast.iter_child_nodes(n))


def terminates(stmts):
    if not stmts:
        return False
    last = stmts[-1]
    if isinstance(last, (ast.Return, ast.Raise, ast.Continue, ast.Break)):
        return True
    if isinstance(last, ast.If):
        return terminates(last.body) and terminates(last.orelse)
    return False


# ------------------------------------------------------------------ T1
def rename_locals(tree):
    all_ids = {n.id for n in ast.walk(tree) if isinstance(n, ast.Name)} | {a.arg for n in ast.walk(tree) if isinstance(n, ast.arguments) for a in n.args + n.kwonlyargs + n.posonlyargs}
    count = 0
    for fn in [n for n in ast.walk(tree) if isinstance(n, (ast.FunctionDef, ast.AsyncFunctionDef))]:
        a = fn.args
        params = {x.arg for x in a.args + a.kwonlyargs + a.posonlyargs} | ({a.vararg.arg} if a.vararg else set()) | ({a.kwarg.arg} if a.kwarg else set())
        own = list(own_nodes(fn))
        if any(isinstance(n, ast.Call) and isinstance(n.func, ast.Name) and n.func.id in ("locals", "vars", "eval", "exec", "dir") for n in ast.walk(fn)):
            continue
        declared = {x for n in own if isinstance(n, (ast.Global, ast.Nonlocal)) for x in n.names}
        nested = set()
        for n in own:
            if isinstance(n, SCOPES):
                for x in ast.walk(n):
                    if isinstance(x, ast.Name):
                        nested.add(x.id)
                    elif isinstance(x, (ast.Global, ast.Nonlocal)):
                        nested.update(x.names)
                if isinstance(n, (ast.FunctionDef, ast.AsyncFunctionDef, ast.ClassDef)):
                    nested.add(n.name)
        imported = {(al.asname or al.name).split(".")[0] for n in own if isinstance(n, (ast.Import, ast.ImportFrom)) for al in n.names}
        stored = {n.id for n in own if isinstance(n, ast.Name) and isinstance(n.ctx, (ast.Store, ast.Del))}
        stored |= {n.name for n in own if isinstance(n, ast.ExceptHandler) and n.name}
        # pattern-matching captures and walrus targets are Name stores as well; keep it simple: skip functions using match
        if any(isinstance(n, ast.Match) for n in own):
            continue
        cand = {x for x in stored if x not in params and x not in declared and x not in nested and x not in imported and not x.startswith("__") and x != "_"}
        mapping = {}
        for x in sorted(cand):
            new = x + "_rn"
            while new in all_ids:
                new += "n"
            mapping[x] = new
        for n in own:
            if isinstance(n, ast.Name) and n.id in mapping:
                n.id = mapping[n.id]
                count += 1
            elif isinstance(n, ast.ExceptHandler) and n.name in mapping:
                n.name = mapping[n.name]
    return count


# ------------------------------------------------------------------ T2
def flip_if(tree):
    count = 0
    for n in ast.walk(tree):
        if isinstance(n, ast.If) and n.orelse and not (len(n.orelse) == 1 and isinstance(n.orelse[0], ast.If)) and not getattr(n, "_is_elif", False):
            # do not flip an `elif` link itself (keeps the chain readable); mark children
            t = n.test
            n.test = t.operand if isinstance(t, ast.UnaryOp) and isinstance(t.op, ast.Not) else ast.UnaryOp(op=ast.Not(), operand=t)
            n.body, n.orelse = n.orelse, n.body
            count += 1
    return count


# ------------------------------------------------------------------ T3 / T4
def _lists(tree):
    for n in ast.walk(tree):
        for fld in ("body", "orelse", "finalbody"):
            lst = getattr(n, fld, None)
            if isinstance(lst, list) and lst and isinstance(lst[0], ast.stmt):
                yield n, fld, lst
        if isinstance(n, ast.Try):
            for h in n.handlers:
                pass  # handlers' bodies are reached through ast.walk (ExceptHandler has .body)


def unelse(tree):
    count = 0
    changed = True
    while changed:
        changed = False
        for n, fld, lst in list(_lists(tree)):
            for i, st in enumerate(lst):
                if isinstance(st, ast.If) and st.orelse and terminates(st.body):
                    rest, st.orelse = st.orelse, []
                    lst[i + 1:i + 1] = rest
                    count += 1
                    changed = True
                    break
            if changed:
                break       # the captured statement lists are stale now: rescan
    return count


def reelse(tree):
    count = 0
    changed = True
    while changed:
        changed = False
        for n, fld, lst in list(_lists(tree)):
            if isinstance(n, (ast.Module, ast.ClassDef)):
                continue
            for i, st in enumerate(lst):
                if isinstance(st, ast.If) and not st.orelse and terminates(st.body) and i + 1 < len(lst):
                    st.orelse = lst[i + 1:]
                    del lst[i + 1:]
                    count += 1
                    changed = True
                    break
            if changed:
                break
    return count


# ------------------------------------------------------------------ T5
def hoist_returns(tree):
    count = 0
    for fn in [n for n in ast.walk(tree) if isinstance(n, (ast.FunctionDef, ast.AsyncFunctionDef))]:
        names = {x.id for x in ast.walk(fn) if isinstance(x, ast.Name)} | {a.arg for a in ast.walk(fn) if isinstance(a, ast.arg)}
        tmp = "ret_" + fn.name.strip("_")
        while tmp in names:
            tmp += "_"
        for n in [fn] + [x for x in own_nodes(fn) if not isinstance(x, SCOPES)]:
            for fld in ("body", "orelse", "finalbody"):
                lst = getattr(n, fld, None)
                if not (isinstance(lst, list) and lst and isinstance(lst[0], ast.stmt)):
                    continue
                new = []
                for st in lst:
                    if isinstance(st, ast.Return) and st.value is not None and not isinstance(st.value, (ast.Name, ast.Constant)):
                        new.append(ast.Assign(targets=[ast.Name(id=tmp, ctx=ast.Store())], value=st.value, lineno=st.lineno))
                        new.append(ast.Return(value=ast.Name(id=tmp, ctx=ast.Load())))
                        count += 1
                    else:
                        new.append(st)
                setattr(n, fld, new)
    return count


# ------------------------------------------------------------------ T6 / T7
def split_and(tree):
    """`if a and b: X` (no else)  ->  `if a: if b: X`   (same evaluation order and short-circuit)"""
    count = 0
    for n in ast.walk(tree):
        if isinstance(n, ast.If) and not n.orelse and isinstance(n.test, ast.BoolOp) and isinstance(n.test.op, ast.And) and not getattr(n, "_made", False):
            first, rest = n.test.values[0], n.test.values[1:]
            inner = ast.If(test=rest[0] if len(rest) == 1 else ast.BoolOp(op=ast.And(), values=rest), body=n.body, orelse=[])
            inner._made = True
            n.test, n.body = first, [inner]
            count += 1
    return count


def demorgan(tree):
    """`not (a and b)` <-> `not a or not b`, `not (a or b)` <-> `not a and not b` in if/while tests; `x not in y` /
    `x is not y` / `x != y` are left alone (negating them is not always an identity for user types)."""
    count = 0

    def neg(e):
        return e.operand if isinstance(e, ast.UnaryOp) and isinstance(e.op, ast.Not) else ast.UnaryOp(op=ast.Not(), operand=e)
    for n in ast.walk(tree):
        if isinstance(n, (ast.If, ast.While)):
            t = n.test
            if isinstance(t, ast.UnaryOp) and isinstance(t.op, ast.Not) and isinstance(t.operand, ast.BoolOp):
                b = t.operand
                n.test = ast.BoolOp(op=ast.Or() if isinstance(b.op, ast.And) else ast.And(), values=[neg(v) for v in b.values])
                count += 1
            elif isinstance(t, ast.BoolOp) and all(isinstance(v, ast.UnaryOp) and isinstance(v.op, ast.Not) for v in t.values):
                n.test = ast.UnaryOp(op=ast.Not(), operand=ast.BoolOp(op=ast.Or() if isinstance(t.op, ast.And) else ast.And(), values=[v.operand for v in t.values]))
                count += 1
    return count


# ------------------------------------------------------------------ T8
def rename_nested(tree):
    """Every function defined inside another function (not methods, not module-level functions) and every local that is
    shared with such a nested scope through a closure is renamed (x -> x_nn), consistently in the defining scope and
    in all nested scopes that read it; names declared nonlocal/global, parameters and anything referenced through a
    string are left alone."""
    all_ids = {n.id for n in ast.walk(tree) if isinstance(n, ast.Name)}
    count = 0
    FN = (ast.FunctionDef, ast.AsyncFunctionDef)
    for outer in [n for n in ast.walk(tree) if isinstance(n, FN)]:
        own = list(own_nodes(outer))
        if any(isinstance(n, ast.Call) and isinstance(n.func, ast.Name) and n.func.id in ("locals", "vars", "eval", "exec") for n in ast.walk(outer)):
            continue
        a = outer.args
        params = {x.arg for x in a.args + a.kwonlyargs + a.posonlyargs} | ({a.vararg.arg} if a.vararg else set()) | ({a.kwarg.arg} if a.kwarg else set())
        nested_defs = [n for n in own if isinstance(n, FN)]
        if not nested_defs:
            continue
        declared = {x for n in ast.walk(outer) if isinstance(n, (ast.Global, ast.Nonlocal)) for x in n.names}
        stored = {n.id for n in own if isinstance(n, ast.Name) and isinstance(n.ctx, (ast.Store, ast.Del))} | {n.name for n in nested_defs}
        used_in_nested = set()
        for nd in [n for n in own if isinstance(n, SCOPES)]:
            for x in ast.walk(nd):
                if isinstance(x, ast.Name):
                    used_in_nested.add(x.id)
        cand = {x for x in stored if (x in used_in_nested or x in {n.name for n in nested_defs}) and x not in params and x not in declared and not x.startswith("__")}
        strings = {c.value for c in ast.walk(tree) if isinstance(c, ast.Constant) and isinstance(c.value, str)}
        cand = {x for x in cand if x not in strings}
        # a nested scope that binds the same name itself (its own local / parameter) shadows it: skip such names
        for nd in [n for n in ast.walk(outer) if isinstance(n, SCOPES) and n is not outer]:
            if isinstance(nd, FN + (ast.Lambda,)):
                aa = nd.args
                shadow = {x.arg for x in aa.args + aa.kwonlyargs + aa.posonlyargs} | ({aa.vararg.arg} if aa.vararg else set()) | ({aa.kwarg.arg} if aa.kwarg else set())
                shadow |= {x.id for x in own_nodes(nd) if isinstance(x, ast.Name) and isinstance(x.ctx, (ast.Store, ast.Del))} if isinstance(nd, FN) else set()
                cand -= shadow
            elif isinstance(nd, (ast.ListComp, ast.SetComp, ast.DictComp, ast.GeneratorExp)):
                for g in nd.generators:
                    cand -= {x.id for x in ast.walk(g.target) if isinstance(x, ast.Name)}
            elif isinstance(nd, ast.ClassDef):
                cand -= {x.id for x in ast.walk(nd) if isinstance(x, ast.Name) and isinstance(x.ctx, ast.Store)}
        mapping = {}
        for x in sorted(cand):
            new = x + "_nn"
            while new in all_ids:
                new += "n"
            mapping[x] = new
        if not mapping:
            continue
        for n in ast.walk(outer):
            if isinstance(n, ast.Name) and n.id in mapping:
                n.id = mapping[n.id]
                count += 1
            elif isinstance(n, FN) and n is not outer and n.name in mapping:
                n.name = mapping[n.name]
                count += 1
    return count


TRANSFORMS = {
    "T0": ("unparse", lambda t: 1),
    "T1": ("rename-locals", rename_locals),
    "T2": ("flip-if", flip_if),
    "T3": ("unelse", unelse),
    "T4": ("reelse", reelse),
    "T5": ("hoist-returns", hoist_returns),
    "T6": ("split-and", split_and),
    "T7": ("de-morgan", demorgan),
    "T8": ("rename-nested", rename_nested),
}


def build_variant(tid, dest, files=None):
    shutil.copytree(os.path.join(REPO, "pint"), os.path.join(dest, "pint"), ignore=shutil.ignore_patterns("testsuite", "__pycache__"))
    total = 0
    for dp, dn, fns in os.walk(os.path.join(dest, "pint")):
        for f in fns:
            if not f.endswith(".py"):
                continue
            p = os.path.join(dp, f)
            rel = os.path.relpath(p, dest)
            if files and rel not in files:
                continue
            src = open(p, encoding="utf-8").read()
            tree = ast.parse(src)
            n = TRANSFORMS[tid][1](tree)
            if n:
                ast.fix_missing_locations(tree)
                out = ast.unparse(tree) + "\n"
                compile(out, p, "exec")
                open(p, "w", encoding="utf-8").write(out)
                total += n
    return total


def main(argv):
    keep = "--keep" in argv
    only = next((a.split("=", 1)[1].split(",") for a in argv if a.startswith("--only=")), list(TRANSFORMS))
    files = next((set(a.split("=", 1)[1].split(",")) for a in argv if a.startswith("--files=")), None)
    claimed = sorted(f[:-3] for f in os.listdir(os.path.join(VERIF, "sa", "rules")) if f.startswith("C") and f.endswith(".py"))
    checks = next((a.split("=", 1)[1].split(",") for a in argv if a.startswith("--checks=")), claimed)
    bad = 0
    for tid in only:
        tmp = tempfile.mkdtemp(prefix=f"meta-{tid}-")
        try:
            n = build_variant(tid, tmp, files)

            def run(c):
                env = dict(os.environ, PINT_REPO=tmp, VERIF_EVIDENCE_DIR=os.path.join(tmp, "ev"))
                rr = subprocess.run([os.path.join(VERIF, "check"), c], capture_output=True, text=True, env=env)
                return c, rr.returncode, rr.stdout
            with ThreadPoolExecutor(max_workers=int(os.environ.get("SEEDTEST_JOBS", "12"))) as ex:
                res = list(ex.map(run, checks))
            alarms = [(c, rc, out) for c, rc, out in res if rc != 0]
            print(f"{tid} {TRANSFORMS[tid][0]}: {n} rewrites; {len(res) - len(alarms)}/{len(res)} packs silent" + (f"  (kept in {tmp})" if keep else ""))
            for c, rc, out in alarms:
                bad += 1
                ls = [l.strip() for l in out.splitlines() if l.startswith("  pint") or "ANALYSIS-ERROR" in l]
                print(f"   {c}: exit {rc}  ({len(ls)} reports)")
                for l in ls[:40]:
                    print(f"      {l[:260]}")
        finally:
            if not keep:
                shutil.rmtree(tmp, ignore_errors=True)
    return 1 if bad else 0


if __name__ == "__main__":
    sys.exit(main(sys.argv[1:]))
