#!/usr/bin/env python3
"""benignquick.py --checks=C03,C05 --touching=facets/plain/quantity.py[,numpy_func.py]

Fast false-alarm regression after editing a rule: runs only the named packs against the stored refactorings
(/verif/benign/*/patch.diff) whose patch touches one of the named files, each applied to a scratch copy of /repo/pint
(removed afterwards).  Prints every pack that is not silent (exit 1 = false alarm, 2 = anchor not recognised).
The full measurement is tools/benigntest.py (all packs, all 270 refactorings, ~25 min)."""
import os, shutil, subprocess, sys, tempfile
from concurrent.futures import ThreadPoolExecutor
V = os.path.dirname(os.path.dirname(os.path.abspath(__file__)))
checks = next((a.split("=", 1)[1].split(",") for a in sys.argv[1:] if a.startswith("--checks=")), None)
touching = next((a.split("=", 1)[1].split(",") for a in sys.argv[1:] if a.startswith("--touching=")), [""])
if not checks:
    sys.exit(__doc__)
items = []
for name in sorted(os.listdir(os.path.join(V, "benign"))):
    pf = os.path.join(V, "benign", name, "patch.diff")
    if os.path.exists(pf) and any(t in open(pf).read() for t in touching):
        items.append((name, pf))


def one(it):
    name, pf = it
    tmp = tempfile.mkdtemp(prefix="bq-")
    try:
        shutil.copytree("/repo/pint", tmp + "/pint", ignore=shutil.ignore_patterns("testsuite", "__pycache__"))
        if subprocess.run(["patch", "-p1", "-s", "-f", "-d", tmp, "-i", pf], capture_output=True).returncode:
            return name, [("patch", "does not apply", [])]
        out = []
        for c in checks:
            rr = subprocess.run([os.path.join(V, "check"), c], capture_output=True, text=True, env=dict(os.environ, PINT_REPO=tmp, VERIF_EVIDENCE_DIR=tmp + "/ev"))
            if rr.returncode:
                out.append((c, rr.returncode, [l.strip() for l in rr.stdout.splitlines() if "] " in l and l.startswith("  pint")][:2]))
        return name, out
    finally:
        shutil.rmtree(tmp, ignore_errors=True)


bad = 0
with ThreadPoolExecutor(int(os.environ.get("BQ_JOBS", "14"))) as ex:
    for name, out in ex.map(one, items):
        if out:
            bad += 1
            print(name, out)
print(f"benignquick: {len(items)} refactorings x {len(checks)} packs, {bad} not silent")
sys.exit(1 if bad else 0)
