#!/usr/bin/env python3
"""Regenerate /verif/MANIFEST.json from the per-property table below.
A property is listed under `checks` iff /verif/sa/rules/<ID>.py exists and has an entry
in CLAIMS; otherwise it is listed under not_applicable with the reason given here."""
import json
import os

VERIF = os.path.dirname(os.path.dirname(os.path.abspath(__file__)))

CLAIMS = {
 "C01": dict(
  technique="static analysis: CFG dominance (must-pass-through) of the dimensionality gate on every conversion path, def-use provenance of predicate verdicts, memo key/fill agreement (ast-based, repository-specific)",
  text="Decides, for every path of the anchored functions in /repo's current source, the structural clauses that are necessary for C01: (a) every factor computation, cache store and factor use in _get_conversion_factor/_convert is dominated by the comparison of the two dimensionalities and the mismatch edge only leads to a DimensionalityError; the facet _convert overrides reach every normal exit through super()._convert; (b) the compatibility predicates (Quantity/Unit.is_compatible_with, Quantity.check, registry_helpers.check, compatible-unit listing) derive their verdict from == on _get_dimensionality values (or from to() raising DimensionalityError when contexts are involved); (c) the dimensionality memo is stored under the key it is looked up with and cannot keep '[]' or zero exponents. It does not decide that _get_dimensionality_recurse computes the right exponents nor any concrete unit pair - that needs execution.",
  note="Trusted: CPython ast; /verif/sa resolver (MRO verified equal to runtime __mro__ at build time), CFG construction (exception edges from calls/raise/assert/yield; implicit exceptions such as KeyError from subscripts are not modelled). Unknown verdict shapes give exit 2 (ANALYSIS-ERROR), never a violation.",
  ref="DESIGN.md §4 C01"),
}

REASONS_PENDING = "rule pack under construction (see DESIGN.md §4); not claimed yet"

NOT_APPLICABLE = {}


def main():
    props = [json.loads(l) for l in open(os.path.join(VERIF, "properties.jsonl"))]
    checks, na = [], []
    for p in props:
        pid = p["id"]
        has_pack = os.path.exists(os.path.join(VERIF, "sa", "rules", f"{pid}.py"))
        if pid in CLAIMS and has_pack:
            c = CLAIMS[pid]
            checks.append({
                "property_id": pid,
                "quick_cmd": f"./check {pid} --tier quick",
                "thorough_cmd": f"./check {pid} --tier thorough",
                "evidence_file": f"/verif/evidence/{pid}.json",
                "replay_cmd_template": f"./check {pid} --replay {{path}}",
                "engine": "sa",
                "level_claimed": {"category": "other", "text": c["text"], "design_ref": c["ref"]},
                "level_note": c["note"],
                "technique": c["technique"],
            })
        else:
            na.append({"property_id": pid, "reason": NOT_APPLICABLE.get(pid, REASONS_PENDING)})
    man = {
        "version": 1,
        "setup_cmd": "python3 -c \"import compileall,sys; sys.exit(0 if compileall.compile_dir('/verif/sa', quiet=1) else 1)\"",
        "hooks": {
            "guard": "HGRECCO_PINT_VERIF",
            "enable": "not used: static analysis reads the sources of /repo and needs no instrumentation; there are no hook commits",
            "baseline_off_cmd": "cd /repo && /venv/bin/python -m pytest -ra -q -p no:cacheprovider --timeout=900 --continue-on-collection-errors",
            "source_commits": [],
            "add_only": True,
        },
        "engines": [{
            "name": "sa", "path": "/verif/sa", "serves_properties": [c["property_id"] for c in checks],
            "kind_free_text": "repository-specific static analysis over the Python AST of /repo/pint: source index, C3 MRO, call resolution, statement CFG with exception edges and path queries, def-use provenance, effect/write summaries, table extraction, independent definition-file reader. Nothing under /repo is imported or executed.",
        }],
        "checks": checks,
        "notes": "Static analysis only (see DESIGN.md). exit 0 = all obligations discharged (KNOWN-FINDING lines for triaged genuine defects in known_findings.json); exit 1 = VIOLATION; exit 2 = ANALYSIS-ERROR (anchor vanished / construct outside the modelled fragment), never reported as a violation. Thorough tier additionally runs the mutation self-test of the rules (selftest/run.py) and records it in evidence.",
        "not_applicable": na,
    }
    with open(os.path.join(VERIF, "MANIFEST.json"), "w") as fh:
        json.dump(man, fh, indent=1, ensure_ascii=False)
    print(f"MANIFEST: {len(checks)} checks, {len(na)} not_applicable")


if __name__ == "__main__":
    main()
