#!/usr/bin/env python3
"""Regenerate /verif/MANIFEST.json from the per-property table below.
A property is listed under `checks` iff /verif/sa/rules/<ID>.py exists and has an entry
in CLAIMS; otherwise it is listed under not_applicable with the reason given here."""
import json
import os

VERIF = os.path.dirname(os.path.dirname(os.path.abspath(__file__)))

CLAIMS = {
 "C01": dict(
  technique="static analysis: CFG dominance (must-pass-through) of the dimensionality gate on every conversion path, def-use provenance of predicate verdicts, memo key/fill agreement (ast-based, repository-specific)",
  text="Decides, for every path of the anchored functions in /repo's current source, the structural clauses that are necessary for C01: (a) every factor computation, cache store and factor use in _get_conversion_factor/_convert is dominated by the comparison of the two dimensionalities and the mismatch edge only leads to a DimensionalityError; the facet _convert overrides reach every normal exit through super()._convert; (b) the compatibility predicates (Quantity/Unit.is_compatible_with, Quantity.check, registry_helpers.check, compatible-unit listing) derive their verdict from == on _get_dimensionality values (or from to() raising DimensionalityError when contexts are involved); (c) the dimensionality memo is stored under the key it is looked up with and cannot keep '[]' or zero exponents. It does not decide that _get_dimensionality_recurse computes the right exponents nor any concrete unit pair - that needs execution.",
  note="Trusted: CPython ast; /verif/sa resolver (MRO verified equal to runtime __mro__ at build time), CFG construction (exception edges from calls/raise/assert/yield; implicit exceptions such as KeyError from subscripts are not modelled). Unknown verdict shapes give exit 2 (ANALYSIS-ERROR), never a violation.",
  ref="DESIGN.md §4 C01"),
 "C12": dict(
  technique="static analysis: acquire/release pairing on the CFG with exception edges (G-PAIR), must-pass-through, may-raise summaries over resolved callees, who-may-write (ast-based, repository-specific)",
  text="Decides, for every normal and exceptional path of the anchored functions, the structural clauses necessary for C12: after ContextChain.insert_contexts in enable_contexts every exceptional exit passes remove_contexts(len(<the inserted tuple>)), a second cache/overlay switch and a re-raise; context() yields inside try/finally whose finally disables len(names) contexts and keeps enable_contexts outside the try; with_context calls the function inside `with self.context(...)`; disable_contexts = remove(n) then switch; _switch_context_cache_and_units drops the overlay maps on every path, installs the cache of the active combination, layers overlays on the base cache keyed by ContextChain.hashable() (which must cover name, aliases, funcs, defaults, redefinitions), applies redefinitions oldest-first into an overlay map with the overlay cache installed and restores _on_redefinition in a finally; the base-units memo is validated against the switched cache; Context.from_context writes only the fresh copy and lets passed defaults override declared ones. It does not decide equality of the registry's observable answers before/after a sequence of operations (a history property that needs execution).",
  note="Trusted: CPython ast; CFG exception edges are generated for statements containing a call/raise/assert/yield (implicit exceptions from subscripts/attribute access are not modelled); may-raise summaries follow explicit raise statements through resolved callees only.",
  ref="DESIGN.md §4 C12"),
 "C13": dict(
  technique="static analysis: memo-site discovery by idiom plus key/guard/hit/invalidation rules (G-MEMO) over CFG paths and write summaries; who-may-write inventory of process-wide tables (ast-based, repository-specific)",
  text="Decides the structural clauses necessary for cache transparency, for every memo site of the registry and its objects and every post-construction writer of their dependencies: KEY (lookup key == store key == compute argument; conversion_factor orientation src/dst; overlays keyed by ContextChain.hashable() covering all Context fields), GUARD (write guard equals read guard for parse_unit/as_delta and _base_units_cache/check_nonmult+default system), HIT (a cache loaded from disk is installed; miss paths return what they store; save after build), INV (default_system setter resets on every path; the context switch swaps self._cache and drops overlays on every path; identity-validated memos _base_units_cache vs self._cache and Quantity._dimensionality vs self._units are validated before every read and reset on the stale edge; Group/System membership writers call invalidate_members which propagates to parents and systems; ContextChain._graph reset by every editor of maps/contexts; adders drop the cached parse of the spelling they store; writers of the process-wide format table clear the lru_cached _split_format; Unit._units only written in __init__), FILL (dimensional_equivalents: reported as KNOWN-FINDING, see known_findings.json), and the writer inventory of module-level mutable tables. It does not compare any answer with that of a fresh registry - that needs execution.",
  note="Trusted: CPython ast; /verif/sa CFG and write summaries (mutating-method list in sa/flow.py). Memo idioms outside the recognised set are listed in evidence as untriaged, not proved. The lazily registered prefixed units in _units are covered by C08.",
  ref="DESIGN.md §4 C13, Appendix B"),
 "C11": dict(
  technique="static analysis: typestate of the search frontier, CFG must-pass-through, def-use provenance of arguments and override order (ast-based, repository-specific)",
  text="Decides the structural clauses necessary for C11 on /repo's current source: util.find_shortest_path uses its deque strictly first-in first-out, returns at first discovery of the target with path + [node], answers start == end with the trivial path and an unreachable target with None (breadth-first, hence shortest); ContextRegistry._convert searches the active graph from dim(src) to dim(dst), applies transform(a, b, self, value) over consecutive pairs of the path in order and reaches every normal exit through super()._convert; the chain keeps contexts and maps prepended in reversed order and truncated alike, resets _graph in every editor, builds edges src->dst, looks rules up through the ChainMap and calls them with the context's defaults; call kwargs override enclosing defaults which override declared defaults; Relation.transformation evaluates the equation with value and parameters; reverse rules only for <->; _redefine rejects unknown, prefixed and base units and dimension changes before define. It does not evaluate rule equations or numeric results.",
  note="Trusted: CPython ast; /verif/sa CFG. Another correct search idiom (e.g. Dijkstra with a heap) would be reported as ANALYSIS-ERROR/violation of the FIFO typestate and would need the rule extended.",
  ref="DESIGN.md §4 C11"),
 "C14": dict(
  technique="static analysis: G-MEMO guard/invalidation rules, def-use provenance of set algebra and unit substitution, sibling agreement of to/ito twins (ast-based, repository-specific)",
  text="Decides the structural clauses necessary for C14: _base_units_cache is written under exactly the conditions it is read under, reset by the default_system setter on every path and validated against the switched registry cache; every Group/System membership writer invalidates the memoised members, invalidation propagates to parent groups and to systems, _used_groups/_used_by are updated together and the cycle test precedes linking; members = own units ∪ transitively used groups, system members = union over its groups; restricted compatible-unit listings are the plain listing ∩ members and unknown names raise; the default group receives root members minus all other groups' members; _get_base_units keeps exponents when substituting, converts the factor from root units to the substituted units, looks the system up without creating it and treats None as the default system; to_base_units/ito_base_units (and the root twins) take their target from the same registry function; System.__getattr__ tries <system>_<name> first. It does not decide the rule inversion arithmetic in System.from_definition, value preservation or idempotence.",
  note="Trusted: CPython ast; /verif/sa CFG and write summaries.",
  ref="DESIGN.md §4 C14"),
}

NOTE = ("Trusted: CPython ast; /verif/sa source index and resolver (C3 MRO verified equal to runtime __mro__ at build time), statement CFG "
        "(exception edges from call/raise/assert/yield statements and from every statement inside a try body that has handlers; other implicit "
        "exceptions are not modelled), flow-insensitive def-use, write summaries (mutating-method list in sa/flow.py). A construct outside the "
        "modelled fragment or a vanished anchor gives exit 2 (ANALYSIS-ERROR), never a violation. Decides the named structural clauses only; "
        "the behavioural statement of the property as a whole is not decided (it quantifies over runtime values).")

TECH = {
 "C02": "static analysis: G-MEMO key/orientation/hit rules, def-use provenance of factor composition in _convert/_get_root_units_recurse/get_name, in-place vs functional twin agreement (ast-based)",
 "C03": "static analysis: path-sensitive abstract interpretation of the Quantity operator methods over a unit-tag domain (G-TAG), twin agreement of reflected/in-place forms, finite abstract evaluation of _ok_for_muldiv (ast-based)",
 "C04": "static analysis: ownership/copy-on-write of UnitsContainer representation fields (G-OWN), canonical-form rule (no zero exponents stored), hash/eq field agreement, operator delegation (ast-based)",
 "C05": "static analysis: unit-tag abstract interpretation of __eq__/compare (G-TAG), hash/eq agreement on dimensionality, rich-comparison operator table (ast-based)",
 "C06": "static analysis: term rewriting of converter op-sequences (from_reference is the exact inverse of to_reference; in-place == functional), CFG gates for offset/delta arithmetic and powers (ast-based)",
 "C07": "static analysis: call-graph reachability from parsing entry points (no eval/exec/import of input), operator/priority table agreement between tokenizer, evaluator and formatter, recursion exponent rule (ast-based)",
 "C08": "static analysis: CFG ordering of exact lookup before prefix/suffix search, gates on prefixed offset units, case-insensitive index writer agreement, who-may-write of the unit table on lookup (ast-based)",
 "C09": "static analysis: table extraction of formatter layouts vs parser operator table (G-TABLE), dispatch order and interface exhaustiveness (G-EXH), purity of formatting code (G-OWN), lru_cache inventory (ast-based)",
 "C10": "static analysis: error discipline (built errors are raised, validators get the field they name), parser block/definition class exhaustiveness, disk-cache key coverage, adder registration table (ast-based)",
 "C15": "static analysis: every exit of the unit-rewriting helpers returns self or to(U) through the gated converter; in-place twins use the same target; early-return guards of to_compact; reduction loop shape (ast-based)",
 "C16": "static analysis: abstract evaluation of numpy_func.py's module-level registration loops into the full (kind, name) -> policy table, compared with a curated semantics table; error discipline and ownership rules of the special-cased implementations (ast-based; numpy not imported)",
 "C17": "static analysis: CFG dominance of decoration-time argument-count checks, conversion/strictness rules per argument kind in _parse_wrap_args, result re-wrapping, check wrapper pairing order (ast-based)",
 "C18": "static analysis: __reduce__/__init__ field round trip of every exception class, unpickle helper ordering, registry identity checks before cross-operand use, deepcopy memo/rebinding rules (ast-based)",
 "C19": "static analysis: CFG dominance of the negative-error gate, def-use provenance of the stored magnitude and error conversion, operator priority table, tokenizer guard and sign-set agreement, formatter interface exhaustiveness (ast-based)",
 "C20": "static analysis of data: independent exact-rational reader of default_en.txt/constants_en.txt compared with a curated table of standard values (CODATA/SI/NIST exact definitions), plus resolution, acyclicity and spelling-uniqueness of every entry",
}


def explanation_of(pid):
    import ast as _ast
    t = _ast.parse(open(os.path.join(VERIF, "sa", "rules", f"{pid}.py")).read())
    out = None
    for n in t.body:
        if isinstance(n, _ast.Assign) and getattr(n.targets[0], "id", "") == "EXPLANATION":
            out = _ast.literal_eval(n.value)
        if isinstance(n, _ast.AugAssign) and getattr(n.target, "id", "") == "EXPLANATION" and out is not None:
            out += _ast.literal_eval(n.value)
    if out is None:
        raise SystemExit(f"{pid}: no EXPLANATION")
    return out


def addendum_of(pid):
    import ast as _ast
    t = _ast.parse(open(os.path.join(VERIF, "sa", "rules", f"{pid}.py")).read())
    return "".join(_ast.literal_eval(n.value) for n in t.body if isinstance(n, _ast.AugAssign) and getattr(n.target, "id", "") == "EXPLANATION")


for _pid in list(CLAIMS):
    if os.path.exists(os.path.join(VERIF, "sa", "rules", f"{_pid}.py")):
        CLAIMS[_pid]["text"] += addendum_of(_pid)

for _pid, _t in TECH.items():
    if _pid not in CLAIMS and os.path.exists(os.path.join(VERIF, "sa", "rules", f"{_pid}.py")):
        CLAIMS[_pid] = dict(technique=_t, text=explanation_of(_pid), note=NOTE, ref=f"DESIGN.md §4 {_pid}")

REASONS_PENDING = "rule pack under construction (see DESIGN.md §4); not claimed yet"

NOT_APPLICABLE = {}


def main():
    props = [json.loads(l) for l in open(os.path.join(VERIF, "properties.jsonl"))]
    checks, na = [], []
    for p in props:
        pid = p["id"]
        has_pack = os.path.exists(os.path.join(VERIF, "sa", "rules", f"{pid}.py"))
        if pid in CLAIMS and has_pack:
            c = CLAIMS[pid]
            checks.append({
                "property_id": pid,
                "quick_cmd": f"./check {pid} --tier quick",
                "thorough_cmd": f"./check {pid} --tier thorough",
                "evidence_file": f"/verif/evidence/{pid}.json",
                "replay_cmd_template": f"./check {pid} --replay {{path}}",
                "engine": "sa",
                "level_claimed": {"category": "other", "text": c["text"], "design_ref": c["ref"]},
                "level_note": c["note"],
                "technique": c["technique"],
            })
        else:
            na.append({"property_id": pid, "reason": NOT_APPLICABLE.get(pid, REASONS_PENDING)})
    man = {
        "version": 1,
        "setup_cmd": "python3 -c \"import compileall,sys; sys.exit(0 if compileall.compile_dir('/verif/sa', quiet=1) else 1)\"",
        "hooks": {
            "guard": "HGRECCO_PINT_VERIF",
            "enable": "not used: static analysis reads the sources of /repo and needs no instrumentation; there are no hook commits",
            "baseline_off_cmd": "cd /repo && /venv/bin/python -m pytest -ra -q -p no:cacheprovider --timeout=900 --continue-on-collection-errors",
            "source_commits": [],
            "add_only": True,
        },
        "engines": [{
            "name": "sa", "path": "/verif/sa", "serves_properties": [c["property_id"] for c in checks],
            "kind_free_text": "repository-specific static analysis over the Python AST of /repo/pint: source index, C3 MRO, call resolution, statement CFG with exception edges and path queries, def-use provenance, effect/write summaries, table extraction, independent definition-file reader. Nothing under /repo is imported or executed.",
        }],
        "checks": checks,
        "notes": "Static analysis only (see DESIGN.md). exit 0 = all obligations discharged (KNOWN-FINDING lines for triaged genuine defects in known_findings.json); exit 1 = VIOLATION; exit 2 = ANALYSIS-ERROR (anchor vanished / construct outside the modelled fragment), never reported as a violation. Thorough tier additionally runs the mutation self-test of the rules (selftest/run.py) and records it in evidence.",
        "not_applicable": na,
    }
    with open(os.path.join(VERIF, "MANIFEST.json"), "w") as fh:
        json.dump(man, fh, indent=1, ensure_ascii=False)
    print(f"MANIFEST: {len(checks)} checks, {len(na)} not_applicable")


if __name__ == "__main__":
    main()
