#!/bin/bash
# confirm_seed.sh <dir-with-seedK files> <K> : confirms a seeded change in a scratch worktree of /repo
# prints: APPLY ok|fail, DEMO_WITH fail|pass, SUITE pass|fail(n), DEMO_WITHOUT pass|fail
set -u
D="$1"; K="$2"; ID="$(basename "$D")-$K"
WT="${CS_WT:-/tmp/cs-$ID}"
# a private, initially empty disk cache: flexparser caches parsed definition files by content under ~/.cache/pint and
# remembers absolute import paths, so entries written from another (deleted) worktree would poison this run
export XDG_CACHE_HOME="/tmp/cs-$ID.cache"; rm -rf "$XDG_CACHE_HOME"; mkdir -p "$XDG_CACHE_HOME"
rm -rf "$WT"; git -C /repo worktree remove --force "$WT" 2>/dev/null
git -C /repo worktree add -q --detach "$WT" HEAD || exit 2
cd "$WT"
if git apply --check "$D/seed$K.patch.diff" 2>/dev/null; then git apply "$D/seed$K.patch.diff"; echo "APPLY ok"; else echo "APPLY fail"; git -C /repo worktree remove --force "$WT"; exit 0; fi
PYTHONPATH="$WT" timeout 300 /venv/bin/python "$D/seed${K}_demo.py" >/tmp/cs-$ID.demo1 2>&1; r1=$?
[ $r1 -ne 0 ] && echo "DEMO_WITH fail(expected) rc=$r1" || echo "DEMO_WITH pass(UNEXPECTED)"
PYTHONPATH="$WT" /venv/bin/python -m pytest -q -p no:cacheprovider -n ${CS_JOBS:-6} --timeout=900 pint/testsuite > /tmp/cs-$ID.suite.full 2>&1
tail -1 /tmp/cs-$ID.suite.full > /tmp/cs-$ID.suite
echo "SUITE $(cat /tmp/cs-$ID.suite)"
grep -E "^FAILED|^ERROR" /tmp/cs-$ID.suite.full | sed 's/^/SUITE-DETAIL /' | head -5
rm -f /tmp/cs-$ID.suite.full
git checkout -q -- .
PYTHONPATH="$WT" timeout 300 /venv/bin/python "$D/seed${K}_demo.py" >/tmp/cs-$ID.demo2 2>&1; r2=$?
[ $r2 -eq 0 ] && echo "DEMO_WITHOUT pass(expected)" || echo "DEMO_WITHOUT fail(UNEXPECTED) rc=$r2"
cd /; git -C /repo worktree remove --force "$WT"
rm -rf "/tmp/cs-$ID.cache"
