import sys, os, shutil, subprocess, tempfile, ast
sys.path.insert(0,'/verif')
from sa.index import Index
pf, mod, q = sys.argv[1:4]
tmp=tempfile.mkdtemp()
shutil.copytree('/repo/pint', tmp+'/pint', ignore=shutil.ignore_patterns('testsuite','__pycache__'))
subprocess.run(['patch','-p1','-s','-f','-d',tmp,'-i',pf],capture_output=True)
ix=Index(tmp)
print([h for h in ix.inlined_helpers if 'testing' not in h[0]])
print(ast.unparse(ix.func(mod,q).node))
shutil.rmtree(tmp)
