#!/usr/bin/env python3
"""store_seeds.py <seed-root> <confirm-dir> <seedtest.json>: copy every seeded change that was confirmed
(applies, demonstration fails with it and passes without, test-suite passes with it) into /verif/seeded/<Cxx>-<k>/
as patch.diff, demo.py and meta.json."""
import json, os, re, shutil, sys
VERIF = os.path.dirname(os.path.dirname(os.path.abspath(__file__)))
root, cdir, stj = sys.argv[1:4]
offset = int(sys.argv[4]) if len(sys.argv) > 4 else 0
round_label = sys.argv[5] if len(sys.argv) > 5 else "round 1"
first_run = json.load(open(sys.argv[6])) if len(sys.argv) > 6 else {}
st = json.load(open(stj))
kept, dropped = [], []
for pid in sorted(os.listdir(root)):
    for k in (1, 2, 3, 4, 5):
        pf = os.path.join(root, pid, f"seed{k}.patch.diff")
        if not os.path.exists(pf):
            continue
        sid = f"{pid}-{k}"
        cf = os.path.join(cdir, sid + ".txt")
        txt = open(cf).read() if os.path.exists(cf) else ""
        ok = ("APPLY ok" in txt and "DEMO_WITH fail(expected)" in txt and "DEMO_WITHOUT pass(expected)" in txt
              and re.search(r"SUITE 2722 passed", txt) and " failed" not in txt and " error" not in txt)
        if not ok:
            dropped.append((sid, txt.strip().replace("\n", " | ")[:300]))
            continue
        meta = json.load(open(os.path.join(root, pid, f"seed{k}_meta.json")))
        d = os.path.join(VERIF, "seeded", f"{pid}-{k + offset}")
        os.makedirs(d, exist_ok=True)
        shutil.copy(pf, os.path.join(d, "patch.diff"))
        shutil.copy(os.path.join(root, pid, f"seed{k}_demo.py"), os.path.join(d, "demo.py"))
        res = st.get(sid, {})
        out = {
            "property": pid,
            "breaks": meta.get("summary", ""),
            "construct": meta.get("function", ""),
            "needs_to_manifest": meta.get("needs", ""),
            "round": round_label,
            "author": "fresh sub-agent given only the property text and its own scratch worktree of /repo",
            "agent_ran": meta.get("ran", ""),
            "confirmed_by_me": {
                "how": "tools/confirm_seed.sh: scratch worktree of /repo HEAD under /tmp; git apply patch.diff; demo.py (PYTHONPATH=worktree) must exit non-zero; "
                       "pytest -q -p no:cacheprovider -n 14 --timeout=900 pint/testsuite must pass; git checkout -- .; demo.py must exit 0; worktree removed",
                "result": [l for l in txt.strip().splitlines()],
            },
            "checks": {
                "how": "tools/seedtest.py: patch applied to a scratch copy of /repo/pint, every rule pack run with PINT_REPO=<copy>",
                "status": res.get("status"),
                "first_run_before_strengthening": (lambda fr: None if fr is None else [h["check"] for h in fr.get("hits", []) if not h["reports"][0].startswith("ANALYSIS") and not (h["check"] == "C20" and all("degree_Reaumur" in x for x in h["reports"]))])(first_run.get(sid)),
                "caught_by": [h["check"] for h in res.get("hits", []) if not h["reports"][0].startswith("ANALYSIS")],
                "reports": {h["check"]: h["reports"][:2] for h in res.get("hits", [])},
            },
        }
        json.dump(out, open(os.path.join(d, "meta.json"), "w"), indent=1, ensure_ascii=False)
        kept.append(sid)
print("kept", len(kept)); print("dropped", len(dropped))
for s, t in dropped:
    print("  ", s, t)
