#!/bin/bash
# confirm_benign.sh <refs-root> <Cxx> [wt-prefix]: confirms the behaviour-preserving refactorings <refs-root>/<Cxx>/ref<k>.patch.diff
# myself, in a scratch worktree of /repo HEAD (never in /repo): the differential program ref<k>_demo.py must print a
# byte-identical transcript on the clean tree and with the patch, and the pinned test-suite must pass with the patch.
# This runs pint (it validates the *corpus*, not a property); the checks themselves stay static.
set -u
ROOT="$1"; P="$2"; PRE="${3:-/tmp/wt4b-}"
WT="$PRE$P"
git -C /repo worktree remove --force "$WT" 2>/dev/null; rm -rf "$WT"
git -C /repo worktree add -q --detach "$WT" HEAD || exit 2
cd "$WT"
for K in 1 2 3; do
  PF="$ROOT/$P/ref$K.patch.diff"; [ -f "$PF" ] || continue
  ID="$P-$K"
  git checkout -q -- .
  PYTHONHASHSEED=0 PYTHONPATH="$WT" timeout 900 /venv/bin/python "$ROOT/$P/ref${K}_demo.py" > /tmp/cb-$ID.base 2>&1
  if git apply --check "$PF" 2>/dev/null; then git apply "$PF"; else echo "$ID APPLY fail"; continue; fi
  PYTHONHASHSEED=0 PYTHONPATH="$WT" timeout 900 /venv/bin/python "$ROOT/$P/ref${K}_demo.py" > /tmp/cb-$ID.new 2>&1
  if cmp -s /tmp/cb-$ID.base /tmp/cb-$ID.new; then T="TRANSCRIPT identical ($(wc -l < /tmp/cb-$ID.base) lines)"; else T="TRANSCRIPT DIFFERS"; fi
  PYTHONPATH="$WT" /venv/bin/python -m pytest -q -p no:cacheprovider -n ${CS_JOBS:-4} --timeout=900 pint/testsuite > /tmp/cb-$ID.suite 2>&1
  S="$(tail -1 /tmp/cb-$ID.suite)"
  F="$(grep -E '^FAILED|^ERROR' /tmp/cb-$ID.suite | grep -v 'test_multiplication_with_scalar\[input_tuple2' | head -3 | tr '\n' ' ')"
  if grep -qE '^FAILED.*test_multiplication_with_scalar\[input_tuple2' /tmp/cb-$ID.suite && [ -z "$F" ]; then
     R="$(PYTHONPATH="$WT" /venv/bin/python -m pytest -q -p no:cacheprovider --timeout=900 pint/testsuite/test_quantity.py pint/testsuite/test_non_int.py 2>&1 | tail -1)"
     S="$S ; order-dependent test re-run serially: $R"
  fi
  echo "$ID APPLY ok | $T | SUITE $S ${F:+| OTHER-FAILURES $F}"
  rm -f /tmp/cb-$ID.base /tmp/cb-$ID.new /tmp/cb-$ID.suite
done
git checkout -q -- .
cd /; git -C /repo worktree remove --force "$WT"
