#!/usr/bin/env python3
"""store_benign.py <refs-root> <confirm.txt> <firstrun.json> <offset> <round-label>: copy every behaviour-preserving
refactoring that I confirmed (tools/confirm_benign.sh: transcript identical, suite green) into
/verif/benign/<Cxx>-<k+offset>/ as patch.diff, demo.py, meta.json."""
import json, os, re, shutil, sys
VERIF = os.path.dirname(os.path.dirname(os.path.abspath(__file__)))
root, conf, frj, offset, label = sys.argv[1], sys.argv[2], sys.argv[3], int(sys.argv[4]), sys.argv[5]
first = json.load(open(frj))
RULES_AT = sys.argv[6] if len(sys.argv) > 6 else "commit 71319c7 (state after round 3)"
lines = {l.split()[0]: l.strip() for l in open(conf) if l.strip()}
kept = dropped = 0
for pid in sorted(os.listdir(root)):
    for k in (1, 2, 3):
        pf = os.path.join(root, pid, f"ref{k}.patch.diff")
        if not os.path.exists(pf):
            continue
        rid = f"{pid}-{k}"
        c = lines.get(rid, "")
        ok = "APPLY ok" in c and "TRANSCRIPT identical" in c and re.search(r"2722 passed", c) and "OTHER-FAILURES" not in c
        if not ok:
            print("dropped", rid, c[:200])
            dropped += 1
            continue
        meta = json.load(open(os.path.join(root, pid, f"ref{k}_meta.json")))
        d = os.path.join(VERIF, "benign", f"{pid}-{k + offset}")
        os.makedirs(d, exist_ok=True)
        shutil.copy(pf, os.path.join(d, "patch.diff"))
        shutil.copy(os.path.join(root, pid, f"ref{k}_demo.py"), os.path.join(d, "demo.py"))
        fr = first.get(rid, {})
        out = {
            "property": pid,
            "refactoring": meta.get("summary", ""),
            "construct": meta.get("function", ""),
            "why_equivalent": meta.get("why_equivalent", ""),
            "round": label,
            "author": "fresh sub-agent given only the property text and its own scratch worktree of /repo; asked for a behaviour-preserving refactoring (byte-identical transcripts of a differential program before/after, test-suite green)",
            "agent_ran": meta.get("ran", ""),
            "confirmed_by_me": {"how": "tools/confirm_benign.sh: scratch worktree of /repo HEAD under /tmp; demo.py on the clean tree and with patch.diff applied must print byte-identical transcripts; pytest -q -p no:cacheprovider -n 4 --timeout=900 pint/testsuite must pass with the patch; worktree removed",
                                "result": c},
            "checks": {"how": "tools/benigntest.py: patch applied to a scratch copy of /repo/pint, every rule pack run; exit 0 = silent",
                       "first_run_before_hardening": {"rules_at": RULES_AT, "status": fr.get("status"),
                                                      "alarms": [f"{a['check']}: {r}" for a in fr.get("alarms", []) for r in a["reports"][:2]],
                                                      "inapplicable": [f"{a['check']}: {a['why']}" for a in fr.get("inapplicable", [])]}},
        }
        json.dump(out, open(os.path.join(d, "meta.json"), "w"), indent=1)
        kept += 1
print("kept", kept, "dropped", dropped)
