#!/usr/bin/env python3
"""seedtest.py <seed-root> [pid ...]: run the checks against each seeded change, applied to a
scratch copy of /repo/pint (never to /repo). Prints which check (if any) reports a violation."""
import json, os, shutil, subprocess, sys, tempfile
VERIF = os.path.dirname(os.path.dirname(os.path.abspath(__file__)))
root = sys.argv[1]
only = [a for a in sys.argv[2:] if not a.startswith("--json=")]
json_out = next((a[7:] for a in sys.argv[2:] if a.startswith("--json=")), None)
RESULTS = {}
claimed = sorted(f[:-3] for f in os.listdir(os.path.join(VERIF, "sa", "rules")) if f.startswith("C") and f.endswith(".py"))
def seeds():
    """(pid, k, patch file, meta file) for both layouts: <root>/<Cxx>/seed<k>.patch.diff and <root>/<Cxx>-<k>/patch.diff"""
    for name in sorted(os.listdir(root)):
        d = os.path.join(root, name)
        if not os.path.isdir(d):
            continue
        if os.path.exists(os.path.join(d, "patch.diff")):
            pid, _, k = name.partition("-")
            yield pid, k, os.path.join(d, "patch.diff"), os.path.join(d, "meta.json")
        else:
            for k in range(1, 10):
                pf = os.path.join(d, f"seed{k}.patch.diff")
                if os.path.exists(pf):
                    yield name, str(k), pf, os.path.join(d, f"seed{k}_meta.json")


def one(item):
    pid, k, pf, mf = item
    out = []
    tmp = tempfile.mkdtemp(prefix="seedtest-")
    try:
        shutil.copytree("/repo/pint", os.path.join(tmp, "pint"), ignore=shutil.ignore_patterns("testsuite", "__pycache__"))
        r = subprocess.run(["patch", "-p1", "-s", "-f", "-d", tmp, "-i", pf], capture_output=True, text=True)
        if r.returncode != 0:
            return (pid, k, None, [f"{pid} seed{k}: PATCH DOES NOT APPLY: {r.stdout.strip()[:100]}"])
        hits = []
        for c in claimed:
            env = dict(os.environ, PINT_REPO=tmp, VERIF_EVIDENCE_DIR=os.path.join(tmp, "ev"))
            rr = subprocess.run([os.path.join(VERIF, "check"), c], capture_output=True, text=True, env=env)
            if rr.returncode == 1:
                lines = [l.strip() for l in rr.stdout.splitlines() if "] " in l and l.startswith("  pint")]
                hits.append((c, lines[:2] or ["(exit 1 without report line)"]))
            elif rr.returncode == 2:
                hits.append((c, ["ANALYSIS-ERROR " + (rr.stdout.strip().splitlines() or ["?"])[-1][:150]]))
        meta = {}
        try:
            meta = json.load(open(mf))
            meta.setdefault("function", meta.get("construct", "?"))
            meta.setdefault("summary", meta.get("breaks", ""))
        except Exception:
            pass
        own = [h for h in hits if h[0] == pid]
        status = "CAUGHT" if own and not own[0][1][0].startswith("ANALYSIS") else ("caught-by-other" if any(not h[1][0].startswith("ANALYSIS") for h in hits) else "MISSED")
        out.append(f"{pid} seed{k}: {status}  [{meta.get('function','?')}] {meta.get('summary','')[:90]}")
        for c, lines in hits:
            for l in lines:
                out.append(f"      {c}: {l[:200]}")
        return (pid, k, {"status": status, "hits": [{"check": c, "reports": lines} for c, lines in hits]}, out)
    finally:
        shutil.rmtree(tmp, ignore_errors=True)


from concurrent.futures import ThreadPoolExecutor
items = [it for it in seeds() if not only or it[0] in only]
with ThreadPoolExecutor(max_workers=int(os.environ.get("SEEDTEST_JOBS", "12"))) as ex:
    for pid, k, res, out in ex.map(one, items):
        for l in out:
            print(l)
        if res is not None:
            RESULTS[f"{pid}-{k}"] = res

if json_out:
    json.dump(RESULTS, open(json_out, "w"), indent=1)
