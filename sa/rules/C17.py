"""C17 — wraps/check decorators hand over correct magnitudes and enforce dimensions.

All rules below find their candidates by role (what a value holds, what a loop walks, what a function returns) and
check them with shape.match / shape.resolve / facts; the names of local variables of pint are discovered, never
assumed.  Names that are mentioned are parameters (`args`, `ret`, `strict`, `values`, `kw`, `sig`, `registry`,
`original_units`, `values_by_name`, ...), attributes, functions and literals."""
from __future__ import annotations

import ast

from .. import shape
from ..flow import call_name, norm
from ..index import AnalysisError, walk_local
from ..lib import cfg_of, defs_of, edge_leads_only_to_raise, witness
from .C01 import (additions, check_wrapper_order_rule, closure_defs, conditional_in, enclosing_iteration, facts, find_expr,
                  find_stores, is_signature, known, names_it, one_per_item, reaching_defs, resolve, returned_def, rnorm, signature_view, signature_walk)

RH = "pint.registry_helpers"

EXPLANATION = (
    "Static analysis (no execution): in wraps and check the parameter-count test dominates the creation of the wrapper "
    "(decoration time) and its failing edge raises TypeError; in _parse_wrap_args every path of the classification loop "
    "puts the index of a non-None specification into exactly one of the definition / dependent / unit index sets and "
    "None into none, a reference is a definition only for exponent 1 and a name not yet defined, dependent "
    "specifications must only use defined names; in _converter the first pass records named values and strips "
    "magnitudes, the dependent pass converts *every* value through ureg._convert to the units derived from the named "
    "values (no pass-through for bare numbers), the unit pass converts quantities and strings, raises for other values "
    "in strict mode and leaves them untouched otherwise, and keyword/default values are packed and unpacked by signature "
    "order; _apply_defaults fills only absent parameters; the wraps wrapper re-wraps the result in the declared or "
    "derived units (None passes through); the check wrapper skips None, pairs declared dimensions with arguments in "
    "signature order and raises DimensionalityError. Does not decide concrete magnitudes.")


def _paths(cfg, start_succ, stop):
    """All simple paths (node id lists) from the nodes in start_succ back to `stop` (loop header) or an exit."""
    out = []
    stack = [(s, [s]) for s in start_succ]
    while stack:
        n, path = stack.pop()
        if n == stop or n in (cfg.exit, cfg.rexit):
            out.append(path)
            continue
        for (v, lab) in cfg.succ[n]:
            if lab == "exc":
                continue
            if v in path and v != stop:
                continue
            stack.append((v, path + [v]))
        if len(out) > 500:
            break
    return out


def _expr(text):
    return ast.parse(text, mode="eval").body


def _is_none_test(subject):
    """atom predicate: `<subject> is None` (subject compared after resolving temporaries is the caller's business)"""
    return lambda a: isinstance(a, ast.Compare) and len(a.ops) == 1 and isinstance(a.ops[0], ast.Is) and norm(a.comparators[0]) == "None" and norm(a.left) == subject


def _loops_over(fn, name):
    """the `for` loops of `fn` (own scope) that iterate directly over the variable `name`"""
    return [l for l in walk_local(fn) if isinstance(l, ast.For) and isinstance(l.iter, ast.Name) and l.iter.id == name]


# ---------------------------------------------------------------------------------------------------------------------
def _arity_rule(ck, ix, f, q, what, declared):
    """(a) decoration-time arity test.  Roles: the decorator = the nested function that `q` returns, the wrapper = the
    nested function that the decorator returns, the wrapped function = the decorator's first parameter; the test = a
    comparison of len(<declared specifications>) with another value, which must be the number of parameters of
    signature(<wrapped function>)."""
    d = returned_def(f, "decorator")
    w = returned_def(d, "wrapper")
    ck.analysed(d)
    cfg = cfg_of(d)
    func = d.node.args.args[0].arg

    def declared_len(e):
        b = shape.match("len(_D)", resolve(e, d.node))
        return b is not None and declared(b["_D"], d)

    def sig_count(e):
        r = shape.deep(ix, d, e, d.node)
        if not (isinstance(r, ast.Call) and call_name(r) == "len" and len(r.args) == 1 and not r.keywords):
            return False
        r = r.args[0]
        while (isinstance(r, ast.Call) and call_name(r) in ("list", "tuple") and len(r.args) == 1) or (isinstance(r, ast.Call) and isinstance(r.func, ast.Attribute) and r.func.attr in ("keys", "values", "items") and not r.args):
            r = r.args[0] if r.args else r.func.value           # a copy or a view has the same length
        return any(shape.match(p, r) is not None for p in (f"signature({func}).parameters", f"inspect.signature({func}).parameters"))
    others = {}

    def count_test(a):
        if isinstance(a, ast.Compare) and len(a.ops) == 1 and isinstance(a.ops[0], ast.Eq):
            l, r = a.left, a.comparators[0]
            o = r if declared_len(l) else l if declared_len(r) else None
            if o is not None:
                others[id(o)] = o
                return True
        return False
    safe = sorted(set(shape.guard_edges(cfg, count_test, want=True)))
    wr = [n.id for n in cfg.nodes if n.kind == "stmt" and n.ast is w.node]
    if not wr:
        raise AnalysisError(f"{q}: the statement creating the wrapper was not found")
    ck.check(bool(safe), "G-DOM", f"{q}|parameter-count-tested", d.loc(), "declared and actual parameter counts are compared", f"{q}: the comparison of the number of declared {what} with the function's parameters is gone")
    p = shape.reachable_without(cfg, wr, safe)
    ck.check(bool(safe) and p is None, "G-DOM", f"{q}|count-test-at-decoration-time", d.loc(w.node), "the count test runs before the wrapper is created", "the wrapper is created without the parameter-count test", witness(cfg, p))
    for (t, lab) in safe:
        p = edge_leads_only_to_raise(cfg, t, shape.other(lab), also_forbid=wr)
        ck.check(p is None, "G-DOM", f"{q}|count-mismatch-raises", d.loc(cfg.nodes[t].ast), "a mismatch raises TypeError", "a parameter-count mismatch does not raise", witness(cfg, p))
    if others:
        badc = [o for o in others.values() if not sig_count(o)]
        ck.check(not badc, "G-PROV", f"{q}|count-from-signature", d.loc(badc[0]) if badc else d.loc(), "count taken from the function's signature",
                 f"{q}: the number of declared {what} is compared with `{rnorm(badc[0], d.node) if badc else ''}`, which is not the number of parameters of signature({func})")


def _one_per_declared(name, fi):
    """`name` (a free variable of the decorator) holds one entry per declared specification: the parameter `args` itself
    or a list built with exactly one entry per element of `args` (comprehension, map, or append loop)."""
    if name == "args":
        return True
    owners = {id(o): o for _, o in closure_defs(fi, name)}
    return len(owners) == 1 and one_per_item(next(iter(owners.values())), name, "args") is not None


# ---------------------------------------------------------------------------------------------------------------------
def _converter_roles(f, c):
    """Roles of the index sets by what the converter does with them.  The converter `c` walks three free variables,
    which `f` initialises as empty sets, in three loops: the loop that calls _replace_units is the dependent pass, the
    loop that looks at `strict` / Quantity / parse_expression is the unit pass, the remaining one the definition pass.
    BYNAME, the local mapping of named values, is what the dependent pass hands to _replace_units (or, failing that,
    the local dict the definition pass stores into).  Returns (BYNAME, {role: (set name, loop)})."""
    local = defs_of(c)
    loops = [l for l in walk_local(c.node) if isinstance(l, ast.For) and isinstance(l.iter, ast.Name) and l.iter.id not in local.params and l.iter.id not in local.defs
             and any(norm(v) in ("set()", "set([])", "set(())") for v, _ in closure_defs(c, l.iter.id))]
    roles = {}
    for l in loops:
        if find_expr(c.node, "_replace_units(*_R)", within=l):
            kind = "dep"
        elif any((isinstance(x, ast.Name) and x.id == "strict") or (isinstance(x, ast.Attribute) and x.attr in ("Quantity", "parse_expression")) for x in ast.walk(l)):
            kind = "unit"
        else:
            kind = "defs"
        if kind in roles:
            raise AnalysisError("_converter: the definition / dependent / unit passes cannot be told apart")
        roles[kind] = (l.iter.id, l)
    if set(roles) != {"defs", "dep", "unit"}:
        raise AnalysisError("_converter: the three passes were not found")
    names = {b["_N"] for x, b in find_expr(c.node, "_replace_units(_S, _N)", within=roles["dep"][1]) if b["_N"] in local.defs and b["_N"] not in local.params}
    if not names:
        names = {b["_D"] for st, b in find_stores(c.node, "_D[_K]", within=roles["defs"][1]) if b["_D"] in local.defs and b["_D"] not in local.params}
    if len(names) != 1:
        raise AnalysisError("_converter: the mapping of named values was not found")
    return names.pop(), roles


def run(ck, ix, tier):
    # ------------------------------------------------------------ (a) decoration-time arity test
    _arity_rule(ck, ix, ix.func(RH, "wraps"), "wraps", "args", lambda n, d: n == "args")
    _arity_rule(ck, ix, ix.func(RH, "check"), "check", "dimensions", _one_per_declared)

    # ------------------------------------------------------------ (b) classification loop
    f = ix.func(RH, "_parse_wrap_args")
    ck.analysed(f)
    cfg = cfg_of(f)
    c = returned_def(f, "converter")
    ck.analysed(c)
    # SPECS: the name bound to the parsed specifications (built from _to_units_container calls)
    built = [(st, b) for st, b in find_stores(f.node, "_S") if isinstance(st, (ast.Assign, ast.AnnAssign)) and st.value is not None
             and any(isinstance(x, ast.Call) and call_name(x) == "_to_units_container" for x in ast.walk(st.value))]
    ck.floor("G-PROV", len(built), 1, "list of specifications parsed with _to_units_container in _parse_wrap_args")
    SPECS = built[0][1]["_S"]
    ck.check(len(built) == 1 and shape.match("[_to_units_container(_A, registry) for _A in args]", built[0][0].value) is not None, "G-PROV", "_parse_wrap_args|specs-parsed-in-order", f.loc(built[0][0]), "specifications parsed positionally", "the positional parsing of specifications changed")
    # the classification loop: `for IDX, (SPEC, ISREF) in enumerate(SPECS)`
    loops = [n for n in cfg.nodes if n.kind == "for" and any(shape.match(f"enumerate({SPECS})", e_) is not None for e_ in (n.ast, resolve(n.ast, f.node)))]
    if len(loops) != 1:
        raise AnalysisError("_parse_wrap_args: classification loop not found")
    lp = loops[0]
    m = shape.match("(_I, (_S, _R))", lp.stmt.target)
    if m is None:
        raise AnalysisError("_parse_wrap_args: the classification loop does not unpack (index, (specification, is_reference))")
    IDX, SPEC, ISREF = m["_I"], m["_S"], m["_R"]
    BYNAME, roles = _converter_roles(f, c)
    sets = {roles[k][0]: k for k in roles}
    add_sites = [(x, b["_T"]) for x, b in find_expr(f.node, f"_T.add({IDX})", within=lp.stmt) if b["_T"] in sets]
    body_first = [v for (v, lab) in cfg.succ[lp.id] if lab == "t"]
    none_edges = set(shape.guard_edges(cfg, _is_none_test(SPEC)))
    site_of = {id(getattr(x, "_parent", None)): t for x, t in add_sites}
    bad = []
    n_paths = 0
    for path in _paths(cfg, body_first, lp.id):
        n_paths += 1
        adds = [site_of[id(cfg.nodes[nid].ast)] for nid in path if cfg.nodes[nid].kind == "stmt" and id(cfg.nodes[nid].ast) in site_of]
        took_none = any((nid, lab) in none_edges for i, nid in enumerate(path) for (v, lab) in cfg.succ[nid] if i + 1 < len(path) and v == path[i + 1])
        if took_none:
            if adds:
                bad.append(("None specification is classified", adds))
        elif len(adds) != 1:
            bad.append((f"a non-None specification is added to {len(adds)} index sets", adds))
    # unit specifications and references must not be mixed up: the unit set is filled where the reference flag is known
    # to be false, the other two where it is known to be true
    is_ref = lambda a: isinstance(a, ast.Name) and a.id == ISREF
    for x, t in add_sites:
        if not shape.holds_at(x, f.node, is_ref, sets[t] != "unit"):
            bad.append((f"index added to the {sets[t]} set although the specification is {'a' if sets[t] == 'unit' else 'not a'} reference", [t]))
    ck.extra["classification_paths"] = n_paths
    ck.check(not bad and n_paths >= 4, "G-EXH", "_parse_wrap_args|every-index-classified-exactly-once", f.loc(lp.ast), f"{n_paths} paths: every non-None index lands in exactly one set, None in none",
             f"classification loop: {bad[:2]} (an argument would be converted twice, or not at all)")
    # a reference is a definition iff it is a single name with exponent 1 that was not defined before: wherever an
    # index enters the definition set, `EXPONENT == 1` and `NAME not in DEFINED` are known for the single
    # (NAME, EXPONENT) item of the specification, and NAME is recorded in DEFINED
    DEFS = roles["defs"][0]
    pairs = [b for st, b in find_stores(f.node, "[(_K, _V)]", within=lp.stmt) + find_stores(f.node, "((_K, _V),)", within=lp.stmt) + find_stores(f.node, "(_K, _V)", within=lp.stmt)
             if rnorm(st.value, f.node) in (f"{SPEC}.items()", f"next(iter({SPEC}.items()))", f"list({SPEC}.items())[0]", f"tuple({SPEC}.items())[0]")]
    def_sites = [x for x, t in add_sites if t == DEFS]
    ck.floor("G-EXH", len(def_sites), 1, "places where an index enters the definition set in _parse_wrap_args")
    DEFINED = None
    for x in def_sites:
        why = None
        new = known(x, f.node, "_K in _D", False)
        if not pairs:
            why = "the exponent of the single referenced name is not examined"
        elif new is None:
            why = "the name is not tested against the names defined so far"
        else:
            DEFINED = new["_D"]
            pr = [b for b in pairs if b["_K"] == new["_K"]]
            if not pr:
                why = f"`{new['_K']}` is not the name of the specification's single item"
            elif not any(known(x, f.node, pat, True) is not None for pat in (f"{pr[0]['_V']} == 1", f"1 == {pr[0]['_V']}")):
                why = f"the exponent `{pr[0]['_V']}` is not required to be 1"
            elif not any(facts_equal(x, y, f.node) for y, _ in find_expr(f.node, f"{DEFINED}.add({new['_K']})", within=lp.stmt)):
                why = f"the defined name is not recorded in `{DEFINED}`"
        cond = " and ".join((norm(a) if t else f"not ({norm(a)})") for a, t in shape.facts_at(x, lp.stmt))
        ck.check(why is None, "G-EXH", "_parse_wrap_args|definition-iff-exponent-1-and-new-name", f.loc(x), "a reference defines a name only with exponent 1 and when the name is new",
                 f"`{cond}`: {why}: '=A**2' listed before '=A' would be taken as the definition of A")
    # dependent specifications only use defined names: a ValueError is raised where `set(names of SPECS[i][0]) <= DEFINED` fails
    # (spelled as a failed subset test, as any(name not in DEFINED ...) or as a failed all(name in DEFINED ...))
    D_ = DEFINED or "_D"
    views = ("_A.keys()", "_A", "set(_A.keys())", "set(_A)")
    undefined = [(pat, False) for pat in (f"set(_A.keys()) <= {D_}", f"set(_A) <= {D_}", f"_A.keys() <= {D_}", f"set(_A.keys()).issubset({D_})", f"set(_A).issubset({D_})",
                                          f"{D_} >= set(_A.keys())", f"{D_} >= set(_A)", f"{D_}.issuperset(_A.keys())", f"{D_}.issuperset(_A)")]
    for v_ in views:
        undefined += [(f"any(_N not in {D_} for _N in {v_})", True), (f"any([_N not in {D_} for _N in {v_}])", True),
                      (f"all(_N in {D_} for _N in {v_})", False), (f"all([_N in {D_} for _N in {v_}])", False)]
    okd = False
    for r in [r for r in walk_local(f.node) if isinstance(r, ast.Raise) and r.exc is not None and "ValueError" in norm(r.exc) and not shape.dead(r, f.node)]:
        it = enclosing_iteration(r, f.node)
        if it is None or norm(it[1]) != roles["dep"][0] or not isinstance(it[0], ast.Name):
            continue
        okd = okd or any(known(r, f.node, pat, tr, where=lambda b, R: R("_A") == f"{SPECS}[{it[0].id}][0]") is not None for pat, tr in undefined)
    ck.check(okd, "G-DOM", "_parse_wrap_args|dependent-names-must-be-defined", f.loc(), "dependent specifications using undefined names are rejected", "the check that dependent specifications only use defined names is gone")

    # ------------------------------------------------------------ _to_units_container: '=X' is a reference to X
    f2 = ix.func(RH, "_to_units_container")
    ck.analysed(f2)
    # decided on the facts known at each return, as a truth table over the two atoms (is a string / contains '='):
    # a return tagged True is reached only when both hold, every other return only when they do not both hold
    IS_STR, HAS_EQ = "isinstance(a, str)", "'=' in a"
    possible = lambda r: [(i_, e_) for i_ in (True, False) for e_ in (True, False) if _consistent(facts(r, f2.node), {IS_STR: i_, HAS_EQ: e_})]
    tagged = [(r, shape.unalias(r.value, f2.node)) for r in shape.returns_of(f2.node)]
    tagged = [(r, v) for r, v in tagged if isinstance(v, ast.Tuple) and len(v.elts) == 2]
    refs = [(r, v) for r, v in tagged if isinstance(shape.unalias(v.elts[1], f2.node), ast.Constant) and shape.unalias(v.elts[1], f2.node).value is True]
    plain = [(r, v) for r, v in tagged if (r, v) not in refs]
    after = ("to_units_container(a.split('=', 1)[1], *_R)", "to_units_container(a.split('=', 1)[-1], *_R)", "to_units_container(a.partition('=')[2], *_R)", "to_units_container(a.partition('=')[-1], *_R)")
    okr = bool(refs) and all(possible(r) == [(True, True)] and any(shape.match(p_, resolve(v.elts[0], f2.node)) is not None for p_ in after) for r, v in refs)
    okp = bool(plain) and all((True, True) not in possible(r) and isinstance(shape.unalias(v.elts[1], f2.node), ast.Constant) and shape.unalias(v.elts[1], f2.node).value is False
                              and shape.match("to_units_container(a, registry)", resolve(v.elts[0], f2.node)) is not None for r, v in plain)
    ck.check(okr and okp, "G-PROV", "_to_units_container|reference-is-after-equals", f2.loc(), "'=X' denotes a reference to X", "_to_units_container no longer treats '=X' as a reference to X")

    # ------------------------------------------------------------ _replace_units: product of named values ** exponent
    f3 = ix.func(RH, "_replace_units")
    ck.analysed(f3)
    okp = False
    for pw, b in find_expr(f3.node, "values_by_name[_N] ** _E"):
        it = enclosing_iteration(pw, f3.node)
        if it is None:
            continue
        tgt, itx = it[0], rnorm(it[1], f3.node)
        per_item = (itx == "original_units.items()" and shape.match("(_N, _E)", tgt) == {"_N": b["_N"], "_E": b["_E"]}) or \
                   (itx in ("original_units", "original_units.keys()") and norm(tgt) == b["_N"] and b["_E"] == f"original_units[{b['_N']}]")
        par = getattr(pw, "_parent", None)
        acc = None
        if isinstance(par, ast.AugAssign) and isinstance(par.op, ast.Mult) and par.value is pw and isinstance(par.target, ast.Name):
            acc = par.target.id
        elif isinstance(par, ast.BinOp) and isinstance(par.op, ast.Mult) and isinstance(getattr(par, "_parent", None), ast.Assign):
            o = par.left if par.right is pw else par.right
            t_ = par._parent.targets[0]
            if isinstance(o, ast.Name) and isinstance(t_, ast.Name) and o.id == t_.id:
                acc = o.id
        returned = acc is not None and any(acc in {n.id for n in ast.walk(shape.unalias(r.value, f3.node)) if isinstance(n, ast.Name)} for r in shape.returns_of(f3.node))
        okp = okp or (per_item and returned)
    ck.check(okp, "G-PROV", "_replace_units|product-of-named-values-to-exponents", f3.loc(), "derived units = product of named values ** exponent", "_replace_units no longer multiplies the named values raised to their exponents")

    # ------------------------------------------------------------ (c) _converter
    l1, l2, l3 = roles["defs"][1], roles["dep"][1], roles["unit"][1]
    i1, i2, i3 = (norm(l.target) for l in (l1, l2, l3))
    # first pass: BYNAME[SPECS[i][0]] = values[i]; values[i] = getattr(values[i], '_magnitude', values[i])
    rec = [st for st, b in find_stores(c.node, f"{BYNAME}[{SPECS}[{i1}][0]]", within=l1) if isinstance(st, ast.Assign) and rnorm(st.value, c.node) == f"values[{i1}]"]
    strip = [st for st, b in find_stores(c.node, f"values[{i1}]", within=l1) if isinstance(st, ast.Assign)
             and shape.match("getattr(_X, '_magnitude', _X)", resolve(st.value, c.node)) == {"_X": f"values[{i1}]"}]
    ordered = bool(rec) and bool(strip) and (isinstance(rec[0].value, ast.Name) or rec[0].lineno < strip[0].lineno)
    ck.check(ordered and conditional_in(rec[0], l1) is None and conditional_in(strip[0], l1) is None, "G-PROV", "_converter|first-pass-records-and-strips", c.loc(l1), "named values recorded, magnitudes handed over", "the first pass no longer records the named value and hands over its magnitude")
    # dependent pass: unconditional conversion to the derived units, stored back
    dstores = [st for st, b in find_stores(c.node, f"values[{i2}]", within=l2) if isinstance(st, ast.Assign)]
    conv2 = [st for st in dstores if isinstance(st.value, ast.Call) and shape.match("ureg._convert(*_R, **_K)", st.value) is not None]
    skip = next((s_ for s_ in (conditional_in(st, l2) for st in conv2) if s_ is not None), None) if conv2 else None
    if not conv2:
        skip = next((x for x in ast.walk(l2) if isinstance(x, (ast.Continue, ast.Break, ast.If))), None)
    ck.check(bool(conv2) and skip is None, "G-DOM", "_converter|dependent-pass-converts-every-value", c.loc(skip) if skip is not None else c.loc(l2), "every dependent argument is converted (bare numbers count as dimensionless)",
             f"`{norm(skip)[:60] if skip is not None else ''}`: some dependent arguments skip the conversion: a bare number is passed through although the referenced argument is dimensional")
    ok = len(dstores) == 1 and len(conv2) == 1
    if ok:
        a_ = conv2[0].value
        r_ = [resolve(x, c.node) for x in a_.args]
        ok = len(r_) == 3 and not a_.keywords and shape.match("getattr(_X, '_magnitude', _X)", r_[0]) == {"_X": f"values[{i2}]"} \
            and shape.match("getattr(_X, '_units', UnitsContainer({}))", r_[1]) == {"_X": f"values[{i2}]"} and norm(r_[2]) == f"_replace_units({SPECS}[{i2}][0], {BYNAME})"
    ck.check(ok, "G-PROV", "_converter|dependent-pass-converts-to-derived-units", c.loc(l2), "converted from the value's own units (dimensionless for bare numbers) to the units derived from the named values", "the dependent pass no longer converts (magnitude, units-or-dimensionless) to _replace_units(spec, values_by_name)")
    # unit pass
    idx = i3
    cur = lambda e: rnorm(e, c.node) == f"values[{idx}]"
    is_qty = lambda a: isinstance(a, ast.Call) and call_name(a) == "isinstance" and len(a.args) == 2 and "Quantity" in norm(a.args[1]) and cur(a.args[0])
    is_str = lambda a: isinstance(a, ast.Call) and call_name(a) == "isinstance" and len(a.args) == 2 and norm(a.args[1]) == "str" and cur(a.args[0])
    is_strict = lambda a: isinstance(a, ast.Name) and a.id == "strict"
    convs = [x for x in ast.walk(l3) if isinstance(x, ast.Call) and call_name(x) == "_convert" and norm(x.func) == "ureg._convert"]
    okc = len(convs) >= 1 and all(len(x.args) == 3 and not x.keywords for x in convs)   # in particular no inplace=True: the caller's quantity must not be rescaled
    convs = [x for x in convs if len(x.args) == 3]
    cdefs_ = defs_of(c)

    cfgc = cfg_of(c)
    qty_edges = shape.guard_edges(cfgc, is_qty, want=True)

    def sources(e, use):
        """[(value, site, quantity_only)]: what the converted object `e` can be where `use` executes and where that is
        decided - `e` itself, or, for a name (re)assigned inside this pass (quantity = values[i] on one branch,
        value = parse(value) on another), every assignment that reaches `use`; quantity_only = that assignment reaches
        `use` only over an edge on which the value is known to be a Quantity"""
        r = resolve(e, c.node)
        if isinstance(r, ast.Name) and r.id not in cdefs_.params and len(cdefs_.defs.get(r.id, [])) > 1:
            ds = reaching_defs(c, r.id, use)
            if ds and all(k_ == "assign" and any(st_ is y for y in ast.walk(l3)) for _, k_, st_ in ds):
                gated_ = {id(st_) for _, _, st_ in reaching_defs(c, r.id, use, avoid_edges=qty_edges)}
                return [(resolve(v_, c.node), st_, id(st_) not in gated_) for v_, _, st_ in ds]
        return [(r, e, False)]
    from_qty = False
    for x in convs:
        m_, u_, d_ = x.args
        same = isinstance(m_, ast.Attribute) or isinstance(resolve(m_, c.node), ast.Attribute)
        m_, u_ = (a_ if isinstance(a_, ast.Attribute) else resolve(a_, c.node) for a_ in (m_, u_))
        src_ok = same and isinstance(m_, ast.Attribute) and isinstance(u_, ast.Attribute) and m_.attr == "_magnitude" and u_.attr == "_units" and rnorm(m_.value, c.node) == rnorm(u_.value, c.node)
        for v_, site, qty_only in (sources(m_.value, x) if src_ok else []):
            if norm(v_) == f"values[{idx}]":
                src_ok = src_ok and (qty_only or shape.holds_at(site if site is not m_.value else x, c.node, is_qty, True))     # only a Quantity has ._magnitude / ._units
                from_qty = from_qty or src_ok
            else:
                src_ok = src_ok and norm(v_) == f"ureg.parse_expression(values[{idx}])"
        okc = okc and src_ok and rnorm(d_, c.node) == f"{SPECS}[{idx}][0]"
        par = getattr(x, "_parent", None)
        okc = okc and isinstance(par, ast.Assign) and norm(par.targets[0]) == f"values[{idx}]"
    ck.check(okc and from_qty, "G-PROV", "_converter|quantities-converted-to-declared-units", c.loc(l3), "quantities (and parsed strings) converted to the declared units through ureg._convert and stored back",
             "quantities are no longer converted with ureg._convert(own magnitude, own units, declared units of this argument) and stored back in place")
    raises = [r for r in ast.walk(l3) if isinstance(r, ast.Raise) and not shape.dead(r, c.node)]
    okr = len(raises) >= 1 and all("ValueError" in norm(r) and shape.holds_at(r, c.node, is_strict, True) and shape.holds_at(r, c.node, is_qty, False) and shape.holds_at(r, c.node, is_str, False) for r in raises)
    writes = [a_ for a_ in ast.walk(l3) if isinstance(a_, ast.Assign) and norm(a_.targets[0]) == f"values[{idx}]"]
    # a value is only replaced where it is known to be a Quantity or the mode to be strict - at the write itself, or on
    # every path that leads to it (a write shared by the Quantity branch and the parsed-string branch)
    gated = qty_edges + shape.guard_edges(cfgc, is_strict, want=True)
    okw = all(shape.holds_at(a_, c.node, is_qty, True) or (shape.holds_at(a_, c.node, is_strict, True) and shape.holds_at(a_, c.node, is_qty, False))
              or (bool(gated) and shape.reachable_without(cfgc, [n.id for n in cfgc.nodes if n.ast is a_], gated) is None) for a_ in writes)
    ck.check(okr and okw, "G-DOM", "_converter|strict-refuses-bare-numbers-nonstrict-passes", c.loc(l3), "strict: non-quantity, non-string values raise; non-strict: untouched",
             "the strict/non-strict handling of bare values changed (strict must raise for values that are neither Quantity nor str, non-strict must leave bare values alone)")
    parses = [x for x in ast.walk(l3) if isinstance(x, ast.Call) and call_name(x) == "parse_expression"]
    ck.check(len(parses) >= 1 and all(shape.holds_at(x, c.node, is_strict, True) and shape.holds_at(x, c.node, is_qty, False) for x in parses), "G-DOM", "_converter|strict-strings-parsed-others-raise", c.loc(l3), "in strict mode strings are parsed", "strings are no longer parsed only in strict mode for non-quantities")
    # keyword/default values are appended to `values` and written back in signature order, for the parameters beyond the
    # positional ones; the positional count is taken on entry, before `values` grows
    npos = "len(values)"
    app = additions(c.node, "values")
    back = [st for st, b in find_stores(c.node, "kw[_P]") if isinstance(st, ast.Assign)]
    # ... or written back in one go: kw.update(zip(<names beyond the positional ones>, values[<positional count>:]))
    bulk = [x for x, b in find_expr(c.node, "kw.update(*_R, **_K)")]
    ok = len(app) == 1 and len(back) + len(bulk) == 1 and shape.match("kw[_P]", app[0]) is not None
    if ok:
        sa_ = signature_walk(app[0], c, npos)
        ok = sa_ is not None and sa_[2] and names_it(app[0].slice, c.node, sa_[0])
        if back:
            sb_ = signature_walk(back[0].value, c, npos)
            ok = ok and sb_ is not None and sb_[2] and names_it(back[0].targets[0].slice, c.node, sb_[0]) \
                and (rnorm(back[0].value, c.node) in [f"values[{i_}]" for i_ in sb_[1]] or (isinstance(back[0].value, ast.Name) and sb_[4].get(back[0].value.id) == "values"))
        else:
            z = resolve(bulk[0].args[0], c.node) if len(bulk[0].args) == 1 and not bulk[0].keywords else None
            z = z.args[0] if z is not None and shape.match("dict(zip(_N, _V))", z) is not None else z
            view = signature_view(z.args[0], c) if z is not None and shape.match("zip(_N, _V)", z) is not None else None
            ok = ok and view is not None and view[0] == "names" and view[1] == npos and norm(z.args[1]) == f"values[{npos}:]"
        # `len(values)` must be read before anything is appended: only through a name assigned at the top of the function
        grow = min([x.lineno for x in app] + [l.lineno for l in (l1, l2, l3)])
        ok = ok and all(getattr(getattr(x, "_parent", None), "lineno", grow) < grow and getattr(getattr(x, "_parent", None), "_parent", None) is c.node for x, _ in find_expr(c.node, "len(values)"))
    ck.check(ok, "G-PROV", "_converter|keyword-values-packed-and-unpacked-in-signature-order", c.loc(), "keyword/default values appended and written back by walking sig.parameters beyond the positional ones", "keyword/default values are no longer packed/unpacked by signature position")
    rets = [shape.unalias(r.value, c.node) for r in shape.returns_of(c.node)]
    okt = bool(rets) and all(isinstance(v, ast.Tuple) and len(v.elts) == 3 and rnorm(v.elts[0], c.node) == f"values[:{npos}]" and norm(v.elts[1]) == "kw" and norm(v.elts[2]) == BYNAME for v in rets)
    ck.check(okt, "G-PROV", "_converter|returns-positional-keywords-named", c.loc(), "returns (positional, keywords, named values)", "the converter's return triple changed")

    # ------------------------------------------------------------ _apply_defaults(sig, args, kwargs)
    fa = ix.func(RH, "_apply_defaults")
    ck.analysed(fa)
    # the places where a default enters kwargs: `kwargs[K] = V`, or `kwargs.setdefault(K, V)` (which itself leaves a
    # keyword that was passed alone): (site, key, value, keeps what was passed)
    fills = [(st, st.targets[0].slice, st.value, False) for st, b in find_stores(fa.node, "kwargs[_K]") if isinstance(st, ast.Assign)]
    fills += [(x, x.args[0], x.args[1], True) for x, b in find_expr(fa.node, "kwargs.setdefault(_K, _V)")]
    ck.floor("G-PROV", len(fills), 1, "stores into kwargs in _apply_defaults")
    okf = not find_expr(fa.node, "kwargs.update(*_R, **_K)")
    for st, key, val, keeps in fills:
        sw = signature_walk(st, fa, "len(args)")
        if sw is None:
            okf = False
            continue
        names, _index, absent, objs, _aligned = sw
        key_ok = names_it(key, fa.node, names) and any(rnorm(val, fa.node) == f"{P}.default" for P in objs)
        has_default = any(known(st, fa.node, pat, False) is not None for P in objs for pat in (f"{P}.default == Parameter.empty", f"{P}.default is Parameter.empty", f"Parameter.empty == {P}.default", f"{P}.default == {P}.empty", f"{P}.default is {P}.empty"))
        not_passed = keeps or any(known(st, fa.node, f"{k_} in kwargs", False) is not None for k_ in names)
        okf = okf and key_ok and absent and has_default and not_passed
    ck.check(okf, "G-PROV", "_apply_defaults|only-absent-parameters", fa.loc(), "defaults fill only parameters that were not passed", "_apply_defaults no longer restricts itself to absent parameters with a default")

    # ------------------------------------------------------------ wrappers
    f = ix.func(RH, "wraps")
    d = returned_def(f, "decorator")
    g = returned_def(d, "wrapper")
    func = d.node.args.args[0].arg
    ck.analysed(g)
    va, kwa = (g.node.args.vararg.arg if g.node.args.vararg else "?"), (g.node.args.kwarg.arg if g.node.args.kwarg else "?")
    # RESULT = FUNC(*CONV(ureg, sig, D[0], D[1], strict)[0], **CONV(...)[1]) with D = _apply_defaults(sig, *values, **kw)
    dflt = f"_apply_defaults(_S, {va}, {kwa})"
    conv_call = f"_C(ureg, _S, {dflt}[0], {dflt}[1], strict)"
    calls = []
    for x in walk_local(g.node):
        if isinstance(x, ast.Call) and isinstance(x.func, ast.Name) and x.func.id == func and len(x.args) == 1 and isinstance(x.args[0], ast.Starred) and len(x.keywords) == 1 and x.keywords[0].arg is None:
            a0, k0 = resolve(x.args[0].value, g.node), resolve(x.keywords[0].value, g.node)
            b0, b1 = shape.match(conv_call + "[0]", a0), shape.match(conv_call + "[1]", k0)
            if b0 is not None and b0 == b1 and is_signature(b0["_S"], g):
                calls.append((x, b0))
    ck.check(len(calls) == 1, "G-PROV", "wraps.wrapper|defaults-convert-call", g.loc(), "defaults -> conversion -> call with the converted values", "the wraps wrapper no longer applies defaults, converts and calls with the converted values")
    CONV = calls[0][1]["_C"] if calls else "_C"
    result = rnorm(calls[0][0], g.node) if calls else None
    named = (conv_call.replace("_C", CONV).replace("_S", calls[0][1]["_S"]) + "[2]") if calls else None
    is_result = lambda e: result is not None and rnorm(e, g.node) == result
    # scalar return: `ret` is the (units, is_reference) pair; None units -> bare result, else Quantity(result, units or derived units)
    qs = [x for x in walk_local(g.node) if isinstance(x, ast.Call) and norm(x.func) == "ureg.Quantity" and len(x.args) == 2 and is_result(x.args[0])]
    unit_is_none = lambda a: isinstance(a, ast.Compare) and isinstance(a.ops[0], ast.Is) and norm(a.comparators[0]) == "None" and rnorm(a.left, g.node) in ("ret[0]",)
    bare = [r for r in shape.returns_of(g.node) if is_result(r.value) and shape.holds_at(r, g.node, unit_is_none, True)]
    ck.check(len(bare) >= 1 and all(shape.holds_at(x, g.node, unit_is_none, False) for x in qs), "G-PROV", "wraps.wrapper|none-return-spec-passes-through", g.loc(), "ret=None returns the bare result", "a None return specification no longer passes the result through (or a result is wrapped although the specification is None)")
    is_reference = lambda a: rnorm(a, g.node) == "ret[1]"
    gdefs = defs_of(g)

    def unit_cases(e, at, depth=2):
        """which cases the units expression `e` (evaluated at `at`) covers correctly: 'ref' = units derived from the
        named values where the specification is known to be a reference, 'plain' = the declared units where it is
        known not to be; both for the conditional expression.  None if it is anything else."""
        u_ = resolve(e, g.node)
        if isinstance(u_, ast.IfExp):
            for p_, edge in shape.atoms(u_.test):
                ref_side, plain_side = (u_.body, u_.orelse) if edge == "t" else (u_.orelse, u_.body)
                if norm(p_) == "ret[1]" and shape.match("_replace_units(ret[0], _V)", ref_side) == {"_V": named} and norm(plain_side) == "ret[0]":
                    return {"ref", "plain"}
            return None
        if shape.match("_replace_units(ret[0], _V)", u_) == {"_V": named}:
            return {"ref"} if shape.holds_at(at, g.node, is_reference, True) else None
        if norm(u_) == "ret[0]":
            return {"plain"} if shape.holds_at(at, g.node, is_reference, False) else {"declared"}
        if isinstance(u_, ast.Name) and depth > 0 and u_.id in gdefs.defs and u_.id not in gdefs.params:
            # a name that starts as the declared units and is replaced by the derived units where the specification is a reference
            out = set()
            for v_, kind, st_ in reaching_defs(g, u_.id, at):
                k = {"declared"} if (kind == "unpack0" and rnorm(v_, g.node) == "ret") else unit_cases(v_, st_, depth - 1) if kind == "assign" else None
                if not k:
                    return None
                out |= k
            return {"ref", "plain"} if out == {"declared", "ref"} else None
        return None
    cases = [unit_cases(x.args[1], x) for x in qs]
    okq = bool(qs) and all(k_ and "declared" not in k_ for k_ in cases) and set().union(*[k_ for k_ in cases if k_]) == {"ref", "plain"}
    ck.check(okq, "G-PROV", "wraps.wrapper|result-rewrapped-in-declared-or-derived-units", g.loc(qs[0]) if qs else g.loc(), "result wrapped in declared (or derived) units", "the result is no longer re-wrapped in the declared units (derived from the named arguments when the specification is a reference)")
    # tuple results: ret.__class__(R if U is None else ureg.Quantity(R, U) for U, R in zip_longest(OUT, RESULT)) with
    # OUT = (_replace_units(S, NAMED) if REF else S for (S, REF) in ret)
    okt = False
    for r in shape.returns_of(g.node):
        v = resolve(r.value, g.node)
        if shape.match("ret.__class__(_G)", v) is None or not isinstance(v.args[0], (ast.GeneratorExp, ast.ListComp)) or len(v.args[0].generators) != 1:
            continue
        ge = v.args[0]
        t_, z_ = shape.match("(_U, _R)", ge.generators[0].target), shape.match("zip_longest(_O, _X)", ge.generators[0].iter)
        if t_ is None or z_ is None or z_["_X"] != result or ge.generators[0].ifs or not isinstance(ge.elt, ast.IfExp):
            continue
        elt_ok = any(norm(p_) == f"{t_['_U']} is None" and norm(ge.elt.body if e_ == "t" else ge.elt.orelse) == t_["_R"] and norm(ge.elt.orelse if e_ == "t" else ge.elt.body) == f"ureg.Quantity({t_['_R']}, {t_['_U']})"
                     for p_, e_ in shape.atoms(ge.elt.test))
        o_ = ge.generators[0].iter.args[0]
        out_ok = False
        if isinstance(o_, (ast.GeneratorExp, ast.ListComp)) and len(o_.generators) == 1 and not o_.generators[0].ifs and norm(o_.generators[0].iter) == "ret" and isinstance(o_.elt, ast.IfExp):
            s_ = shape.match("(_S, _F)", o_.generators[0].target)
            out_ok = s_ is not None and any(norm(p_) == s_["_F"] and shape.match(f"_replace_units({s_['_S']}, _V)", o_.elt.body if e_ == "t" else o_.elt.orelse) == {"_V": named} and norm(o_.elt.orelse if e_ == "t" else o_.elt.body) == s_["_S"]
                                            for p_, e_ in shape.atoms(o_.elt.test))
        okt = okt or (elt_ok and out_ok)
    ck.check(okt, "G-PROV", "wraps.wrapper|tuple-results-rewrapped-elementwise", g.loc(), "tuple results re-wrapped element-wise", "tuple results are no longer re-wrapped element-wise")
    cdefs = closure_defs(g, CONV)
    ck.check(bool(cdefs) and all(shape.match("_parse_wrap_args(args)", v) is not None for v, _ in cdefs), "G-PROV", "wraps|converter-from-declared-args", f.loc(), "converter built from the declared args", "wraps no longer builds its converter from the declared args")
    # every declared specification (each element of args, ret or each element of ret) is type-checked (str / Unit / None)
    # at decoration time, directly or through a local helper, and a wrong type raises TypeError
    tc = lambda a: isinstance(a, ast.Call) and call_name(a) == "isinstance" and len(a.args) == 2 and "ureg.Unit" in norm(a.args[1]) and "str" in norm(a.args[1])
    checked = set()
    helpers = {h.name: h for h in f.module.all_functions if h.parent is f}

    def what_is(e, at):
        """the roles of a checked expression: 'ret' itself, or, for the variable of the enclosing loop, what the loop
        walks: 'elements of args' / 'elements of ret', 'ret' for the one-element tuple (ret,), both sides of a
        conditional iterable"""
        if norm(e) in ("ret",):
            return {"ret"}
        it = enclosing_iteration(at, f.node)
        if it is None or not isinstance(e, ast.Name) or norm(it[0]) != e.id:
            return {norm(e)}

        def walked(x):
            x = resolve(x, f.node) if isinstance(x, ast.Name) and x.id not in ("args", "ret") else x
            if isinstance(x, ast.IfExp):
                return walked(x.body) | walked(x.orelse)
            if norm(x) in ("args", "ret"):
                return {f"elements of {norm(x)}"}
            if isinstance(x, (ast.Tuple, ast.List)) and len(x.elts) == 1 and norm(x.elts[0]) == "ret":
                return {"ret"}
            return {norm(e)}
        return walked(it[1])

    def type_checks(fn_node):
        out = []
        for r in walk_local(fn_node):
            if isinstance(r, ast.Raise) and "TypeError" in norm(r) and shape.holds_at(r, fn_node, tc, False):
                for a_, t_ in shape.facts_at(r, fn_node):
                    if tc(a_) and not t_:
                        out.append((a_.args[0], r))
        return out
    for v, r in type_checks(f.node):
        checked |= what_is(v, r)
    for nm, h in helpers.items():
        params = [a_.arg for a_ in h.node.args.args]
        for v, r in type_checks(h.node):
            if norm(v) in params:
                for c_ in walk_local(f.node):
                    if isinstance(c_, ast.Call) and isinstance(c_.func, ast.Name) and c_.func.id == nm and len(c_.args) > params.index(norm(v)):
                        checked |= what_is(c_.args[params.index(norm(v))], c_)
    ck.check({"elements of args", "ret", "elements of ret"} <= checked, "G-DOM", "wraps|specification-types-checked", f.loc(), "argument and return specifications must be str/Unit/None", f"the type check of the unit specifications is incomplete: only {sorted(checked)} are checked (args elements, ret and ret elements must be)")

    # ------------------------------------------------------------ check wrapper
    check_wrapper_order_rule(ck, ix)
    f = ix.func(RH, "check")
    d = returned_def(f, "decorator")
    g = returned_def(d, "wrapper")
    func = d.node.args.args[0].arg
    ck.analysed(g)
    cfg = cfg_of(g)
    # the checking loop: `for DIM, VALUE in zip(<declared dimensions>, <packed arguments>)`
    zl = [l for l in walk_local(g.node) if isinstance(l, ast.For) and shape.match("zip(_D, _A)", resolve(l.iter, g.node)) is not None and shape.match("(_D, _V)", l.target) is not None]
    ck.floor("G-EXH", len(zl), 1, "loop over zip(declared dimensions, arguments) in check.wrapper")
    for l in zl:
        DIM, VAL = (t_.id for t_ in l.target.elts)
        is_none = _is_none_test(DIM)
        is_check = lambda a: isinstance(a, ast.Call) and call_name(a) == "check" and a.args and norm(a.args[0]) == DIM
        calls = [x for x in ast.walk(l) if is_check(x)]
        ck.check(bool(calls) and all(shape.match(f"ureg.Quantity({VAL}).check({DIM})", resolve(x, g.node)) is not None for x in calls), "G-DOM", "check.wrapper|dimension-check-present", g.loc(l), "arguments are checked with Quantity.check(dim)", "the wrapper no longer checks arguments with .check(dim)")
        ok = all(shape.holds_at(x, g.node, is_none, False) for x in calls)
        # where the dimension is known to be None nothing may leave the loop
        ok = ok and not any(isinstance(x, (ast.Break, ast.Return, ast.Raise)) and shape.holds_at(x, g.node, is_none, True) for x in ast.walk(l))
        ck.check(ok, "G-EXH", "check.wrapper|none-skips-this-argument-only", g.loc(l), "a None dimension skips that argument only", "a None dimension is checked, or aborts the remaining checks (break/return/raise), instead of just skipping its argument")
        failed = shape.guard_edges(cfg, is_check, want=False)
        ck.check(bool(failed), "G-DOM", "check.wrapper|failed-check-tested", g.loc(l), "the outcome of .check(dim) is tested", "the outcome of .check(dim) is no longer tested")
        for (t, lab) in failed:
            p = edge_leads_only_to_raise(cfg, t, lab)
            ck.check(p is None, "G-DOM", "check.wrapper|failed-check-raises", g.loc(cfg.nodes[t].ast), "failed check raises DimensionalityError", "a failed dimension check does not raise", witness(cfg, p))
    va, kwa = (g.node.args.vararg.arg if g.node.args.vararg else "?"), (g.node.args.kwarg.arg if g.node.args.kwarg else "?")
    fwd = [r for r in shape.returns_of(g.node) if rnorm(r.value, g.node) == f"{func}(*{va}, **{kwa})"]
    ck.check(bool(fwd) and not find_stores(g.node, va) and not find_stores(g.node, kwa), "G-PROV", "check.wrapper|original-arguments-forwarded", g.loc(), "the original arguments are forwarded unchanged", "check no longer forwards the original arguments")
    # DIMS = the local of check that the wrapper zips with the arguments: one entry per element of `args`, None kept,
    # anything else parsed with ureg.get_dimensionality
    okd = False
    dims_names = {b["_D"] for l in zl for b in [shape.match("zip(_D, _A)", resolve(l.iter, g.node))] if b is not None}
    for nm in sorted(dims_names):
        for elt, v in (one_per_item(f, nm, "args") or []):
            if isinstance(elt, ast.IfExp):
                for p_, edge in shape.atoms(elt.test):
                    none_side, other_side = (elt.body, elt.orelse) if edge == "t" else (elt.orelse, elt.body)
                    okd = okd or (norm(p_) == f"{v} is None" and norm(none_side) == "None" and norm(other_side) == f"ureg.get_dimensionality({v})")
    ck.check(okd, "G-PROV", "check|declared-dimensions", f.loc(), "declared dimensions parsed, None kept", "check no longer parses each declared dimension with ureg.get_dimensionality (keeping None)")
    return EXPLANATION


def _eval3(e, env):
    """Kleene evaluation of a condition over the atoms in `env` (text of the positive atom -> bool); None = unknown"""
    if isinstance(e, ast.UnaryOp) and isinstance(e.op, ast.Not):
        v = _eval3(e.operand, env)
        return None if v is None else not v
    if isinstance(e, ast.BoolOp):
        vs = [_eval3(v, env) for v in e.values]
        if isinstance(e.op, ast.And):
            return False if any(v is False for v in vs) else True if all(v is True for v in vs) else None
        return True if any(v is True for v in vs) else False if all(v is False for v in vs) else None
    for pos, edge in shape.atoms(e):
        if norm(pos) in env:
            return env[norm(pos)] if edge == "t" else not env[norm(pos)]
    return None


def _consistent(fs, env):
    """the assignment `env` of the atoms does not contradict the facts fs = [(condition, truth)]"""
    return all(_eval3(a, env) in (None, t) for a, t in fs)


def facts_equal(x, y, fn):
    """two nodes execute under the same known conditions (same branch)"""
    fx = {(norm(a), t) for a, t in shape.facts_at(x, fn)}
    fy = {(norm(a), t) for a, t in shape.facts_at(y, fn)}
    return fx == fy
