"""C17 — wraps/check decorators hand over correct magnitudes and enforce dimensions."""
from __future__ import annotations

import ast

from ..flow import call_name, dotted, norm
from ..index import AnalysisError, walk_local
from ..lib import cfg_of, defs_of, edge_leads_only_to_raise, live, nodes_with, undominated, witness
from .C01 import check_wrapper_order_rule

RH = "pint.registry_helpers"

EXPLANATION = (
    "Static analysis (no execution): in wraps and check the parameter-count test dominates the creation of the wrapper "
    "(decoration time) and its failing edge raises TypeError; in _parse_wrap_args every path of the classification loop "
    "puts the index of a non-None specification into exactly one of the definition / dependent / unit index sets and "
    "None into none, a reference is a definition only for exponent 1 and a name not yet defined, dependent "
    "specifications must only use defined names; in _converter the first pass records named values and strips "
    "magnitudes, the dependent pass converts *every* value through ureg._convert to the units derived from the named "
    "values (no pass-through for bare numbers), the unit pass converts quantities and strings, raises for other values "
    "in strict mode and leaves them untouched otherwise, and keyword/default values are packed and unpacked by signature "
    "order; _apply_defaults fills only absent parameters; the wraps wrapper re-wraps the result in the declared or "
    "derived units (None passes through); the check wrapper skips None, pairs declared dimensions with arguments in "
    "signature order and raises DimensionalityError. Does not decide concrete magnitudes.")


def _paths(cfg, start_succ, stop):
    """All simple paths (node id lists) from the nodes in start_succ back to `stop` (loop header) or an exit."""
    out = []
    stack = [(s, [s]) for s in start_succ]
    while stack:
        n, path = stack.pop()
        if n == stop or n in (cfg.exit, cfg.rexit):
            out.append(path)
            continue
        for (v, lab) in cfg.succ[n]:
            if lab == "exc":
                continue
            if v in path and v != stop:
                continue
            stack.append((v, path + [v]))
        if len(out) > 500:
            break
    return out


def run(ck, ix, tier):
    # ------------------------------------------------------------ (a) decoration-time arity test
    for q, what in (("wraps", "args"), ("check", "dimensions")):
        f = ix.func(RH, q)
        dec = [g for g in f.module.all_functions if g.name == "decorator" and g.parent is f]
        if not dec:
            raise AnalysisError(f"{q}: decorator not found")
        d = dec[0]
        ck.analysed(d)
        cfg = cfg_of(d)
        tests = [n.id for n in cfg.nodes if n.kind == "test" and norm(n.ast).replace(" ", "") == f"len({what})!=count_params"]
        wr = [n.id for n in cfg.nodes if n.kind == "stmt" and isinstance(n.ast, ast.FunctionDef) and n.ast.name == "wrapper"]
        ck.check(bool(tests), "G-DOM", f"{q}|parameter-count-tested", d.loc(), "declared and actual parameter counts are compared", f"{q}: the comparison of the number of declared {what} with the function's parameters is gone")
        for w in wr:
            p = undominated(cfg, [w], tests)
            ck.check(p is None, "G-DOM", f"{q}|count-test-at-decoration-time", d.loc(cfg.nodes[w].ast), "the count test runs before the wrapper is created", "the wrapper is created without the parameter-count test", witness(cfg, p))
        for t in tests:
            p = edge_leads_only_to_raise(cfg, t, "t", also_forbid=wr)
            ck.check(p is None, "G-DOM", f"{q}|count-mismatch-raises", d.loc(cfg.nodes[t].ast), "a mismatch raises TypeError", "a parameter-count mismatch does not raise", witness(cfg, p))
        ck.check("count_params = len(sig.parameters)" in norm(d.node) and "sig = signature(func)" in norm(d.node), "G-PROV", f"{q}|count-from-signature", d.loc(), "count taken from the function's signature", f"{q}: count_params is no longer len(signature(func).parameters)")

    # ------------------------------------------------------------ (b) classification loop
    f = ix.func(RH, "_parse_wrap_args")
    ck.analysed(f)
    cfg = cfg_of(f)
    loops = [n for n in cfg.nodes if n.kind == "for" and "enumerate(args_as_uc)" in norm(n.ast)]
    if len(loops) != 1:
        raise AnalysisError("_parse_wrap_args: classification loop not found")
    lp = loops[0]
    body_first = [v for (v, lab) in cfg.succ[lp.id] if lab == "t"]
    sets = ("defs_args_ndx", "dependent_args_ndx", "unit_args_ndx")
    bad = []
    n_paths = 0
    for path in _paths(cfg, body_first, lp.id):
        n_paths += 1
        adds = []
        none_path = False
        for nid in path:
            a = cfg.nodes[nid].ast
            if cfg.nodes[nid].kind == "stmt" and isinstance(a, ast.Expr) and isinstance(a.value, ast.Call) and call_name(a.value) == "add" and dotted(a.value.func.value) in sets and norm(a.value.args[0]) == "ndx":
                adds.append(dotted(a.value.func.value))
            if cfg.nodes[nid].kind == "stmt" and isinstance(a, ast.Continue):
                none_path = True
        # the None path is the true edge of `arg is None`
        took_none = any(cfg.nodes[nid].kind == "test" and norm(cfg.nodes[nid].ast) == "arg is None" and (path[i + 1] if i + 1 < len(path) else None) in [v for (v, lab) in cfg.succ[nid] if lab == "t"] for i, nid in enumerate(path))
        if took_none:
            if adds:
                bad.append(("None specification is classified", adds))
        elif len(adds) != 1:
            bad.append((f"a non-None specification is added to {len(adds)} index sets", adds))
    ck.extra["classification_paths"] = n_paths
    ck.check(not bad and n_paths >= 4, "G-EXH", "_parse_wrap_args|every-index-classified-exactly-once", f.loc(lp.ast), f"{n_paths} paths: every non-None index lands in exactly one set, None in none",
             f"classification loop: {bad[:2]} (an argument would be converted twice, or not at all)")
    tests = [n for n in cfg.nodes if n.kind == "test" and "not in defs_args" in norm(n.ast)]
    ok = len(tests) == 1 and norm(tests[0].ast) == "value == 1 and key not in defs_args"
    ck.check(ok, "G-EXH", "_parse_wrap_args|definition-iff-exponent-1-and-new-name", f.loc(tests[0].ast) if tests else f.loc(), "a reference defines a name only with exponent 1 and when the name is new",
             f"`{norm(tests[0].ast) if tests else '?'}`: '=A**2' listed before '=A' would be taken as the definition of A")
    src = norm(f.node)
    ck.check("if not set(arg.keys()) <= defs_args" in src and "raise ValueError" in src, "G-DOM", "_parse_wrap_args|dependent-names-must-be-defined", f.loc(), "dependent specifications using undefined names are rejected", "the check that dependent specifications only use defined names is gone")
    ck.check("args_as_uc = [_to_units_container(arg, registry) for arg in args]" in src, "G-PROV", "_parse_wrap_args|specs-parsed-in-order", f.loc(), "specifications parsed positionally", "the positional parsing of specifications changed")
    f2 = ix.func(RH, "_to_units_container")
    ck.check("if isinstance(a, str) and '=' in a" in norm(f2.node) and "a.split('=', 1)[1]" in norm(f2.node), "G-PROV", "_to_units_container|reference-is-after-equals", f2.loc(), "'=X' denotes a reference to X", "_to_units_container no longer treats '=X' as a reference to X")
    f3 = ix.func(RH, "_replace_units")
    ck.check("q = q * values_by_name[arg_name] ** exponent" in norm(f3.node), "G-PROV", "_replace_units|product-of-named-values-to-exponents", f3.loc(), "derived units = product of named values ** exponent", "_replace_units no longer multiplies the named values raised to their exponents")

    # ------------------------------------------------------------ (c) _converter
    conv = [g for g in f.module.all_functions if g.name == "_converter" and g.parent is f]
    if not conv:
        raise AnalysisError("_converter not found")
    c = conv[0]
    ck.analysed(c)
    loops = {norm(l.iter): l for l in walk_local(c.node) if isinstance(l, ast.For)}
    l1, l2, l3 = loops.get("defs_args_ndx"), loops.get("dependent_args_ndx"), loops.get("unit_args_ndx")
    if not (l1 and l2 and l3):
        raise AnalysisError("_converter: the three passes were not found")
    s1 = norm(l1)
    ck.check("values_by_name[args_as_uc[ndx][0]] = value" in s1 and "values[ndx] = getattr(value, '_magnitude', value)" in s1, "G-PROV", "_converter|first-pass-records-and-strips", c.loc(l1), "named values recorded, magnitudes handed over", "the first pass no longer records the named value and hands over its magnitude")
    # dependent pass: unconditional conversion
    skips = [x for x in ast.walk(l2) if isinstance(x, (ast.Continue, ast.Break)) or (isinstance(x, ast.If) and not isinstance(x, ast.Assert))]
    calls = [x for x in ast.walk(l2) if isinstance(x, ast.Call) and call_name(x) == "_convert"]
    ck.check(not skips, "G-DOM", "_converter|dependent-pass-converts-every-value", c.loc(skips[0]) if skips else c.loc(l2), "every dependent argument is converted (bare numbers count as dimensionless)",
             f"`{norm(skips[0])[:60] if skips else ''}`: some dependent arguments skip the conversion: a bare number is passed through although the referenced argument is dimensional")
    ok = len(calls) == 1 and [norm(a) for a in calls[0].args] == ["getattr(value, '_magnitude', value)", "getattr(value, '_units', UnitsContainer({}))", "_replace_units(args_as_uc[ndx][0], values_by_name)"] and norm(calls[0].func) == "ureg._convert"
    ck.check(ok, "G-PROV", "_converter|dependent-pass-converts-to-derived-units", c.loc(l2), "converted from the value's own units (dimensionless for bare numbers) to the units derived from the named values", "the dependent pass no longer converts (magnitude, units-or-dimensionless) to _replace_units(spec, values_by_name)")
    # unit pass
    cfgc = cfg_of(c)
    s3 = norm(l3)
    ck.check("isinstance(values[ndx], ureg.Quantity)" in s3 and "ureg._convert(values[ndx]._magnitude, values[ndx]._units, args_as_uc[ndx][0])" in s3, "G-PROV", "_converter|quantities-converted-to-declared-units", c.loc(l3), "quantities converted to the declared units through ureg._convert", "quantities are no longer converted with ureg._convert(magnitude, units, declared units)")
    strict = [t for t in ast.walk(l3) if isinstance(t, ast.If) and norm(t.test) == "strict"]
    ok = len(strict) == 1 and not strict[0].orelse and any(isinstance(r, ast.Raise) and "ValueError" in norm(r) for r in ast.walk(strict[0]))
    ck.check(ok, "G-DOM", "_converter|strict-refuses-bare-numbers-nonstrict-passes", c.loc(l3), "strict: non-quantity, non-string values raise; non-strict: untouched", "the strict/non-strict handling of bare values changed (strict must raise, non-strict must leave the value alone)")
    if strict:
        inner = [t for t in strict[0].body if isinstance(t, ast.If)]
        ok = bool(inner) and "isinstance(values[ndx], str)" in norm(inner[0].test) and "ureg.parse_expression(values[ndx])" in norm(inner[0]) and any(isinstance(r, ast.Raise) for r in ast.walk(ast.Module(body=inner[0].orelse, type_ignores=[])))
        ck.check(ok, "G-DOM", "_converter|strict-strings-parsed-others-raise", c.loc(strict[0]), "strings are parsed, anything else raises", "in strict mode strings are no longer parsed / other values no longer raise")
        st = [n.id for n in cfgc.nodes if n.kind == "test" and norm(n.ast) == "isinstance(values[ndx], str)"]
        loop_heads = [n.id for n in cfgc.nodes if n.kind == "for"]
        for t in st:
            p = edge_leads_only_to_raise(cfgc, t, "f", also_forbid=loop_heads)
            ck.check(p is None, "G-DOM", "_converter|strict-non-quantity-non-string-raises", c.loc(cfgc.nodes[t].ast), "strict mode: a value that is neither Quantity nor str raises ValueError",
                     "in strict mode a bare number reaches the wrapped function unconverted", witness(cfgc, p))
    # packing by signature order
    packs = sorted([l for l in walk_local(c.node) if isinstance(l, ast.For) and norm(l.iter) == "enumerate(sig.parameters)"], key=lambda l: l.lineno)
    ok = len(packs) == 2 and "values.append(kw[param_name])" in norm(packs[0]) and "kw[param_name] = values[i]" in norm(packs[1]) and all("if i >= len_initial_values" in norm(l) for l in packs)
    ck.check(ok, "G-PROV", "_converter|keyword-values-packed-and-unpacked-in-signature-order", c.loc(), "keyword/default values appended and written back by walking sig.parameters", "keyword/default values are no longer packed/unpacked by signature position")
    ck.check("return (values[:len_initial_values], kw, values_by_name)" in norm(c.node), "G-PROV", "_converter|returns-positional-keywords-named", c.loc(), "returns (positional, keywords, named values)", "the converter's return triple changed")
    fa = ix.func(RH, "_apply_defaults")
    ck.analysed(fa)
    src = norm(fa.node)
    ck.check("i >= len(args) and param.default != Parameter.empty and (param.name not in kwargs)" in src and "kwargs[param.name] = param.default" in src, "G-PROV", "_apply_defaults|only-absent-parameters", fa.loc(), "defaults fill only parameters that were not passed", "_apply_defaults no longer restricts itself to absent parameters with a default")

    # ------------------------------------------------------------ wrappers
    f = ix.func(RH, "wraps")
    w = [g for g in f.module.all_functions if g.name == "wrapper" and g.qualname.startswith(f.qualname)]
    for g in w:
        ck.analysed(g)
        src = norm(g.node)
        ck.check("values, kw = _apply_defaults(sig, values, kw)" in src and "converter(ureg, sig, values, kw, strict)" in src and "result = func(*new_values, **new_kw)" in src, "G-PROV", "wraps.wrapper|defaults-convert-call", g.loc(), "defaults -> conversion -> call with the converted values", "the wraps wrapper no longer applies defaults, converts and calls with the converted values")
        ck.check("if ret[0] is None:\n    return result" in src.replace("        ", "    ").replace("            ", "    ") or "if ret[0] is None" in src, "G-PROV", "wraps.wrapper|none-return-spec-passes-through", g.loc(), "ret=None returns the bare result", "a None return specification no longer passes the result through")
        ck.check("ureg.Quantity(result, _replace_units(ret[0], values_by_name) if ret[1] else ret[0])" in src, "G-PROV", "wraps.wrapper|result-rewrapped-in-declared-or-derived-units", g.loc(), "result wrapped in declared (or derived) units", "the result is no longer re-wrapped in the declared/derived return units")
        ck.check("zip_longest(out_units, result)" in src and "res if unit is None else ureg.Quantity(res, unit)" in src, "G-PROV", "wraps.wrapper|tuple-results-rewrapped-elementwise", g.loc(), "tuple results re-wrapped element-wise", "tuple results are no longer re-wrapped element-wise")
    ck.check("converter = _parse_wrap_args(args)" in norm(f.node), "G-PROV", "wraps|converter-from-declared-args", f.loc(), "converter built from the declared args", "wraps no longer builds its converter from the declared args")
    tests = [t for t in walk_local(f.node) if isinstance(t, ast.If) and "isinstance(arg, (ureg.Unit, str))" in norm(t.test)]
    ck.check(len(tests) >= 2 and all(any(isinstance(r, ast.Raise) and "TypeError" in norm(r) for r in ast.walk(t)) for t in tests), "G-DOM", "wraps|specification-types-checked", f.loc(), "specifications must be str/Unit/None", "the type check of the unit specifications is gone")
    # check wrapper
    check_wrapper_order_rule(ck, ix)
    f = ix.func(RH, "check")
    for g in [g for g in f.module.all_functions if g.name == "wrapper" and g.qualname.startswith(f.qualname)]:
        ck.analysed(g)
        cfg = cfg_of(g)
        nt = [n.id for n in cfg.nodes if n.kind == "test" and norm(n.ast) == "dim is None"]
        ok = bool(nt) and all(all(isinstance(cfg.nodes[v].ast, ast.Continue) for (v, lab) in cfg.succ[t] if lab == "t") for t in nt)
        ck.check(ok, "G-EXH", "check.wrapper|none-skips-this-argument-only", g.loc(), "None skips the argument and continues with the next", "a None dimension no longer just skips its argument (break/return would skip the remaining checks)")
        ct = [n.id for n in cfg.nodes if n.kind == "test" and "check(dim)" in norm(n.ast)]
        for t in ct:
            p = edge_leads_only_to_raise(cfg, t, "t" if isinstance(cfg.nodes[t].ast, ast.UnaryOp) else "f")
            ck.check(p is None, "G-DOM", "check.wrapper|failed-check-raises", g.loc(cfg.nodes[t].ast), "failed check raises DimensionalityError", "a failed dimension check does not raise", witness(cfg, p))
        ck.check(bool(ct), "G-DOM", "check.wrapper|dimension-check-present", g.loc(), "arguments are checked with Quantity.check(dim)", "the wrapper no longer checks arguments with .check(dim)")
        ck.check("return func(*args, **kwargs)" in norm(g.node), "G-PROV", "check.wrapper|original-arguments-forwarded", g.loc(), "the original arguments are forwarded unchanged", "check no longer forwards the original arguments")
    src = norm(f.node)
    ck.check("ureg.get_dimensionality(dim) if dim is not None else None for dim in args" in src, "G-PROV", "check|declared-dimensions", f.loc(), "declared dimensions parsed, None kept", "check no longer parses the declared dimensions (keeping None)")
    return EXPLANATION
