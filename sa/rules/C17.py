"""C17 — wraps/check decorators hand over correct magnitudes and enforce dimensions."""
from __future__ import annotations

import ast

from ..flow import call_name, dotted, norm
from ..index import AnalysisError, walk_local
from ..lib import cfg_of, defs_of, edge_leads_only_to_raise, live, nodes_with, undominated, witness
from .C01 import check_wrapper_order_rule

RH = "pint.registry_helpers"

EXPLANATION = (
    "Static analysis (no execution): in wraps and check the parameter-count test dominates the creation of the wrapper "
    "(decoration time) and its failing edge raises TypeError; in _parse_wrap_args every path of the classification loop "
    "puts the index of a non-None specification into exactly one of the definition / dependent / unit index sets and "
    "None into none, a reference is a definition only for exponent 1 and a name not yet defined, dependent "
    "specifications must only use defined names; in _converter the first pass records named values and strips "
    "magnitudes, the dependent pass converts *every* value through ureg._convert to the units derived from the named "
    "values (no pass-through for bare numbers), the unit pass converts quantities and strings, raises for other values "
    "in strict mode and leaves them untouched otherwise, and keyword/default values are packed and unpacked by signature "
    "order; _apply_defaults fills only absent parameters; the wraps wrapper re-wraps the result in the declared or "
    "derived units (None passes through); the check wrapper skips None, pairs declared dimensions with arguments in "
    "signature order and raises DimensionalityError. Does not decide concrete magnitudes.")


def _paths(cfg, start_succ, stop):
    """All simple paths (node id lists) from the nodes in start_succ back to `stop` (loop header) or an exit."""
    out = []
    stack = [(s, [s]) for s in start_succ]
    while stack:
        n, path = stack.pop()
        if n == stop or n in (cfg.exit, cfg.rexit):
            out.append(path)
            continue
        for (v, lab) in cfg.succ[n]:
            if lab == "exc":
                continue
            if v in path and v != stop:
                continue
            stack.append((v, path + [v]))
        if len(out) > 500:
            break
    return out


def run(ck, ix, tier):
    # ------------------------------------------------------------ (a) decoration-time arity test
    for q, what in (("wraps", "args"), ("check", "dimensions")):
        f = ix.func(RH, q)
        dec = [g for g in f.module.all_functions if g.name == "decorator" and g.parent is f]
        if not dec:
            raise AnalysisError(f"{q}: decorator not found")
        d = dec[0]
        ck.analysed(d)
        cfg = cfg_of(d)
        tests = [n.id for n in cfg.nodes if n.kind == "test" and norm(n.ast).replace(" ", "") == f"len({what})!=count_params"]
        wr = [n.id for n in cfg.nodes if n.kind == "stmt" and isinstance(n.ast, ast.FunctionDef) and n.ast.name == "wrapper"]
        ck.check(bool(tests), "G-DOM", f"{q}|parameter-count-tested", d.loc(), "declared and actual parameter counts are compared", f"{q}: the comparison of the number of declared {what} with the function's parameters is gone")
        for w in wr:
            p = undominated(cfg, [w], tests)
            ck.check(p is None, "G-DOM", f"{q}|count-test-at-decoration-time", d.loc(cfg.nodes[w].ast), "the count test runs before the wrapper is created", "the wrapper is created without the parameter-count test", witness(cfg, p))
        for t in tests:
            p = edge_leads_only_to_raise(cfg, t, "t", also_forbid=wr)
            ck.check(p is None, "G-DOM", f"{q}|count-mismatch-raises", d.loc(cfg.nodes[t].ast), "a mismatch raises TypeError", "a parameter-count mismatch does not raise", witness(cfg, p))
        rs = defs_of(d).roots(ast.Name(id="count_params", ctx=ast.Load()))
        ck.check("call:len" in rs and "call:signature" in rs and "func" in rs, "G-PROV", f"{q}|count-from-signature", d.loc(), "count taken from the function's signature", f"{q}: count_params is no longer the number of parameters of signature(func) (derives from {sorted(rs)})")

    # ------------------------------------------------------------ (b) classification loop
    f = ix.func(RH, "_parse_wrap_args")
    ck.analysed(f)
    cfg = cfg_of(f)
    loops = [n for n in cfg.nodes if n.kind == "for" and "enumerate(args_as_uc)" in norm(n.ast)]
    if len(loops) != 1:
        raise AnalysisError("_parse_wrap_args: classification loop not found")
    lp = loops[0]
    body_first = [v for (v, lab) in cfg.succ[lp.id] if lab == "t"]
    from .. import shape
    tgt = lp.stmt.target if hasattr(lp, "stmt") and isinstance(lp.stmt, ast.For) else None
    spec_var = tgt.elts[1].elts[0].id if isinstance(tgt, ast.Tuple) and len(tgt.elts) == 2 and isinstance(tgt.elts[1], ast.Tuple) and isinstance(tgt.elts[1].elts[0], ast.Name) else "arg"
    none_edges = set(shape.guard_edges(cfg, lambda a: isinstance(a, ast.Compare) and isinstance(a.ops[0], ast.Is) and norm(a.left) == spec_var and norm(a.comparators[0]) == "None"))
    sets = ("defs_args_ndx", "dependent_args_ndx", "unit_args_ndx")
    bad = []
    n_paths = 0
    for path in _paths(cfg, body_first, lp.id):
        n_paths += 1
        adds = []
        none_path = False
        for nid in path:
            a = cfg.nodes[nid].ast
            if cfg.nodes[nid].kind == "stmt" and isinstance(a, ast.Expr) and isinstance(a.value, ast.Call) and call_name(a.value) == "add" and dotted(a.value.func.value) in sets and norm(a.value.args[0]) == "ndx":
                adds.append(dotted(a.value.func.value))
            if cfg.nodes[nid].kind == "stmt" and isinstance(a, ast.Continue):
                none_path = True
        # the None path is the true edge of `arg is None`
        took_none = any((nid, lab) in none_edges for i, nid in enumerate(path) for (v, lab) in cfg.succ[nid] if i + 1 < len(path) and v == path[i + 1])
        if took_none:
            if adds:
                bad.append(("None specification is classified", adds))
        elif len(adds) != 1:
            bad.append((f"a non-None specification is added to {len(adds)} index sets", adds))
    ck.extra["classification_paths"] = n_paths
    ck.check(not bad and n_paths >= 4, "G-EXH", "_parse_wrap_args|every-index-classified-exactly-once", f.loc(lp.ast), f"{n_paths} paths: every non-None index lands in exactly one set, None in none",
             f"classification loop: {bad[:2]} (an argument would be converted twice, or not at all)")
    tests = [n for n in cfg.nodes if n.kind == "test" and "in defs_args" in norm(n.ast)]
    # the single (name, exponent) pair of a one-name reference, whatever the locals are called
    pair = [a for a in walk_local(f.node) if isinstance(a, ast.Assign) and isinstance(a.targets[0], (ast.List, ast.Tuple)) and len(a.targets[0].elts) == 1 and isinstance(a.targets[0].elts[0], ast.Tuple)
            and len(a.targets[0].elts[0].elts) == 2 and norm(a.value) == f"{spec_var}.items()"]
    kname, vname = (pair[0].targets[0].elts[0].elts[0].id, pair[0].targets[0].elts[0].elts[1].id) if pair else ("key", "value")
    ok = False
    if len(tests) == 1:
        facts = {(norm(p_), truth) for p_, truth in shape.conjuncts(tests[0].ast, "t")}
        ok = facts == {(f"{vname} == 1", True), (f"{kname} in defs_args", False)}
    ck.check(ok, "G-EXH", "_parse_wrap_args|definition-iff-exponent-1-and-new-name", f.loc(tests[0].ast) if tests else f.loc(), "a reference defines a name only with exponent 1 and when the name is new",
             f"`{norm(tests[0].ast) if tests else '?'}`: '=A**2' listed before '=A' would be taken as the definition of A")
    src = norm(f.node)
    ck.check(("<= defs_args" in src or "issubset(defs_args)" in src) and "raise ValueError" in src, "G-DOM", "_parse_wrap_args|dependent-names-must-be-defined", f.loc(), "dependent specifications using undefined names are rejected", "the check that dependent specifications only use defined names is gone")
    ck.check("args_as_uc = [_to_units_container(arg, registry) for arg in args]" in src, "G-PROV", "_parse_wrap_args|specs-parsed-in-order", f.loc(), "specifications parsed positionally", "the positional parsing of specifications changed")
    f2 = ix.func(RH, "_to_units_container")
    ck.check("if isinstance(a, str) and '=' in a" in norm(f2.node) and "a.split('=', 1)[1]" in norm(f2.node), "G-PROV", "_to_units_container|reference-is-after-equals", f2.loc(), "'=X' denotes a reference to X", "_to_units_container no longer treats '=X' as a reference to X")
    f3 = ix.func(RH, "_replace_units")
    ck.check("q = q * values_by_name[arg_name] ** exponent" in norm(f3.node), "G-PROV", "_replace_units|product-of-named-values-to-exponents", f3.loc(), "derived units = product of named values ** exponent", "_replace_units no longer multiplies the named values raised to their exponents")

    # ------------------------------------------------------------ (c) _converter
    conv = [g for g in f.module.all_functions if g.name == "_converter" and g.parent is f]
    if not conv:
        raise AnalysisError("_converter not found")
    c = conv[0]
    ck.analysed(c)
    loops = {norm(l.iter): l for l in walk_local(c.node) if isinstance(l, ast.For)}
    l1, l2, l3 = loops.get("defs_args_ndx"), loops.get("dependent_args_ndx"), loops.get("unit_args_ndx")
    if not (l1 and l2 and l3):
        raise AnalysisError("_converter: the three passes were not found")
    s1 = norm(l1)
    ck.check("values_by_name[args_as_uc[ndx][0]] = value" in s1 and "values[ndx] = getattr(value, '_magnitude', value)" in s1, "G-PROV", "_converter|first-pass-records-and-strips", c.loc(l1), "named values recorded, magnitudes handed over", "the first pass no longer records the named value and hands over its magnitude")
    # dependent pass: unconditional conversion
    skips = [x for x in ast.walk(l2) if isinstance(x, (ast.Continue, ast.Break)) or (isinstance(x, ast.If) and not isinstance(x, ast.Assert))]
    calls = [x for x in ast.walk(l2) if isinstance(x, ast.Call) and call_name(x) == "_convert"]
    ck.check(not skips, "G-DOM", "_converter|dependent-pass-converts-every-value", c.loc(skips[0]) if skips else c.loc(l2), "every dependent argument is converted (bare numbers count as dimensionless)",
             f"`{norm(skips[0])[:60] if skips else ''}`: some dependent arguments skip the conversion: a bare number is passed through although the referenced argument is dimensional")
    ok = len(calls) == 1 and [norm(a) for a in calls[0].args] == ["getattr(value, '_magnitude', value)", "getattr(value, '_units', UnitsContainer({}))", "_replace_units(args_as_uc[ndx][0], values_by_name)"] and norm(calls[0].func) == "ureg._convert"
    ck.check(ok, "G-PROV", "_converter|dependent-pass-converts-to-derived-units", c.loc(l2), "converted from the value's own units (dimensionless for bare numbers) to the units derived from the named values", "the dependent pass no longer converts (magnitude, units-or-dimensionless) to _replace_units(spec, values_by_name)")
    # unit pass
    cfgc = cfg_of(c)
    from .. import shape
    idx = l3.target.id if isinstance(l3.target, ast.Name) else "ndx"
    is_qty = lambda a: isinstance(a, ast.Call) and call_name(a) == "isinstance" and len(a.args) == 2 and "Quantity" in norm(a.args[1])
    is_str = lambda a: isinstance(a, ast.Call) and call_name(a) == "isinstance" and len(a.args) == 2 and norm(a.args[1]) == "str"
    is_strict = lambda a: isinstance(a, ast.Name) and a.id == "strict"
    convs = [x for x in ast.walk(l3) if isinstance(x, ast.Call) and call_name(x) == "_convert" and norm(x.func) == "ureg._convert"]
    okc = len(convs) >= 1 and all(len(x.args) == 3 and not x.keywords for x in convs)   # in particular no inplace=True: the caller's quantity must not be rescaled
    convs = [x for x in convs if len(x.args) == 3]
    for x in convs:
        m_, u_, d_ = (shape.resolve(a_, c.node) for a_ in x.args)
        src_ok = isinstance(m_, ast.Attribute) and isinstance(u_, ast.Attribute) and m_.attr == "_magnitude" and u_.attr == "_units" and norm(m_.value) == norm(u_.value) \
            and norm(m_.value) in (f"values[{idx}]", f"ureg.parse_expression(values[{idx}])")
        okc = okc and src_ok and norm(d_) == f"args_as_uc[{idx}][0]"
        par = getattr(x, "_parent", None)
        okc = okc and isinstance(par, ast.Assign) and norm(par.targets[0]) == f"values[{idx}]"
    ck.check(okc and any(shape.holds_at(x, c.node, is_qty, True) for x in convs), "G-PROV", "_converter|quantities-converted-to-declared-units", c.loc(l3), "quantities (and parsed strings) converted to the declared units through ureg._convert and stored back",
             "quantities are no longer converted with ureg._convert(own magnitude, own units, declared units of this argument) and stored back in place")
    raises = [r for r in ast.walk(l3) if isinstance(r, ast.Raise) and not shape.dead(r, c.node)]
    okr = len(raises) >= 1 and all("ValueError" in norm(r) and shape.holds_at(r, c.node, is_strict, True) and shape.holds_at(r, c.node, is_qty, False) and shape.holds_at(r, c.node, is_str, False) for r in raises)
    writes = [a_ for a_ in ast.walk(l3) if isinstance(a_, ast.Assign) and norm(a_.targets[0]) == f"values[{idx}]"]
    okw = all(shape.holds_at(a_, c.node, is_qty, True) or (shape.holds_at(a_, c.node, is_strict, True) and shape.holds_at(a_, c.node, is_qty, False)) for a_ in writes)
    ck.check(okr and okw, "G-DOM", "_converter|strict-refuses-bare-numbers-nonstrict-passes", c.loc(l3), "strict: non-quantity, non-string values raise; non-strict: untouched",
             "the strict/non-strict handling of bare values changed (strict must raise for values that are neither Quantity nor str, non-strict must leave bare values alone)")
    parses = [x for x in ast.walk(l3) if isinstance(x, ast.Call) and call_name(x) == "parse_expression"]
    ck.check(len(parses) >= 1 and all(shape.holds_at(x, c.node, is_strict, True) and shape.holds_at(x, c.node, is_qty, False) for x in parses), "G-DOM", "_converter|strict-strings-parsed-others-raise", c.loc(l3), "in strict mode strings are parsed", "strings are no longer parsed only in strict mode for non-quantities")
    # keyword/default values are appended to `values` and written back in signature order, for the parameters beyond the positional ones
    dfc = defs_of(c)
    app = [x for x in walk_local(c.node) if isinstance(x, ast.Call) and call_name(x) == "append" and norm(x.func.value) == "values" and x.args and isinstance(x.args[0], ast.Subscript) and norm(x.args[0].value) == "kw"]
    back = [a_ for a_ in walk_local(c.node) if isinstance(a_, ast.Assign) and isinstance(a_.targets[0], ast.Subscript) and norm(a_.targets[0].value) == "kw" and isinstance(a_.value, ast.Subscript) and norm(a_.value.value) == "values"]
    def from_sig(node):
        cur = node
        while cur is not None and not isinstance(cur, ast.For):
            cur = getattr(cur, "_parent", None)
        if cur is None:
            return False
        r_ = dfc.roots(cur.iter) | {norm(cur.iter)}
        whole = " ".join(sorted(r_)) + " " + norm(cur)
        return "sig.parameters" in whole and "len_initial_values" in whole
    ok = len(app) == 1 and len(back) == 1 and from_sig(app[0]) and from_sig(back[0]) and norm(app[0].args[0].slice) == norm(back[0].targets[0].slice)
    ck.check(ok, "G-PROV", "_converter|keyword-values-packed-and-unpacked-in-signature-order", c.loc(), "keyword/default values appended and written back by walking sig.parameters beyond the positional ones", "keyword/default values are no longer packed/unpacked by signature position")
    ck.check("return (values[:len_initial_values], kw, values_by_name)" in norm(c.node), "G-PROV", "_converter|returns-positional-keywords-named", c.loc(), "returns (positional, keywords, named values)", "the converter's return triple changed")
    fa = ix.func(RH, "_apply_defaults")
    ck.analysed(fa)
    src = norm(fa.node)
    ck.check("i >= len(args) and param.default != Parameter.empty and (param.name not in kwargs)" in src and "kwargs[param.name] = param.default" in src, "G-PROV", "_apply_defaults|only-absent-parameters", fa.loc(), "defaults fill only parameters that were not passed", "_apply_defaults no longer restricts itself to absent parameters with a default")

    # ------------------------------------------------------------ wrappers
    f = ix.func(RH, "wraps")
    w = [g for g in f.module.all_functions if g.name == "wrapper" and g.qualname.startswith(f.qualname)]
    for g in w:
        ck.analysed(g)
        src = norm(g.node)
        ck.check("values, kw = _apply_defaults(sig, values, kw)" in src and "converter(ureg, sig, values, kw, strict)" in src and "result = func(*new_values, **new_kw)" in src, "G-PROV", "wraps.wrapper|defaults-convert-call", g.loc(), "defaults -> conversion -> call with the converted values", "the wraps wrapper no longer applies defaults, converts and calls with the converted values")
        from .. import shape as _sh
        # scalar return: `ret` is the (units, is_reference) pair; None units -> bare result, else Quantity(result, units or derived units)
        qs = [x for x in walk_local(g.node) if isinstance(x, ast.Call) and norm(x.func) == "ureg.Quantity" and len(x.args) == 2 and norm(x.args[0]) == "result"]
        unit_is_none = lambda a: isinstance(a, ast.Compare) and isinstance(a.ops[0], ast.Is) and norm(a.comparators[0]) == "None" and _sh.rnorm(a.left, g.node) in ("ret[0]",)
        bare = [r for r in _sh.returns_of(g.node) if norm(r.value) == "result" and _sh.holds_at(r, g.node, unit_is_none, True)]
        ck.check(len(bare) >= 1 and all(_sh.holds_at(x, g.node, unit_is_none, False) for x in qs), "G-PROV", "wraps.wrapper|none-return-spec-passes-through", g.loc(), "ret=None returns the bare result", "a None return specification no longer passes the result through (or a result is wrapped although the specification is None)")
        okq = len(qs) == 1
        if okq:
            u_ = _sh.resolve(qs[0].args[1], g.node)
            okq = isinstance(u_, ast.IfExp) and norm(u_.test) == "ret[1]" and _sh.match("_replace_units(ret[0], _V)", u_.body) is not None and "values_by_name" in norm(qs[0]) + norm(g.node) and norm(u_.orelse) == "ret[0]"
        ck.check(okq, "G-PROV", "wraps.wrapper|result-rewrapped-in-declared-or-derived-units", g.loc(qs[0]) if qs else g.loc(), "result wrapped in declared (or derived) units", "the result is no longer re-wrapped in the declared units (derived from the named arguments when the specification is a reference)")
        ck.check("zip_longest(out_units, result)" in src and "res if unit is None else ureg.Quantity(res, unit)" in src, "G-PROV", "wraps.wrapper|tuple-results-rewrapped-elementwise", g.loc(), "tuple results re-wrapped element-wise", "tuple results are no longer re-wrapped element-wise")
    ck.check("converter = _parse_wrap_args(args)" in norm(f.node), "G-PROV", "wraps|converter-from-declared-args", f.loc(), "converter built from the declared args", "wraps no longer builds its converter from the declared args")
    # every declared specification (each element of args, ret or each element of ret) is type-checked (str / Unit / None)
    # at decoration time, directly or through a local helper, and a wrong type raises TypeError
    from .. import shape as _sh2
    tc = lambda a: isinstance(a, ast.Call) and call_name(a) == "isinstance" and len(a.args) == 2 and "ureg.Unit" in norm(a.args[1]) and "str" in norm(a.args[1])
    checked = set()
    helpers = {g.name: g for g in f.module.all_functions if g.parent is f}
    def type_checks(fn_node):
        out = []
        for r in ast.walk(fn_node):
            if isinstance(r, ast.Raise) and "TypeError" in norm(r) and _sh2.holds_at(r, fn_node, tc, False):
                for a_, t_ in _sh2.facts_at(r, fn_node):
                    if tc(a_) and not t_:
                        out.append(norm(a_.args[0]))
        return out
    for v in type_checks(f.node):
        checked.add(v)
    for nm, g in helpers.items():
        params = [a_.arg for a_ in g.node.args.args]
        for v in type_checks(g.node):
            if v in params:
                for c_ in walk_local(f.node):
                    if isinstance(c_, ast.Call) and isinstance(c_.func, ast.Name) and c_.func.id == nm and len(c_.args) > params.index(v):
                        checked.add(norm(c_.args[params.index(v)]))
    ck.check({"arg", "ret"} <= checked, "G-DOM", "wraps|specification-types-checked", f.loc(), "argument and return specifications must be str/Unit/None", f"the type check of the unit specifications is incomplete: only {sorted(checked)} are checked (args elements, ret and ret elements must be)")
    # check wrapper
    check_wrapper_order_rule(ck, ix)
    f = ix.func(RH, "check")
    for g in [g for g in f.module.all_functions if g.name == "wrapper" and g.qualname.startswith(f.qualname)]:
        ck.analysed(g)
        cfg = cfg_of(g)
        from .. import shape as _s3
        is_none = lambda a: isinstance(a, ast.Compare) and isinstance(a.ops[0], ast.Is) and norm(a.comparators[0]) == "None" and norm(a.left) == "dim"
        is_check = lambda a: isinstance(a, ast.Call) and call_name(a) == "check" and a.args and norm(a.args[0]) == "dim"
        calls = [x for x in walk_local(g.node) if is_check(x)]
        ck.floor("G-EXH", len(calls), 1, "dimension check calls in check.wrapper")
        ok = all(_s3.holds_at(x, g.node, is_none, False) for x in calls)
        for t in [t for t in walk_local(g.node) if isinstance(t, ast.If)]:
            for p_, edge in _s3.atoms(t.test):
                if is_none(p_):
                    side = t.body if edge == "t" else t.orelse
                    ok = ok and not any(isinstance(x, (ast.Break, ast.Return, ast.Raise)) for st in side for x in ast.walk(st))
        ck.check(ok, "G-EXH", "check.wrapper|none-skips-this-argument-only", g.loc(), "a None dimension skips that argument only", "a None dimension is checked, or aborts the remaining checks (break/return/raise), instead of just skipping its argument")
        failed = _s3.guard_edges(cfg, is_check, want=False)
        ck.check(bool(failed), "G-DOM", "check.wrapper|failed-check-tested", g.loc(), "the outcome of .check(dim) is tested", "the outcome of .check(dim) is no longer tested")
        for (t, lab) in failed:
            p = edge_leads_only_to_raise(cfg, t, lab)
            ck.check(p is None, "G-DOM", "check.wrapper|failed-check-raises", g.loc(cfg.nodes[t].ast), "failed check raises DimensionalityError", "a failed dimension check does not raise", witness(cfg, p))
        ck.check(bool(calls), "G-DOM", "check.wrapper|dimension-check-present", g.loc(), "arguments are checked with Quantity.check(dim)", "the wrapper no longer checks arguments with .check(dim)")
        ck.check("return func(*args, **kwargs)" in norm(g.node), "G-PROV", "check.wrapper|original-arguments-forwarded", g.loc(), "the original arguments are forwarded unchanged", "check no longer forwards the original arguments")
    src = norm(f.node)
    from .. import shape as _s4
    okd = False
    for lc in [x for x in walk_local(f.node) if isinstance(x, ast.ListComp) and norm(x.generators[0].iter) == "args" and isinstance(x.elt, ast.IfExp)]:
        v = norm(lc.generators[0].target)
        for p_, edge in _s4.atoms(lc.elt.test):
            none_side, other_side = (lc.elt.body, lc.elt.orelse) if edge == "t" else (lc.elt.orelse, lc.elt.body)
            okd = okd or (norm(p_) == f"{v} is None" and norm(none_side) == "None" and norm(other_side) == f"ureg.get_dimensionality({v})")
    ck.check(okd, "G-PROV", "check|declared-dimensions", f.loc(), "declared dimensions parsed, None kept", "check no longer parses each declared dimension with ureg.get_dimensionality (keeping None)")
    return EXPLANATION
