"""C19 — measurements carry uncertainty consistently through conversion and arithmetic."""
from __future__ import annotations

import ast
import re

from .. import lib, shape
from ..flow import Defs, call_name, norm
from ..index import AnalysisError, walk_local
from ..lib import cfg_of, defs_of, edge_leads_only_to_raise, live, nodes_with, witness
from .C07 import _alternatives, _flow_into, _m, _reaches, _rm, exponent_sign_sets, plus_minus_sign_rewritten, tokenizer_helpers
from .C09 import interface_rule

MO = "pint.facets.measurement.objects"
PE = "pint.pint_eval"

EXPLANATION = (
    "Static analysis (no execution); only these structural clauses of C19 are decided: in Measurement.__new__ the "
    "negative-error gate dominates ufloat(value, error) and raises, a Quantity error is converted to the value's units "
    "before being combined, and an uncertain magnitude passed in is kept intact (correlations survive); plus_minus "
    "converts a Quantity error to the quantity's units, refuses a Quantity as relative error, scales a relative error "
    "by abs(magnitude) only (its sign is left for the negative-error gate) and builds the Measurement with the same "
    "units; value/error/rel read nominal_value/std_dev; _to_magnitude maps a Measurement to ufloat(value, error); '+/-' "
    "has the highest operator priority and evaluates with ufloat; the uncertainty tokenizer folds a common exponent into "
    "both nominal value and standard deviation except for nan and zero mantissas, the exponent look-ahead and its "
    "consumer accept the same signs, ± is rewritten to +/-; every built-in formatter implements format_uncertainty and "
    "format_measurement; __format__ delegates to the registry formatter. Not decided (most of the property): error "
    "scaling under conversion, first-order propagation, tokenizer look-ahead correctness, rendered strings.")
EXPLANATION += ' Also decided (rules added after the second round of seeded changes): token conservation and look-ahead offset agreement of the uncertainty tokenizer; to_compact chooses the prefix from the (nominal) magnitude in the unprefixed unit.'
EXPLANATION += ' Also decided (round 5): Measurement.__new__ re-binds `value` only to the magnitude of a quantity passed in - an uncertain number stays the same random variable (correlations survive conversions and arithmetic).'


def _lt_zero(a, text=None):
    """`a` is `<e> < 0` or `0 > <e>`; returns the text of <e> (None if `a` has another shape or `text` is given and differs)."""
    b = _m(a, "_E < 0", "0 > _E")
    return b["_E"] if b is not None and (text is None or b["_E"] == text) else None


def _simultaneous_bindings(f):
    """[(statement, {name: value expression})] for every assignment of `f` that binds several names at once.  A tuple
    right-hand side binds element-wise; a call of a private function of the same module that returns tuples binds, for
    each of its `return (a, b, ...)`, the elements with the helper's parameters replaced by the call's arguments (a
    "phase" helper extracted from the function must not hide what the names are bound to)."""
    out = []
    for a in walk_local(f.node):
        if not (isinstance(a, ast.Assign) and len(a.targets) == 1 and isinstance(a.targets[0], (ast.Tuple, ast.List)) and all(isinstance(e, ast.Name) for e in a.targets[0].elts)):
            continue
        names = [e.id for e in a.targets[0].elts]
        v = a.value
        if isinstance(v, (ast.Tuple, ast.List)) and len(v.elts) == len(names):
            out.append((a, dict(zip(names, v.elts))))
        elif isinstance(v, ast.Call) and isinstance(v.func, ast.Name) and v.func.id.startswith("_") and v.func.id in f.module.functions and not v.keywords and not any(isinstance(x, ast.Starred) for x in v.args):
            h = f.module.functions[v.func.id]
            ps = [p.arg for p in h.node.args.args]
            if len(ps) < len(v.args) or any(isinstance(x, ast.Name) and isinstance(x.ctx, ast.Store) and x.id in ps for x in ast.walk(h.node)):
                out.append((a, {n: v for n in names}))      # parameters re-bound inside the helper: not looked through
                continue
            mapping = dict(zip(ps, v.args))
            for r in shape.returns_of(h.node):
                if isinstance(r.value, ast.Tuple) and len(r.value.elts) == len(names):
                    out.append((a, {n: shape._subst(ast.parse(ast.unparse(e), mode="eval").body, mapping) for n, e in zip(names, r.value.elts)}))
                else:
                    out.append((a, {n: v for n in names}))
        else:
            out.append((a, {n: v for n in names}))
    return out


def run(ck, ix, tier):
    # ------------------------------------------------------------ Measurement.__new__
    f = ix.func(MO, "Measurement.__new__")
    ck.analysed(f)
    fn = f.node
    cfg, defs = cfg_of(f), defs_of(f)
    # candidates by role: the ufloat(...) calls; the standard deviation = their second argument, whatever it is called
    ufc = [c for c in walk_local(fn) if isinstance(c, ast.Call) and call_name(c) == "ufloat"]
    uf = nodes_with(cfg, lambda x: isinstance(x, ast.Call) and call_name(x) == "ufloat")
    sds = {norm(c.args[1]) for c in ufc if len(c.args) == 2}
    # the gate: edges on which `<std dev> < 0` is known to be false (`if e < 0: raise`, `if not e < 0: ... else: raise`, ...)
    negative = lambda a: _lt_zero(a) is not None and _lt_zero(a) in sds
    tested = [n.id for n in cfg.nodes if n.kind == "test" and any(negative(a) for a, _ in list(shape.conjuncts(n.ast, "t")) + list(shape.conjuncts(n.ast, "f")))]
    safe = shape.guard_edges(cfg, negative, want=False)
    ck.check(bool(safe), "G-DOM", "Measurement.__new__|negative-error-tested", f.loc(), "negative errors are tested", "the `error < 0` test is gone: negative uncertainties are accepted")
    # ufloat(<the value>, <something that is the error, possibly converted: derives from `error`, no arithmetic on it>)
    well_formed = lambda c: len(c.args) == 2 and not c.keywords and norm(shape.unalias(c.args[0], fn)) == "value" and "error" in defs.roots(c.args[1]) \
        and (isinstance(c.args[1], ast.Name) or _m(c.args[1], "_X.to(units).magnitude") is not None)
    for u in live(cfg, uf):
        c = [c for c in ast.walk(cfg.nodes[u].ast) if isinstance(c, ast.Call) and call_name(c) == "ufloat"][0]
        mine = [(t, lab) for (t, lab) in safe if len(c.args) == 2 and any(_lt_zero(a, norm(c.args[1])) for a, truth in shape.conjuncts(cfg.nodes[t].ast, lab) if not truth)]
        p = shape.reachable_without(cfg, [u], mine) if mine else [u]
        ck.check(bool(mine) and p is None, "G-DOM", "Measurement.__new__|gate-dominates-ufloat", f.loc(cfg.nodes[u].ast), "ufloat(value, error) only after the negative-error test", "ufloat(value, error) is reachable without the negative-error test", witness(cfg, p))
        ok = well_formed(c)
        ck.check(ok, "G-PROV", "Measurement.__new__|ufloat(value, error)", f.loc(c), "nominal value and standard deviation in this order", f"`{norm(c)}` does not build ufloat(value, error)")
    for (g, lab) in sorted(set(safe)):
        p = edge_leads_only_to_raise(cfg, g, shape.other(lab), also_forbid=uf)
        ck.check(p is None, "G-DOM", "Measurement.__new__|negative-error-raises", f.loc(cfg.nodes[g].ast), "a negative error raises ValueError", "a negative error does not raise", witness(cfg, p))
    # a Quantity error is converted to the units of the value: `<error>.to(units).magnitude` flows into the standard deviation
    sd_sinks = [c.args[1] for c in ufc if len(c.args) == 2]
    sd_flow = _flow_into(fn, sd_sinks)
    conv = []
    for x in walk_local(fn):
        b = _m(x, "_X.to(units).magnitude") if isinstance(x, ast.Attribute) else None
        if b is not None and "error" in defs.roots(x.value.func.value) and _reaches(x, fn, sd_sinks, sd_flow):
            conv.append(x)
    ck.check(len(conv) == 1, "G-TAG", "Measurement.__new__|quantity-error-converted-to-value-units", f.loc(), "a Quantity error is converted to the value's units", "a Quantity error is no longer converted to the units of the value before being combined")
    if conv:
        cn = set(cfg.nodes_for_ast(conv[0]))
        for g in sorted({g for g, _ in safe} or set(tested)):
            # the conversion is never executed after the test: the value that is tested is the converted one
            after = cfg.reach([v for (v, _l) in cfg.succ[g]])
            ck.check(not (cn & after), "G-DOM", "Measurement.__new__|conversion-before-gate", f.loc(conv[0]), "error converted before it is tested and used", "the error is tested/used before it was converted to the value's units")
    # the object is built by super().__new__(cls, <mag>, units): <mag> is the value itself exactly when no error was given
    # (an uncertain magnitude is kept: same random variable) and ufloat(value, error) otherwise - one call or two
    sup = [c for c in walk_local(fn) if isinstance(c, ast.Call) and isinstance(c.func, ast.Attribute) and c.func.attr == "__new__" and isinstance(c.func.value, ast.Call) and call_name(c.func.value) == "super"]
    ck.check(len(sup) >= 1 and all(len(c.args) == 3 and norm(c.args[0]) == "cls" for c in sup), "G-TAG", "Measurement.__new__|built-by-PlainQuantity.__new__", f.loc(), "super().__new__(cls, mag, units)", "the Measurement is no longer built by super().__new__(cls, magnitude, units)")
    missing = lambda a_: isinstance(a_, ast.Compare) and isinstance(a_.ops[0], ast.Is) and sorted([shape.rnorm(a_.left, fn), shape.rnorm(a_.comparators[0], fn)]) == ["MISSING", "error"]
    vals = []
    for c in [c for c in sup if len(c.args) == 3]:
        magx, unitx = c.args[1], c.args[2]
        ck.check(norm(unitx) == "units", "G-TAG", "Measurement.__new__|built-with-given-units", f.loc(c), "the units passed in / unpacked from the value", f"the Measurement is built with units `{norm(unitx)}`")
        if isinstance(magx, ast.Name) and magx.id not in defs.params and defs.defs.get(magx.id):
            vals += [(v, st) for (v, kind, st) in defs.defs[magx.id] if v is not None]
        else:
            vals.append((magx, c))
    # the value is only ever re-bound to the magnitude of the quantity it was given as: an uncertain number passed in is
    # kept as the SAME object (re-building it from nominal_value / std_dev makes an independent variable and loses every
    # correlation: m.to('cm') / m would no longer be exact)
    both = _simultaneous_bindings(f)
    rebinds = [(a_, d_["value"]) for a_, d_ in both if "value" in d_ and norm(d_["value"]) != "value"]      # (bound to itself = kept)
    for a_ in walk_local(fn):
        if isinstance(a_, ast.Assign):
            rebinds += [(a_, a_.value) for t_ in a_.targets if isinstance(t_, ast.Name) and t_.id == "value"]
        elif isinstance(a_, (ast.AugAssign, ast.AnnAssign)) and isinstance(a_.target, ast.Name) and a_.target.id == "value" and getattr(a_, "value", None) is not None:
            rebinds.append((a_, a_.value))
    for a_, v_ in rebinds:
        ck.check(norm(v_) in ("value.magnitude", "value.m", "value._magnitude"), "G-PROV", "Measurement.__new__|uncertain-value-kept-as-the-same-object", f.loc(a_),
                 "`value` is only re-bound to the magnitude of the quantity passed in",
                 f"`{norm(a_)}` re-binds `value` to `{norm(v_)}`: an uncertain number handed to Measurement must stay the same random variable, otherwise conversions and arithmetic results lose their correlation with the operands")
    kind_of = lambda v: "value" if norm(v) == "value" else ("ufloat(value, error)" if isinstance(v, ast.Call) and call_name(v) == "ufloat" and well_formed(v) else norm(v))
    texts = sorted({kind_of(v) for v, _ in vals})
    ck.check(texts == ["ufloat(value, error)", "value"], "G-PROV", "Measurement.__new__|magnitude-is-value-or-ufloat(value,error)", f.loc(sup[0]) if sup else f.loc(), "magnitude = value (already uncertain) | ufloat(value, error)",
             f"the magnitude of the new Measurement is one of {texts}: an uncertain magnitude passed without error must be kept as is (same random variable, so correlations survive: x - x == 0 +/- 0) and otherwise ufloat(value, error) is built")
    for v, st in vals:
        k = kind_of(v)
        if k in ("value", "ufloat(value, error)"):
            ck.check(shape.holds_at(st, fn, missing, k == "value"), "G-DOM", "Measurement.__new__|value-kept-only-when-no-error-given", f.loc(st), "value kept as magnitude exactly when no error was given",
                     "the value is used as magnitude although an error was given (the error would be dropped), or an uncertainty is built although none was given")
    # wherever `value` is re-bound together with `units`, they become the magnitude and the units of the quantity passed in
    unp = [d_ for a_, d_ in both if "value" in d_ and "units" in d_ and norm(d_["value"]) != "value"]
    ok = len(unp) == 1 and (norm(unp[0]["value"]), norm(unp[0]["units"])) == ("value.magnitude", "value.units")
    ck.check(ok, "G-TAG", "Measurement.__new__|quantity-value-unpacked", f.loc(), "a Quantity value is unpacked into magnitude and units", "a Quantity value is no longer unpacked into (magnitude, units)")

    # ------------------------------------------------------------ plus_minus
    f = ix.func(MO, "MeasurementQuantity.plus_minus")
    ck.analysed(f)
    fn = f.node
    dfp = defs_of(f)
    is_q = lambda a_: isinstance(a_, ast.Call) and call_name(a_) == "isinstance" and a_.args and norm(a_.args[0]) == "error"
    is_rel = lambda a_: isinstance(a_, ast.Name) and a_.id == "relative"
    mc = [c for c in walk_local(fn) if isinstance(c, ast.Call) and call_name(c) == "Measurement"]
    err_sinks = [c.args[1] for c in mc if len(c.args) == 3]
    err_flow = _flow_into(fn, err_sinks)
    used = lambda x: _reaches(x, fn, err_sinks, err_flow)             # the value becomes (part of) the error of the new Measurement
    convs = [x for x in walk_local(fn) if isinstance(x, ast.Attribute) and _m(x, "error.to(self._units).magnitude", "error.to(self.units).magnitude") is not None]
    ck.check(len(convs) == 1 and shape.holds_at(convs[0], fn, is_q, True) and used(convs[0]), "G-TAG", "plus_minus|quantity-error-converted-to-own-units", f.loc(), "a Quantity error is converted to the quantity's units", "plus_minus no longer converts a Quantity error to the quantity's own units")
    prods = [b_ for b_ in walk_local(fn) if isinstance(b_, ast.BinOp) and isinstance(b_.op, ast.Mult) and "error" in (norm(b_.left), norm(b_.right))]
    okp = len(prods) == 1 and sorted([norm(prods[0].left), norm(prods[0].right)]) == ["abs(self.magnitude)", "error"] and used(prods[0]) and not isinstance(getattr(prods[0], "_parent", None), (ast.Call, ast.BinOp, ast.UnaryOp)) \
        and shape.holds_at(prods[0], fn, is_rel, True) and shape.holds_at(prods[0], fn, is_q, False)
    ck.check(okp, "G-PROV", "plus_minus|relative-error-scaled-by-abs-magnitude", f.loc(prods[0]) if prods else f.loc(), "relative error x |magnitude| (the sign of the error is preserved for the negative-error gate)",
             f"`{norm(getattr(prods[0], '_parent', prods[0])) if prods else '?'}`: a relative (non-Quantity) error must be multiplied by abs(magnitude) only; taking abs() of the product hides a negative relative error from the negative-error check")
    raises = [r for r in walk_local(fn) if isinstance(r, ast.Raise)]
    ck.check(len(raises) >= 1 and all(shape.holds_at(r, fn, is_q, True) and shape.holds_at(r, fn, is_rel, True) for r in raises), "G-DOM", "plus_minus|quantity-as-relative-error-raises", f.loc(), "a Quantity cannot be a relative error", "a Quantity passed as relative error no longer raises (exactly in that case)")
    ok = len(mc) == 1 and len(mc[0].args) == 3 and norm(mc[0].args[2]) in ("self._units", "self.units") \
        and dfp.roots(mc[0].args[0]) & {"self.magnitude", "self._magnitude", "self.m"} and not any(isinstance(x, ast.BinOp) for x in ast.walk(mc[0].args[0]))
    if ok:
        e_ = mc[0].args[1]
        evals = {norm(x) for (v, k, st) in dfp.defs.get(e_.id, []) if v is not None for x, _f in _alternatives(v, fn)} if isinstance(e_, ast.Name) else {norm(e_)}
        ok = isinstance(e_, ast.Name) and evals <= {"error", "error.to(self._units).magnitude", "error.to(self.units).magnitude", "error * abs(self.magnitude)", "abs(self.magnitude) * error"}
    ck.check(bool(ok), "G-TAG", "plus_minus|measurement-in-own-units", f.loc(mc[0]) if mc else f.loc(), "Measurement(own magnitude, error, own units)", f"plus_minus builds `{norm(mc[0]) if mc else '?'}` instead of Measurement(own magnitude, (converted/scaled) error, own units)")
    ci = ix.cls(MO, "Measurement")
    for prop, frag in (("value", "self._REGISTRY.Quantity(self.magnitude.nominal_value, self.units)"), ("error", "self._REGISTRY.Quantity(self.magnitude.std_dev, self.units)"), ("rel", "abs(self.magnitude.std_dev / self.magnitude.nominal_value)")):
        m = ci.methods.get(prop)
        rets = shape.returns_of(m.node) if m else []
        ck.check(bool(rets) and all(_rm(r.value, m.node, frag) is not None for r in rets), "G-PROV", f"Measurement.{prop}", m.loc() if m else ci.module.relpath, frag, f"Measurement.{prop} is no longer `{frag}`")
    m = ci.methods.get("__format__")
    rets = shape.returns_of(m.node) if m else []
    ck.check(bool(rets) and all(_rm(r.value, m.node, "self._REGISTRY.formatter.format_measurement(self, spec)") is not None for r in rets), "G-PROV", "Measurement.__format__|delegates", m.loc() if m else ci.module.relpath, "delegates to format_measurement", "Measurement.__format__ no longer delegates to the registry formatter's format_measurement")
    # _to_magnitude: where the value is known to be a Measurement, ufloat(value.value, value.error) is returned
    cm = ix.module("pint.compat")
    tm = [g for g in cm.all_functions if g.name == "_to_magnitude"]
    is_meas = lambda a_: _m(a_, "isinstance(value, Measurement)") is not None
    as_ufloat = lambda g: any(_rm(r.value, g.node, "ufloat(value.value, value.error)") is not None and shape.holds_at(r, g.node, is_meas, True) for r in shape.returns_of(g.node))
    ck.check(bool(tm) and all(as_ufloat(g) for g in tm), "G-PROV", "_to_magnitude|measurement-to-ufloat", cm.relpath, "a Measurement magnitude becomes ufloat(value, error)", "_to_magnitude no longer maps a Measurement to ufloat(value, error)")

    # ------------------------------------------------------------ operator table
    pe = ix.module(PE)
    prio = pe.assigns.get("_OP_PRIORITY")
    binm = pe.assigns.get("_BINARY_OPERATOR_MAP")
    P = {k.value: v.value for k, v in zip(prio.keys, prio.values) if isinstance(k, ast.Constant) and isinstance(v, ast.Constant)} if isinstance(prio, ast.Dict) else {}
    ck.check("+/-" in P and all(P["+/-"] > v for k, v in P.items() if k != "+/-"), "G-TABLE", "_OP_PRIORITY|plus-minus-binds-tightest", pe.relpath, "+/- has the highest priority", "+/- no longer binds tighter than every other operator")
    B = {k.value: norm(v) for k, v in zip(binm.keys, binm.values) if isinstance(k, ast.Constant)} if isinstance(binm, ast.Dict) else {}
    ck.check(B.get("+/-") == "_ufloat", "G-TABLE", "_BINARY_OPERATOR_MAP|plus-minus-is-ufloat", pe.relpath, "+/- evaluates with ufloat", f"+/- evaluates with {B.get('+/-')}")

    # ------------------------------------------------------------ tokenizer
    tok = ix.func(PE, "uncertainty_tokenizer")
    ck.analysed(tok)
    roles = tokenizer_helpers(ix)             # nested helpers by role (their names are local names)
    ae, fe = roles["apply"], roles["consumer"]
    ap = [a.arg for a in ae.node.args.args]
    if len(ap) != 2:
        raise AnalysisError("the exponent-folding helper of uncertainty_tokenizer no longer takes (mantissa, exponent)")
    mant, expo = ap
    cfg = cfg_of(ae)
    # the set of conditions under which the exponent is skipped, however they are spelled (two ifs, one `or`, operand order, ...);
    # reported with the canonical parameter names (mantissa, exponent)
    canon_names = lambda t: re.sub(rf"\b{re.escape(expo)}\b", "exponent", re.sub(rf"\b{re.escape(mant)}\b", "mantissa", t))
    def canon(a):
        if isinstance(a, ast.Compare) and len(a.ops) == 1 and isinstance(a.ops[0], ast.Eq) and isinstance(a.left, ast.Constant) and not isinstance(a.comparators[0], ast.Constant):
            return canon_names(f"{norm(a.comparators[0])} == {norm(a.left)}")
        return canon_names(norm(a))
    tests = sorted({canon(a) for n in cfg.nodes if n.kind == "test" for lab in ("t", "f") for a, _ in shape.conjuncts(n.ast, lab) if not isinstance(a, ast.BoolOp)})
    ck.check(tests == ["float(mantissa.string) == 0.0", "mantissa.string == 'nan'"], "G-PROV", "_apply_e_notation|exponent-skipped-only-for-nan-and-zero", ae.loc(),
             "the common exponent is skipped only for nan and for a mantissa equal to zero", f"the guards of _apply_e_notation are {tests}: a mantissa like 0.030 must receive the common exponent (only nan and zero are exempt)")
    ck.check(lib.has(ix, ae, "tokenize.TokenInfo(string=f'{%s.string}{%s.string}', **_K)" % (mant, expo)), "G-PROV", "_apply_e_notation|mantissa-followed-by-exponent", ae.loc(), "token text = mantissa + exponent", "the combined token is no longer mantissa followed by exponent")
    # what the consumer returns is (its first argument with the exponent applied, its second argument with the same exponent
    # applied), the exponent being one of its parameters
    fp = [a.arg for a in fe.node.args.args]
    rets = shape.returns_of(fe.node)
    both = lambda r: (lambda b: b is not None and b["_E"] in fp[2:])(_rm(r.value, fe.node, f"({ae.name}({fp[0]}, _E), {ae.name}({fp[1]}, _E))")) if len(fp) >= 3 else False
    ck.check(bool(rets) and all(both(r) for r in rets), "G-TWIN", "_finalize_e|exponent-applied-to-value-and-error", fe.loc(), "the common exponent is applied to both value and error", "the common exponent is not applied to both the nominal value and the standard deviation")
    sets = exponent_sign_sets(ix)
    ok = all(v == ["+", "-"] for vs in sets.values() for v in vs) and len(sets) == 2
    ck.check(ok, "G-TWIN", "uncertainty_tokenizer|exponent-sign-sets-agree", tok.loc(), "look-ahead and consumer accept {+, -}", f"sign sets differ: {sets}")
    ck.check(plus_minus_sign_rewritten(ix), "G-TABLE", "uncertainty_tokenizer|unicode-plus-minus", tok.loc(), "± rewritten to +/-", "± is no longer rewritten to +/-")
    # the three notations (bare +/-, parenthesised, value(error)) each yield a synthetic OP token with the text '+/-'; where
    # a value and an error are yielded with it the order is value, operator, error (value = the token met first)
    ops = lib.find(ix, tok, "(yield tokenize.TokenInfo(type=tokenlib.OP, string='+/-', **_K))", inline=False)
    ck.check(len(ops) >= 3, "G-TABLE", "uncertainty_tokenizer|emits-plus-minus-operator", tok.loc(), "all three notations emit the +/- operator token", "a notation no longer emits the '+/-' operator token")
    order_ok, triples = True, 0
    tfn = ops[0][2] if ops else tok.node
    first_def = lambda name: min([st.lineno for (v, k, st) in Defs(tfn).defs.get(name, [])] or [10 ** 9])
    for y, _b, _fn in ops:
        st = y._parent
        block = next((getattr(st._parent, fld) for fld in ("body", "orelse", "finalbody") if any(x is st for x in getattr(st._parent, fld, []) or [])), [])
        ys = [x.value for x in block if isinstance(x, ast.Expr) and isinstance(x.value, ast.Yield)]
        if len(ys) > 1:
            triples += 1
            i = [j for j, x in enumerate(ys) if x is y][0]
            names = [x.value.id if isinstance(x.value, ast.Name) else None for x in ys]
            order_ok = order_ok and len(ys) == 3 and i == 1 and None not in (names[0], names[2]) and names[0] != names[2] and first_def(names[0]) < first_def(names[2])
    ck.check(order_ok and triples >= 2, "G-PROV", "uncertainty_tokenizer|value-operator-error-order", tok.loc(), "tokens are emitted as value, +/-, error", "the emitted token order changed")
    # v(u) notation: where the error token has no decimal point (and only there) it is rebuilt with the text '0.' + its digits
    short = lib.find(ix, tok, "tokenize.TokenInfo(string='0.' + _S.string, **_K)", inline=False)
    oks = len(short) == 1 and shape.holds_at(short[0][0], short[0][2], lambda a: _m(a, f"'.' in {short[0][1]['_S']}.string") is not None, False) \
        and short[0][1]["_S"] in _flow_into(short[0][2], [y.value for y in ast.walk(short[0][2]) if isinstance(y, ast.Yield) and y.value is not None])
    ck.check(oks, "G-PROV", "uncertainty_tokenizer|short-notation-digits", tok.loc(), "v(u) notation reads u as 0.u when it has no decimal point", "the v(u) notation no longer scales the digits of u")

    # ------------------------------------------------------------ formatter interface (shared with C09)
    interface_rule(ck, ix)
    from .C07 import token_conservation_rule, lookahead_offsets_rule
    token_conservation_rule(ck, ix)
    lookahead_offsets_rule(ck, ix)
    from .C15 import to_compact_rule
    to_compact_rule(ck, ix)  # the '#' format modifier and to_compact on a Measurement choose the prefix from the nominal value in the unprefixed unit
    return EXPLANATION
