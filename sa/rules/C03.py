"""C03 — arithmetic results do not depend on the units used to express the operands."""
from __future__ import annotations

import ast

from ..flow import call_name, dotted, norm, writes_in
from ..index import AnalysisError, walk_local
from ..lib import cfg_of, defs_of, edge_leads_only_to_raise, find, has, inlined, live, nodes_with, undominated, witness
from ..tags import Tagger
from .. import shape

PQ = "pint.facets.plain.quantity"

EXPLANATION = (
    "Static analysis (no execution): G-TAG, a path-sensitive abstract interpretation of PlainQuantity's operator methods "
    "over the unit-tag domain (every magnitude carries the units it is expressed in; +, -, //, %, divmod and comparisons "
    "need equal tags, a bare number is accepted only against a magnitude converted to dimensionless or as zero/NaN; "
    "constructors must label a magnitude with the units it is expressed in; in-place forms must return self with "
    "magnitude and units in agreement; only self may be converted in place); G-TWIN between functional and in-place "
    "forms; operand order of the reflected forms; dimensionality gate dominating addition/subtraction; the int->"
    "non_int_type cast of true division applies if either operand is an int. Also decided: 0/1 shortcuts on an exponent compare the exponent as given (unit aware) and the exponent used is the root-unit magnitude of a dimensionless quantity or the coerced bare number; int/float/complex coercions agree and use the value in no units; the both-zero equality shortcut needs multiplicative units on both sides; in-place conversion primitives (_convert_magnitude, ito*) are called only by in-place forms on their own target (package-wide who-may-call). Decides these clauses on every loop-free "
    "path of the anchored methods; does not decide numerical agreement, NaN/zero element-wise semantics or broadcasting.")
EXPLANATION += ' Also decided: the memo rules of Quantity.dimensionality (the dimension gate of + - and ordering reads it).'
EXPLANATION += " Also decided (round 10): the exponent rule also covers powers whose base is a conversion of self to no units (the array branch `self.m_as('') ** <exponent>` of __pow__/__ipow__): the exponent is the root-unit magnitude of a dimensionless quantity or a bare number, never the stored magnitude of a quantity."

ARITH = [("_add_sub", False), ("_iadd_sub", True), ("__floordiv__", False), ("__ifloordiv__", True), ("__rfloordiv__", False),
         ("__mod__", False), ("__imod__", True), ("__rmod__", False), ("__divmod__", False), ("__rdivmod__", False),
         ("__abs__", False), ("__neg__", False), ("__pos__", False), ("__round__", False), ("__pow__", False), ("__ipow__", True),
         ("_mul_div", False), ("_imul_div", True), ("__rtruediv__", False), ("__rpow__", False)]



# ---------------------------------------------------------------- role-based helpers (no names of locals, no polarity)
def _derives_from(roots, name: str) -> bool:
    """some root of a value (Defs.roots) is the parameter `name` or one of its attributes"""
    return any(r == name or r.startswith(name + ".") for r in roots)


def _is(pattern: str, e: ast.AST, fn: ast.AST = None) -> bool:
    """`e` matches the pattern (shape.match syntax) as written or, inside `fn`, after resolving local temporaries"""
    if shape.match(pattern, e) is not None:
        return True
    return fn is not None and shape.match(pattern, shape.resolve(e, fn)) is not None


def _edges(cfg, fn, pattern: str, want: bool) -> list:
    """CFG edges (test id, label) on which the atomic condition `pattern` is known to be `want`, whatever the spelling
    of the test (`if c: raise` / `if not c: ... else: raise`, conjunctions, a temporary holding the condition)."""
    return sorted(set(shape.guard_edges(cfg, lambda a: _is(pattern, a, fn), want)))


def _refused(ck, fi, cfg, pattern: str, refused_when: bool, rule, key_present, key_raises, ok_present, bad_present, ok_raises, bad_raises):
    """The condition `pattern` is tested and every edge on which it is `refused_when` leads only to a raise."""
    edges = _edges(cfg, fi.node, pattern, refused_when)
    ck.check(bool(edges), rule, key_present, fi.loc(), ok_present, bad_present)
    for (t, lab) in edges:
        p = edge_leads_only_to_raise(cfg, t, lab)
        ck.check(p is None, rule, key_raises(cfg.nodes[t]), fi.loc(cfg.nodes[t].ast), ok_raises, bad_raises, witness(cfg, p))
    return edges


def _known(node, fn, extra=()) -> list:
    """[(positive atom, truth)] known where `node` executes (shape.facts_at) plus `extra`, in which a condition that is
    held in a local (`flag = p or q` ... `if flag:` / `x if flag else y`) is opened up: its resolved definition is
    decomposed like a test written in place."""
    out = []
    for a_, t_ in list(shape.facts_at(node, fn)) + list(extra):
        out.append((a_, t_))
        if isinstance(a_, ast.Name):
            out += list(shape.conjuncts(shape.resolve(a_, fn), "t" if t_ else "f"))
    return out


def _cases(e, fn, depth: int = 3) -> list:
    """The values an expression can take, with the conditions under which it takes them: [(value, [(atom, truth)])].
    A local is followed to its dominating definition, a conditional expression `A if C else B` gives A under C and B
    under not C (C opened up if it is a named condition); anything else is one unconditional case."""
    v = shape.unalias(e, fn)
    if depth > 0 and isinstance(v, ast.IfExp):
        out = []
        for branch, edge in ((v.body, "t"), (v.orelse, "f")):
            cond = list(shape.conjuncts(v.test, edge))
            out += [(x, cond + more) for x, more in _cases(branch, fn, depth - 1)]
        return out
    return [(v, [])]


EXPONENT_VALUES = ("0", "_to_magnitude(other, *_R, **_K)", "other.to_root_units().magnitude", "other.to_root_units()._magnitude", "other.m_as('')", "other.m_as(self.UnitsContainer())")


def exponent_rule(ck, ix):
    """__pow__/__ipow__: the exponent may itself be a quantity.  (a) the 0/1 shortcuts compare the exponent *as given*
    (`other == 1` goes through Quantity.__eq__ and is unit aware); comparing its bare magnitude would take 1 percent or
    1 second for the number 1.  (b) the value used as exponent is the root-unit magnitude of a dimensionless quantity,
    the coerced bare number, or the constant 0; a dimensional exponent raises."""
    for q in ("PlainQuantity.__pow__", "PlainQuantity.__ipow__"):
        fi = ix.func(PQ, q)
        ck.analysed(fi)
        defs = defs_of(fi)
        n = 0
        for c in walk_local(fi.node):
            if isinstance(c, ast.Compare) and len(c.ops) == 1 and isinstance(c.ops[0], (ast.Eq, ast.NotEq)):
                sides = [c.left, c.comparators[0]]
                consts = [x for x in sides if isinstance(x, ast.Constant) and x.value in (0, 1)]
                others = [x for x in sides if not isinstance(x, ast.Constant)]
                if not consts or not others:
                    continue
                o = others[0]
                if not _derives_from(defs.roots(o), "other"):
                    continue
                n += 1
                ck.check(isinstance(o, ast.Name) and o.id == "other", "G-TAG", f"{q}|exponent-shortcut-is-unit-aware|{norm(c)}", fi.loc(c), "the exponent is compared as given (unit aware)",
                         f"`{norm(c)}` compares the bare magnitude of the exponent: an exponent of 1 percent (or 1 second) is taken for the number 1")
        if n == 0:
            ck.note(f"{q}: no 0/1 shortcut on the exponent")
        # candidates by role: a power whose base is the units / magnitude of self (directly or through a local that was
        # bound to self or to a conversion of self)
        # ... or a conversion of self to no units (the array branch: `self.m_as('') ** <exponent>`, round 10)
        conv_of_self = lambda e: isinstance(e, ast.Call) and isinstance(e.func, ast.Attribute) and e.func.attr in ("m_as", "to", "to_root_units", "to_base_units", "_convert_magnitude_not_inplace") and norm(e.func.value) == "self"
        field_of_self = lambda e: (any((isinstance(x, ast.Attribute) and x.attr in ("_units", "_magnitude")) or conv_of_self(x) for x in ast.walk(e))) and _derives_from(defs.roots(e), "self")
        exps = []
        for b in walk_local(fi.node):
            if isinstance(b, ast.BinOp) and isinstance(b.op, ast.Pow) and field_of_self(b.left):
                exps.append((b, b.right))
            if isinstance(b, ast.AugAssign) and isinstance(b.op, ast.Pow) and norm(b.target) == "self._magnitude":
                exps.append((b, b.value))
        for b, x in exps:
            if isinstance(x, ast.Name) and x.id in defs.params:
                continue  # the raw parameter is only used on paths where it was shown to be a bare number/array
            # every value the exponent can hold (all bindings of the local, or the expression itself)
            vals = [v for (v, kind, st) in defs.defs.get(x.id, []) if v is not None] if isinstance(x, ast.Name) else [x]
            shown = sorted({norm(v) for v in vals})
            allowed = all(any(_is(pt, v) for pt in EXPONENT_VALUES) for v in vals)
            ck.check(bool(vals) and allowed, "G-TAG", f"{q}|exponent-is-root-magnitude-or-bare-number|{norm(b)[:40]}", fi.loc(b), f"exponent in {shown}",
                     f"the exponent `{norm(x)}` of `{norm(b)}` is one of {shown}: a quantity exponent must be reduced to its dimensionless root-unit magnitude (1 percent -> 0.01), a bare number coerced with _to_magnitude")
        ck.floor("G-TAG", len(exps), 1, f"powers of self's magnitude/units in {q}")
        # a dimensional exponent raises
        cfg = cfg_of(fi)
        _refused(ck, fi, cfg, "getattr(other, 'dimensionless', True)", False, "G-DOM", f"{q}|dimensional-exponent-tested",
                 lambda nd: f"{q}|dimensional-exponent-raises|L{nd.lineno - fi.node.lineno}", "a dimensional exponent is detected", f"{q} no longer tests for a dimensional exponent",
                 "a dimensional exponent raises DimensionalityError", "a dimensional exponent does not raise")


def scalar_coercion_rule(ck, ix):
    """int(q), float(q), complex(q): a dimensionless quantity is coerced through its value in *no* units (1 km/m is
    1000, 180 degree is pi); everything else raises DimensionalityError.  The three siblings must agree."""
    shapes = {}
    for name, fn in (("__int__", "int"), ("__float__", "float"), ("__complex__", "complex")):
        fi = ix.func(PQ, f"PlainQuantity.{name}")
        ck.analysed(fi)
        cfg = cfg_of(fi)
        rets = [r for r in walk_local(fi.node) if isinstance(r, ast.Return) and r.value is not None]
        vals = {id(r): shape.resolve(r.value, fi.node) for r in rets}
        for r in rets:
            v = vals[id(r)]
            ok = isinstance(v, ast.Call) and call_name(v) == fn and len(v.args) == 1 and norm(v.args[0]) in (
                "self._convert_magnitude_not_inplace(UnitsContainer())", "self._convert_magnitude_not_inplace(self.UnitsContainer())", "self.m_as('')", "self.m_as(UnitsContainer())", "self.to('').magnitude")
            ck.check(ok, "G-TAG", f"PlainQuantity.{name}|value-in-no-units", fi.loc(r), f"{fn}(magnitude converted to no units)",
                     f"`{norm(r)}`: {fn}() of a dimensionless quantity must use the magnitude converted to no units (1 km/m -> 1000, 180 degree -> pi), not the magnitude as stored")
        gates = _edges(cfg, fi.node, "self.dimensionless", False)
        ck.check(bool(gates) and all(edge_leads_only_to_raise(cfg, g, lab) is None for g, lab in gates), "G-DOM", f"PlainQuantity.{name}|dimensional-quantity-raises", fi.loc(), "a dimensional quantity raises DimensionalityError",
                 f"{name} no longer raises for a quantity that is not dimensionless")
        shapes[name] = [norm(v.args[0]) if isinstance(v, ast.Call) and v.args else norm(v) for v in (vals[id(r)] for r in rets)]
    ck.check(len({tuple(v) for v in shapes.values()}) == 1, "G-TWIN", "PlainQuantity.__int__/__float__/__complex__|siblings-agree", ix.func(PQ, "PlainQuantity.__float__").loc(), "the three coercions take the same value", f"the scalar coercions disagree: {shapes}")

def run(ck, ix, tier):
    ck.rule("G-TAG", "abstract interpretation over the unit-tag domain: combined magnitudes carry equal unit tags")
    n_paths = {}
    unknown = 0
    obl = 0
    for name, inplace in ARITH:
        fi = ix.func(PQ, f"PlainQuantity.{name}")
        ck.analysed(fi)
        t = Tagger(ck, fi, "G-TAG", inplace=inplace)
        n_paths[name] = t.run()
        unknown += t.n_unknown
        obl += t.n_obl
    ck.extra["tag_paths_explored"] = n_paths
    ck.extra["tag_unknown_combinations"] = unknown
    ck.floor("G-TAG", obl, 30, "tag obligations evaluated over the arithmetic methods")

    # ------------------------------------------------------------ reflected forms: operand order
    for name, opn in (("__rfloordiv__", ast.FloorDiv), ("__rmod__", ast.Mod)):
        fi = ix.func(PQ, f"PlainQuantity.{name}")
        dd = defs_of(fi)
        for b in [x for x in walk_local(fi.node) if isinstance(x, ast.BinOp) and isinstance(x.op, opn)]:
            lr, rr = dd.roots(b.left), dd.roots(b.right)
            ok = any(r == "other" or r.startswith("other.") for r in lr) and not any(r.startswith("self._magnitude") or r == "self" for r in lr) \
                and any(r == "self" or r.startswith("self.") for r in rr)
            ck.check(ok, "G-PROV", f"PlainQuantity.{name}|left-operand-is-other|{norm(b)[:50]}", fi.loc(b), "reflected form: other OP self",
                     f"`{norm(b)}` in the reflected method does not compute `other OP self`")
    fi = ix.func(PQ, "PlainQuantity.__rdivmod__")
    for c in [c for c in walk_local(fi.node) if isinstance(c, ast.Call) and call_name(c) == "divmod"]:
        dd = defs_of(fi)
        lr, rr = dd.roots(c.args[0]), dd.roots(c.args[1])
        ck.check(any(r == "other" or r.startswith("other.") for r in lr) and any(r == "self" or r.startswith("self.") for r in rr) and not any(r == "self" or r.startswith("self._magnitude") for r in lr),
                 "G-PROV", f"PlainQuantity.__rdivmod__|divmod(other, self)|{norm(c)[:40]}", fi.loc(c),
                 "divmod(other, self)", f"`{norm(c)}` is not divmod(other, self)")
    fi = ix.func(PQ, "PlainQuantity.__rtruediv__")
    divs = [b for b in walk_local(fi.node) if isinstance(b, ast.BinOp) and isinstance(b.op, ast.Div) and "_magnitude" in norm(b)]
    ck.floor("G-PROV", len(divs), 1, "magnitude division in __rtruediv__")
    for b in divs:
        dd_ = defs_of(fi)
        lr_, rr_ = dd_.roots(b.left), dd_.roots(b.right)
        of_other = lambda rs: any(r == "other" or r.startswith("other.") for r in rs)
        of_self = lambda rs: any(r == "self" or r.startswith("self.") for r in rs)
        ck.check(of_other(lr_) and not norm(b.left).endswith("._magnitude") and of_self(rr_) and not of_other(rr_) and norm(b.right).endswith("._magnitude"), "G-PROV", "PlainQuantity.__rtruediv__|other/self", fi.loc(b), "other / self", f"`{norm(b)}` is not (magnitude of other) / (magnitude of self)")
    fi = ix.func(PQ, "PlainQuantity.__rpow__")
    pows = [b for b in walk_local(fi.node) if isinstance(b, ast.BinOp) and isinstance(b.op, ast.Pow)]
    for b in pows:
        dd_ = defs_of(fi)
        rr_ = dd_.roots(b.right)
        from .. import shape as _s6
        rt_ = _s6.rnorm(b.right, fi.node)
        ck.check(norm(b.left) == "other" and rt_.endswith("magnitude") and "to_root_units()" in rt_ and "self" in rt_, "G-PROV", "PlainQuantity.__rpow__|other**self", fi.loc(b), "other ** self (dimensionless, root units)", f"`{norm(b)}` is not other ** (root-unit magnitude of self)")
    cfg = cfg_of(fi)
    gates = _edges(cfg, fi.node, "self.dimensionless", False)
    for g, lab in gates:
        p = edge_leads_only_to_raise(cfg, g, lab)
        ck.check(p is None, "G-DOM", "PlainQuantity.__rpow__|exponent-must-be-dimensionless", fi.loc(cfg.nodes[g].ast), "dimensional exponent raises", "a dimensional exponent does not raise", witness(cfg, p))
    ck.check(bool(gates), "G-DOM", "PlainQuantity.__rpow__|dimensionless-test", fi.loc(), "exponent tested for dimensionless", "__rpow__ no longer tests that the exponent is dimensionless")
    ck.check(has(ix, fi, "self.to_root_units()"), "G-TAG", "PlainQuantity.__rpow__|exponent-in-root-units", fi.loc(), "exponent taken in root units", "__rpow__ no longer converts the exponent to root units (percent, etc.)")
    fi = ix.func(PQ, "PlainQuantity.__rsub__")
    # every value __rsub__ returns that involves the difference is -(self - other)
    fn_ = inlined(ix, fi).node
    rets = [shape.resolve(r.value, fn_) for r in shape.returns_of(fn_)]
    diffs = [v for v in rets if any(isinstance(c, ast.Call) and call_name(c) == "_add_sub" for c in ast.walk(v))]
    ck.check(bool(diffs) and all(_is("-self._add_sub(other, operator.sub)", v) for v in diffs), "G-PROV", "PlainQuantity.__rsub__|negated-difference", fi.loc(), "other - self == -(self - other)", "__rsub__ is no longer -(self - other)")
    ci = ix.cls(PQ, "PlainQuantity")
    for alias, tgt in (("__radd__", "__add__"), ("__rmul__", "__mul__")):
        a = ci.aliases.get(alias)
        ck.check(a is not None and norm(a) == tgt, "G-PROV", f"PlainQuantity.{alias}|alias-of-{tgt}", ci.module.relpath, f"{alias} = {tgt} (commutative)", f"{alias} is no longer an alias of {tgt}")

    # ------------------------------------------------------------ dispatch: operator -> helper with matching operator family
    pairs = {"__add__": ("_add_sub", "operator.add"), "__sub__": ("_add_sub", "operator.sub"), "__iadd__": ("_iadd_sub", "operator.iadd"), "__isub__": ("_iadd_sub", "operator.isub"),
             "__mul__": ("_mul_div", "operator.mul"), "__imul__": ("_imul_div", "operator.imul"), "__itruediv__": ("_imul_div", "operator.itruediv")}
    for m, (helper, op) in pairs.items():
        fi = ix.func(PQ, f"PlainQuantity.{m}")
        ck.analysed(fi)
        calls = [c for c in walk_local(fi.node) if isinstance(c, ast.Call) and call_name(c) == helper]
        ok = bool(calls) and all(norm(c.args[0]) == "other" and norm(c.args[1]) == op for c in calls)
        ck.check(ok, "G-PROV", f"PlainQuantity.{m}|dispatches-{helper}({op})", fi.loc(), f"{m} -> {helper}(other, {op})", f"{m} does not dispatch to {helper}(other, {op})")
        # non-duck-array fallback of in-place forms uses the functional twin with the functional operator
        if m.startswith("__i"):
            fb = [c for c in walk_local(fi.node) if isinstance(c, ast.Call) and call_name(c) == helper.replace("_i", "_")]
            okf = bool(fb) and all(norm(c.args[1]) == op.replace("operator.i", "operator.") for c in fb)
            ck.check(okf, "G-TWIN", f"PlainQuantity.{m}|scalar-fallback-uses-functional-twin", fi.loc(), "scalar magnitudes fall back to the functional form with the same operator",
                     f"{m}: the fallback for non-array magnitudes does not use the functional twin with the matching operator")
    fi = ix.func(PQ, "PlainQuantity.__truediv__")
    ck.analysed(fi)
    # by role: for every `_mul_div(other, OP, ...)` call and every value OP can take there (a conditional expression or a
    # local selecting the operator counts branch by branch): OP is _truedivide_cast_int, or both operands are known not
    # to have an int magnitude - whatever the shape of the test that separates the two
    fn = fi.node

    def int_magnitude_of(who):
        def pred(a_):
            m_ = shape.match("isinstance(_X, int)", a_) or shape.match("isinstance(_X, int)", shape.resolve(a_, fn))
            return m_ is not None and who in m_["_X"] and any(f".{attr}" in m_["_X"] or f"'{attr}'" in m_["_X"] for attr in ("m", "magnitude", "_magnitude"))
        return pred
    divs_ = [c for c in walk_local(fn) if isinstance(c, ast.Call) and call_name(c) == "_mul_div" and len(c.args) >= 2]
    ops_ = [(c, v, _known(c, fn, cond)) for c in divs_ for v, cond in _cases(c.args[1], fn)]
    is_cast_ = lambda v: _is("self._truedivide_cast_int", v, fn)
    refuted_ = lambda facts, pred: any(pred(a_) and t_ is False for a_, t_ in facts)
    ok = any(is_cast_(v) for c, v, facts in ops_) and all(is_cast_(v) or (refuted_(facts, int_magnitude_of("self")) and refuted_(facts, int_magnitude_of("other"))) for c, v, facts in ops_)
    ck.check(ok, "G-PROV", "PlainQuantity.__truediv__|int-cast-if-either-operand-is-int", fi.loc(),
             "an int magnitude on either side is divided in the registry's numeric type",
             "__truediv__ no longer routes through _truedivide_cast_int when *either* operand has an int magnitude (int/int would become a float in Decimal/Fraction registries)")
    fi = ix.func(PQ, "PlainQuantity._truedivide_cast_int")
    fn = fi.node
    # by role: one true division; what reaches its i-th position is the i-th parameter, cast to the registry's
    # non_int_type exactly when it is an int - by re-binding the parameter under the test or by a conditional expression
    tds = [list(c.args) for c in walk_local(fn) if isinstance(c, ast.Call) and norm(c.func) in ("operator.truediv", "truediv") and len(c.args) == 2 and not c.keywords]
    tds += [[b_.left, b_.right] for b_ in walk_local(fn) if isinstance(b_, ast.BinOp) and isinstance(b_.op, ast.Div)]      # `x / y` is the same division
    operands = [a_.arg for a_ in fn.args.args][1:3]

    def casts_int(p_, arg):
        is_int = lambda a_: _is(f"isinstance({p_}, int)", a_, fn)
        is_cast = lambda v: isinstance(v, ast.Call) and not v.keywords and [norm(x) for x in v.args] == [p_] and _is("self._REGISTRY.non_int_type", v.func, fn)
        rebinds = [a_ for a_ in walk_local(fn) if isinstance(a_, ast.Assign) and norm(a_.targets[0]) == p_]
        guarded = [a_ for a_ in rebinds if is_cast(a_.value) and shape.holds_at(a_, fn, is_int, True)]
        seen = len(guarded) == 1 and len(rebinds) == 1
        if rebinds and not seen:
            return False
        for v, cond in _cases(arg, fn):
            facts = _known(arg, fn, cond)
            if is_cast(v) and any(is_int(a_) and t_ is True for a_, t_ in facts):
                seen = True
            elif not (norm(v) == p_ and (rebinds or any(is_int(a_) and t_ is False for a_, t_ in facts))):
                return False
        return seen
    okt = len(tds) == 1 and len(operands) == 2 and all(casts_int(p_, x) for p_, x in zip(operands, tds[0]))
    ck.check(okt, "G-PROV", "PlainQuantity._truedivide_cast_int|casts-ints-to-non_int_type", fi.loc(),
             "ints are cast to non_int_type before dividing", "_truedivide_cast_int no longer casts both int operands to the registry's non_int_type")

    # ------------------------------------------------------------ G-OWN: functional forms write nothing, in-place forms write only self
    for name, inplace in ARITH:
        fi = ix.func(PQ, f"PlainQuantity.{name}")
        for (p, kind, node) in writes_in(fi.node):
            base = p.split(".")[0]
            if base in ("self", "other") and (not inplace or base == "other"):
                ck.fail("G-OWN", f"PlainQuantity.{name}|writes-operand|{p}", fi.loc(node), f"`{norm(node).splitlines()[0]}` modifies `{p}` in a {'n in-place' if inplace else ' functional'} operator form")
        for c in walk_local(fi.node):
            if isinstance(c, ast.Call) and call_name(c).startswith("ito") and isinstance(c.func, ast.Attribute):
                recv = norm(c.func.value)
                ok = inplace and recv == "self"
                ck.check(ok, "G-OWN", f"PlainQuantity.{name}|in-place-conversion-only-of-self|{norm(c)[:40]}", fi.loc(c), "in-place conversion of self in an in-place form",
                         f"`{norm(c)}` converts `{recv}` in place inside {name}: {'an operand other than the target' if inplace else 'a functional form must not modify its operands'}")
        if not inplace:
            for c in walk_local(fi.node):
                if isinstance(c, ast.Call) and call_name(c) == "_convert_magnitude" and norm(c.func.value) in ("self", "other"):
                    ck.fail("G-OWN", f"PlainQuantity.{name}|functional-form-uses-inplace-conversion|{norm(c)[:50]}", fi.loc(c),
                            f"`{norm(c)}`: _convert_magnitude rescales array magnitudes in place; a functional form must use _convert_magnitude_not_inplace")
    ck.ok("G-OWN", "operator-forms|write-discipline-scanned", PQ, f"{len(ARITH)} operator methods scanned for writes to operands")

    # ------------------------------------------------------------ G-TWIN: bare-number branch of _add_sub/_iadd_sub and gates (C03-c)
    for q in ("PlainQuantity._add_sub", "PlainQuantity._iadd_sub"):
        fi = ix.func(PQ, q)
        cfg = cfg_of(fi)
        fn = fi.node
        checked = lambda a_: _is("self._check(other)", a_, fn)
        zero = lambda a_: _is("zero_or_nan(other, True)", a_, fn)
        dimless = lambda a_: _is("self.dimensionless", a_, fn)
        bare = shape.guard_edges(cfg, checked, False)
        ck.check(bool(bare), "G-DOM", f"{q}|registry-check-first", fi.loc(), "operands are checked with self._check(other)", "the self._check(other) test is gone")
        # by role: where `other` is not a quantity of this registry, the operator is applied only to a zero/NaN number or
        # by a dimensionless quantity; what is left (dimensional quantity, non-zero number) raises
        combos = [c for c in walk_local(fn) if isinstance(c, ast.Call) and isinstance(c.func, ast.Name) and c.func.id == "op" and shape.holds_at(c, fn, checked, False)]
        # ... on every path: a combination placed after the if/elif/else that selects the operands is still reached only
        # over an edge on which one of the two conditions holds (the remaining edge raises)
        safe = shape.guard_edges(cfg, zero, True) + shape.guard_edges(cfg, dimless, True)
        def reached_unguarded(c):
            at = nodes_with(cfg, lambda x: x is c)
            return not at or shape.reachable_without(cfg, live(cfg, at), safe) is not None
        unguarded = [c for c in combos if not (shape.holds_at(c, fn, zero, True) or shape.holds_at(c, fn, dimless, True)) and reached_unguarded(c)]
        ck.check(bool(combos) and not unguarded, "G-DOM", f"{q}|bare-number-guards-present", fi.loc(unguarded[0]) if unguarded else fi.loc(), "bare numbers guarded by zero_or_nan / dimensionless",
                 "the zero_or_nan / dimensionless guards for bare numbers are gone" + (f": `{norm(unguarded[0])[:80]}` combines the magnitude with a bare number that is neither zero/NaN nor met by a dimensionless quantity" if unguarded else ""))
        for d, lab in sorted(set(shape.guard_edges(cfg, dimless, False))):
            p = edge_leads_only_to_raise(cfg, d, lab)
            ck.check(p is None, "G-DOM", f"{q}|dimensional-plus-bare-number-raises", fi.loc(cfg.nodes[d].ast), "dimensional quantity +- non-zero number raises DimensionalityError",
                     "a dimensional quantity can be added to a non-zero bare number", witness(cfg, p))
        gate = [n.id for n in cfg.nodes if n.kind == "test" and "self.dimensionality" in norm(n.ast) and "other.dimensionality" in norm(n.ast)]
        reads_other = lambda x: any(isinstance(y, ast.Attribute) and y.attr in ("_magnitude", "magnitude", "m", "to") and _derives_from(defs_of(fi).roots(y.value), "other") for y in ast.walk(shape.resolve(x, fn)))
        ops = nodes_with(cfg, lambda x: isinstance(x, ast.Call) and isinstance(x.func, ast.Name) and x.func.id == "op" and reads_other(x))
        for o in live(cfg, ops):
            p = undominated(cfg, [o], gate)
            ck.check(bool(gate) and p is None, "G-DOM", f"{q}|dimensionality-gate-dominates-combination", fi.loc(cfg.nodes[o].ast), "two quantities are only combined after the dimensionality test",
                     "two quantity magnitudes can be combined without the dimensionality test", witness(cfg, p))
    exponent_rule(ck, ix)
    scalar_coercion_rule(ck, ix)
    from .C05 import eq_zero_rule
    eq_zero_rule(ck, ix)  # equality is one of the operators of C03
    from .C16 import inplace_primitives_rule
    inplace_primitives_rule(ck, ix)  # only in-place forms may rescale/rebind their target
    from .. import memo as _memo3
    _memo3.rule_quantity_dimensionality_memo(ck, ix)  # the dimension gate of + - < reads the memoised Quantity.dimensionality
    return EXPLANATION
