"""C07 — string expressions evaluate like ordinary arithmetic; no code execution."""
from __future__ import annotations

import ast
import re

from .. import lib, shape
from ..flow import Defs, call_name, dotted, norm
from ..index import AnalysisError, FuncInfo, Resolver, walk_local
from ..lib import cfg_of, defs_of, edge_leads_only_to_raise, live, nodes_with, return_nodes, witness

PE = "pint.pint_eval"
PR = "pint.facets.plain.registry"
U = "pint.util"

EXPLANATION = (
    "Static analysis (no execution): G-REACH call-graph reachability from the expression-parsing entry points (the "
    "operator maps' dynamic dispatch into the Quantity/ParserHelper dunders is modelled explicitly) to code-execution "
    "and I/O sinks (eval, exec, compile, __import__, import_module, open, os.*, subprocess.*, pickle, ctypes): every "
    "reached sink must take constant arguments or be dominated by a membership test of its argument in a module-level "
    "constant table, and attribute access by computed name (getattr/setattr with a non-constant name) must not be "
    "reachable with a name derived from token text; G-TABLE operator tables against Python's grammar (relations among "
    "_OP_PRIORITY values, right-associativity only for **/^, every symbol mapped to the operator function of the same "
    "meaning, '' = multiplication, ^ rewritten to ** by the preprocessor, every priority key evaluable); the "
    "left-associativity comparisons of the tree builder use <=; every `return result` of the builder is dominated by "
    "`assert result is not None` or a truthiness test, unopened/unclosed parentheses and unknown operators raise; "
    "tokens are evaluated in the registry's numeric type with integers first; the sign sets of the exponent "
    "look-ahead and of its consumer agree. Does not decide that the precedence-climbing recursion realises those "
    "tables for every token adjacency, nor the word-form/unicode regexes.")
EXPLANATION += ' Also decided (rules added after the second round of seeded changes): token conservation in the uncertainty tokenizer (every named token reaches the output, an optionally present token such as the unary minus is yielded unchanged) and look-ahead offset agreement (the exponent is searched right behind the last token the branch guard inspected, with the same optional-minus shift).'
EXPLANATION += ' Also decided (round 8): on the syntax tree of the regular expression (re._parser, nothing is matched), the _subs_re_list entry that rewrites juxtaposition by blanks to `*` consumes a run of whitespace.'

HARD_SINKS = {"eval", "exec", "compile", "__import__", "import_module", "open", "system", "popen", "Popen", "run", "call", "check_output",
              "loads", "load", "execfile", "spawn", "CDLL"}
HARD_SINK_QUAL = {"eval", "exec", "compile", "__import__", "importlib.import_module", "import_module", "open", "os.system", "os.popen", "subprocess.Popen", "subprocess.run",
                  "subprocess.call", "subprocess.check_output", "pickle.loads", "pickle.load", "ctypes.CDLL"}

PY_PREC = "** binds tighter than unary +/-, which binds tighter than * / // % and juxtaposition, which bind tighter than + -"


def _const_table(mod, name):
    v = mod.assigns.get(name)
    if isinstance(v, ast.Dict):
        out = {}
        for k, val in zip(v.keys, v.values):
            if isinstance(k, ast.Constant):
                out[k.value] = val
        return out
    return None



# ---------------------------------------------------------------- helpers (candidates by role, checks by shape)
def _m(e, *patterns):
    """Bindings of the first pattern (shape.match syntax) that matches expression `e`, else None."""
    for p in patterns:
        b = shape.match(p, e)
        if b is not None:
            return b
    return None


def _rm(e, fn, *patterns):
    """_m on `e` as written and on `e` with the local temporaries of `fn` resolved."""
    b = _m(e, *patterns)
    return b if b is not None else _m(shape.resolve(e, fn), *patterns)


_MIRROR = {ast.Lt: ast.Gt, ast.LtE: ast.GtE, ast.Gt: ast.Lt, ast.GtE: ast.LtE, ast.Eq: ast.Eq, ast.NotEq: ast.NotEq}


def _eq_const(a, value, side_ok):
    """`a` is `<side> == <value>` (either operand order) and side_ok(<side>) holds."""
    if not (isinstance(a, ast.Compare) and len(a.ops) == 1 and isinstance(a.ops[0], ast.Eq)):
        return False
    l, r = a.left, a.comparators[0]
    for x, y in ((l, r), (r, l)):
        if isinstance(y, ast.Constant) and y.value == value and side_ok(x):
            return True
    return False


def _eq_name(a, name, side_ok):
    """`a` is `<side> == <name>` (either operand order), <name> a module-level name, and side_ok(<side>) holds."""
    if not (isinstance(a, ast.Compare) and len(a.ops) == 1 and isinstance(a.ops[0], ast.Eq)):
        return False
    l, r = a.left, a.comparators[0]
    return any(isinstance(y, ast.Name) and y.id == name and side_ok(x) for x, y in ((l, r), (r, l)))


def _raising_edges(cfg, pred, truth):
    """Edges on which an atom satisfying `pred` is known to be `truth` and from which only raise statements follow."""
    return [(t, lab) for (t, lab) in shape.guard_edges(cfg, pred, want=truth) if edge_leads_only_to_raise(cfg, t, lab) is None]


def _literal_strings(e, consts):
    """The strings of a literal tuple/list/set of strings or of a single string constant (a module-level constant name is
    looked up), else None."""
    if isinstance(e, ast.Name) and e.id in consts:
        e = consts[e.id]
    if isinstance(e, ast.Constant) and isinstance(e.value, str):
        return [e.value]
    if isinstance(e, (ast.Tuple, ast.List, ast.Set)) and e.elts and all(isinstance(x, ast.Constant) and isinstance(x.value, str) for x in e.elts):
        return sorted(x.value for x in e.elts)
    return None


def _flow_into(fn, sinks):
    """Names of `fn` whose value can reach one of the `sinks` (expressions) through assignments / loop bindings."""
    defs = Defs(fn)
    flow = {n.id for s in sinks for n in ast.walk(s) if isinstance(n, ast.Name)}
    changed = True
    while changed:
        changed = False
        for name, ds in defs.defs.items():
            if name in flow:
                for (v, kind, st) in ds:
                    for n in (ast.walk(v) if v is not None else ()):
                        if isinstance(n, ast.Name) and n.id not in flow:
                            flow.add(n.id)
                            changed = True
    return flow


def _reaches(node, fn, sinks, flow=None):
    """The value computed at `node` can reach one of the sink expressions: it is part of a sink, or part of the value
    bound to a name that flows into a sink."""
    flow = _flow_into(fn, sinks) if flow is None else flow
    if any(node is x for s in sinks for x in ast.walk(s)):
        return True
    cur = node
    while cur is not None and cur is not fn:
        par = getattr(cur, "_parent", None)
        if isinstance(par, (ast.Assign, ast.AnnAssign, ast.AugAssign, ast.NamedExpr)) and cur is par.value:
            tg = par.targets if isinstance(par, ast.Assign) else [par.target]
            if any(isinstance(n, ast.Name) and n.id in flow for t in tg for n in ast.walk(t)):
                return True
        cur = par
    return False


def _alternatives(e, fn, depth=4):
    """[(value expression, facts)]: the values expression `e` (a node of `fn`) can take, each with the atomic conditions
    (shape.facts_at format) known to hold when it is taken.  Sees through conditional expressions, through local names
    with a dominating definition, and through a local name assigned in every branch of the closest preceding `if`
    statement - so `k = a if c else b`, `if c: k = a / else: k = b` and the expression written in place are alike."""
    here = shape.facts_at(e, fn)
    if isinstance(e, ast.IfExp):
        return _alternatives(e.body, fn, depth) + _alternatives(e.orelse, fn, depth)
    if isinstance(e, ast.Name) and isinstance(e.ctx, ast.Load) and depth > 0:
        v = shape.dominating_def(e, fn)
        if v is not None:
            return [(x, f + here) for x, f in _alternatives(v, fn, depth - 1)]
        cur = e
        while True:
            loc = shape._block_and_index(cur)
            if loc is None:
                break
            par, lst, idx = loc
            binder = next((st for st in reversed(lst[:idx]) if any(isinstance(x, ast.Name) and x.id == e.id and isinstance(x.ctx, ast.Store) for x in ast.walk(st))), None)
            if binder is not None:
                assigns = [a for a in ast.walk(binder) if isinstance(a, ast.Assign) and len(a.targets) == 1 and isinstance(a.targets[0], ast.Name) and a.targets[0].id == e.id]
                stores = [x for x in ast.walk(binder) if isinstance(x, ast.Name) and x.id == e.id and isinstance(x.ctx, ast.Store)]
                covers = lambda stmts: any(isinstance(st, ast.Assign) and any(a is st for a in assigns) for st in stmts) or any(isinstance(st, ast.If) and covers(st.body) and covers(st.orelse) for st in stmts)
                if isinstance(binder, ast.If) and len(assigns) == len(stores) and covers(binder.body) and covers(binder.orelse):
                    return [(x, f + here) for a in assigns for x, f in _alternatives(a.value, fn, depth - 1)]
                break
            if par is fn or isinstance(par, (ast.FunctionDef, ast.AsyncFunctionDef, ast.Lambda, ast.For, ast.While, ast.AsyncFor)):
                break
            cur = par
    return [(e, here)]


def _selected_by(alts, cond, when_true, when_false):
    """The alternatives are exactly: a value satisfying `when_true` where an atom satisfying `cond` holds, and a value
    satisfying `when_false` where it is known not to hold (both present)."""
    kinds = set()
    for x, facts in alts:
        if when_true(x) and any(t and cond(a) for a, t in facts):
            kinds.add(True)
        elif when_false(x) and any((not t) and cond(a) for a, t in facts):
            kinds.add(False)
        else:
            return False
    return kinds == {True, False}


def _own_function(n):
    while n is not None and not isinstance(n, (ast.FunctionDef, ast.AsyncFunctionDef, ast.Lambda)):
        n = getattr(n, "_parent", None)
    return n


# ---------------------------------------------------------------- the uncertainty tokenizer
def _token_stream(tok):
    """(loop, name): the main loop of uncertainty_tokenizer = the `for` that iterates over the look-ahead iterator, and
    the local name that iterator is bound to (found by its value `IteratorLookAhead(...)`, not by its spelling)."""
    for loop in [l for l in walk_local(tok.node) if isinstance(l, ast.For)]:
        if isinstance(loop.iter, ast.Name) and _m(shape.unalias(loop.iter, tok.node), "IteratorLookAhead(_X)") is not None:
            return loop, loop.iter.id
    raise AnalysisError("uncertainty_tokenizer: no loop over an IteratorLookAhead(...) found")


def _dispatch_depth(node, loop):
    """Number of `if` statements between `node` and the main loop, an if/elif/else chain counting once: 1 = directly in
    a branch of the dispatch chain, 2 = under a further condition inside a branch."""
    depth, cur = 0, node
    while cur is not None and cur is not loop:
        par = getattr(cur, "_parent", None)
        if isinstance(par, ast.If) and cur is not par.test:
            elif_link = isinstance(getattr(par, "_parent", None), ast.If) and par._parent.orelse == [par]
            if not elif_link:
                depth += 1
        cur = par
    return depth


def tokenizer_helpers(ix):
    """The helpers of uncertainty_tokenizer (nested in it, or private module-level functions it calls), found by what they
    do (their names are local names):
      'lookahead' (_get_possible_e)    looks ahead in the token stream it is given (`<param>.lookahead(...)`) without
                                       consuming from it, and is called from the body of the tokenizer;
      'consumer'  (_finalize_e)        consumes tokens from the stream it is given (`next(<param>)`);
      'apply'     (_apply_e_notation)  the nested helper the consumer calls to fold the exponent into a token.
    Returns {role: FuncInfo}; a role that cannot be found is an analysis error (exit 2), never a silent pass."""
    pe = ix.module(PE)
    tok = ix.func(PE, "uncertainty_tokenizer")
    # candidates: the functions nested in the tokenizer, and the private module-level functions it calls (directly or
    # through another candidate) - a nested helper may be moved to module level, its closure variables becoming arguments
    private = {g.name: g for g in pe.all_functions if g.parent is None and g.cls is None and isinstance(g.node, ast.FunctionDef) and g.name.startswith("_") and g is not tok}
    nested = [g for g in pe.all_functions if g.parent is tok and isinstance(g.node, ast.FunctionDef)]
    todo = [tok] + list(nested)
    while todo:
        g = todo.pop()
        for c in ast.walk(g.node):
            if isinstance(c, ast.Call) and isinstance(c.func, ast.Name) and c.func.id in private and private[c.func.id] not in nested:
                nested.append(private[c.func.id])
                todo.append(private[c.func.id])
    params = lambda g: [a.arg for a in g.node.args.args]
    calls = lambda node: [c for c in walk_local(node) if isinstance(c, ast.Call)]
    consumes = lambda g: any(isinstance(c.func, ast.Name) and c.func.id == "next" and c.args and isinstance(c.args[0], ast.Name) and c.args[0].id in params(g) for c in calls(g.node))
    looks = lambda g: any(isinstance(c.func, ast.Attribute) and c.func.attr == "lookahead" and isinstance(c.func.value, ast.Name) and c.func.value.id in params(g) for c in calls(g.node))
    called_from = lambda g, node: any(isinstance(c.func, ast.Name) and c.func.id == g.name for c in calls(node))
    roles = {}
    la = [g for g in nested if looks(g) and not consumes(g) and called_from(g, tok.node)]
    co = [g for g in nested if consumes(g)]
    if len(la) == 1:
        roles["lookahead"] = la[0]
    if len(co) == 1:
        roles["consumer"] = co[0]
        ap = [g for g in nested if g is not co[0] and called_from(g, co[0].node)]
        if len(ap) == 1:
            roles["apply"] = ap[0]
    missing = [r for r in ("lookahead", "consumer", "apply") if r not in roles]
    if missing:
        raise AnalysisError(f"uncertainty_tokenizer: nested helper(s) with role {missing} not found (exponent look-ahead / token consumer / exponent folding)")
    return roles


_ROLE_LABEL = {"lookahead": "_get_possible_e", "consumer": "_finalize_e"}


def exponent_sign_sets(ix):
    """{helper label: [sorted sign set, ...]} for the membership / equality tests against literal sets of '+' / '-' in
    the exponent look-ahead (label _get_possible_e) and in its consumer (label _finalize_e), whatever their polarity."""
    pe = ix.module(PE)
    consts = shape.module_constants(pe)
    roles = tokenizer_helpers(ix)
    sets = {}
    for role, label in _ROLE_LABEL.items():
        f = roles[role]
        for c in walk_local(f.node):
            if isinstance(c, ast.Compare) and len(c.ops) == 1 and isinstance(c.ops[0], (ast.In, ast.NotIn, ast.Eq, ast.NotEq)):
                for side in (c.comparators[0], c.left):
                    vals = _literal_strings(side, consts)
                    if vals and set(vals) <= {"+", "-"}:
                        sets.setdefault(label, []).append(vals)
    return sets


def plus_minus_sign_rewritten(ix):
    """What uncertainty_tokenizer hands to plain_tokenizer is its input with '±' replaced by '+/-'."""
    tok = ix.func(PE, "uncertainty_tokenizer")
    return lib.has(ix, tok, "plain_tokenizer(input_string.replace('±', '+/-'))")


def token_conservation_rule(ck, ix):
    """uncertainty_tokenizer rewrites the token stream.  Tokens taken with next(<stream>) are either syntax of the
    uncertainty notation (+ / - ( ) whose presence the branch guard has asserted by look-ahead) or content.  (1) every
    token bound to a name reaches a yielded token (directly, as a field of a rebuilt token, or through the consumer helper);
    (2) a token that is consumed *conditionally* (only present for some inputs: the unary minus of '(-3 +/- 1)') is
    content and must be yielded as it is."""
    tok = ix.func(PE, "uncertainty_tokenizer")
    ck.analysed(tok)
    loop, stream = _token_stream(tok)
    is_next = lambda c: isinstance(c, ast.Call) and isinstance(c.func, ast.Name) and c.func.id == "next" and len(c.args) >= 1 and isinstance(c.args[0], ast.Name) and c.args[0].id == stream
    yields = [y for y in walk_local(tok.node) if isinstance(y, ast.Yield) and y.value is not None]
    flow = _flow_into(tok.node, [y.value for y in yields])
    named = [a for a in walk_local(tok.node) if isinstance(a, ast.Assign) and is_next(a.value) and isinstance(a.targets[0], ast.Name)]
    ck.floor("G-TYPESTATE", len(named), 3, "tokens bound to names in uncertainty_tokenizer")
    for a in named:
        nm = a.targets[0].id
        ck.check(nm in flow, "G-TYPESTATE", f"uncertainty_tokenizer|consumed-token-reaches-output|{nm}", tok.loc(a), f"token `{nm}` reaches a yielded token", f"the token bound to `{nm}` is consumed and never reaches the output stream")
    # conditional consumption: a next(<stream>) under a further condition inside a branch of the dispatch chain
    cond = 0
    for c in [c for c in walk_local(loop) if is_next(c) and _dispatch_depth(c, loop) >= 2]:
        cond += 1
        st = c
        while not isinstance(st, ast.stmt):
            st = st._parent
        block = next((getattr(st._parent, f) for f in ("body", "orelse", "finalbody") if any(x is st for x in getattr(st._parent, f, []) or [])), [])
        later = block[[i for i, x in enumerate(block) if x is st][0] + 1:]
        ok = (isinstance(st, ast.Expr) and isinstance(st.value, ast.Yield) and st.value.value is c) \
            or (isinstance(st, ast.Assign) and st.value is c and isinstance(st.targets[0], ast.Name)
                and any(isinstance(y, ast.Expr) and isinstance(y.value, ast.Yield) and isinstance(y.value.value, ast.Name) and y.value.value.id == st.targets[0].id for y in later))
        guard = next((p for p in _ancestors(st) if isinstance(p, ast.If)), None)
        gtxt = _positive_text(guard.test) if guard is not None else "?"
        ck.check(ok, "G-TYPESTATE", f"uncertainty_tokenizer|optional-token-is-yielded|if {gtxt}", tok.loc(st), "an optional token is passed on unchanged",
                 f"under `if {gtxt}:` a token is consumed with `{norm(st)}` and not yielded: an optional token (the sign of the nominal value) is content, dropping it changes the value")
    ck.floor("G-TYPESTATE", cond, 1, "conditionally consumed tokens in uncertainty_tokenizer")


def _ancestors(n):
    n = getattr(n, "_parent", None)
    while n is not None:
        yield n
        n = getattr(n, "_parent", None)


def _positive_text(test):
    """Text of a test without its leading negations (so that `if not c: ... else: X` and `if c: X` name X's guard alike)."""
    while isinstance(test, ast.UnaryOp) and isinstance(test.op, ast.Not):
        test = test.operand
    return norm(test)


def lookahead_offsets_rule(ck, ix):
    """In each branch of the uncertainty tokenizer the guard inspects tokens at look-ahead offsets 0..k (shifted by the
    optional-minus count where there is one) and the trailing exponent is searched right behind the last inspected
    token: offset k+1 with the same shift.  The number of tokens consumed equals the number inspected.
    The guard of a branch = the atomic conditions known to hold where the exponent search executes (shape.facts_at), so
    the spelling of the dispatch (elif chain, guard clauses, flipped tests) does not matter."""
    tok = ix.func(PE, "uncertainty_tokenizer")
    fn = tok.node

    def comp_range(name_node):
        """The integers a comprehension variable ranges over when it counts the elements of a literal sequence
        (`for i, x in enumerate(<literal>[, start])`, `for i in range(a[, b])`); None if it is not such a variable."""
        for p in _ancestors(name_node):
            for g in getattr(p, "generators", []) or []:
                bound = [x.id for x in ast.walk(g.target) if isinstance(x, ast.Name)]
                if name_node.id not in bound:
                    continue
                it = g.iter
                if isinstance(it, ast.Call) and isinstance(it.func, ast.Name) and it.func.id == "enumerate" and it.args and isinstance(g.target, ast.Tuple) \
                        and isinstance(g.target.elts[0], ast.Name) and g.target.elts[0].id == name_node.id:
                    seq = it.args[0]
                    size = len(seq.value) if isinstance(seq, ast.Constant) and isinstance(seq.value, str) else (len(seq.elts) if isinstance(seq, (ast.Tuple, ast.List)) else None)
                    first = it.args[1] if len(it.args) > 1 else next((k.value for k in it.keywords if k.arg == "start"), None)
                    lo = 0 if first is None else (first.value if isinstance(first, ast.Constant) and isinstance(first.value, int) else None)
                    return list(range(lo, lo + size)) if size is not None and lo is not None else []
                if isinstance(it, ast.Call) and isinstance(it.func, ast.Name) and it.func.id == "range" and isinstance(g.target, ast.Name) and all(isinstance(a, ast.Constant) and isinstance(a.value, int) for a in it.args) and 1 <= len(it.args) <= 2:
                    return list(range(*[a.value for a in it.args]))
                return []
        return None

    def offsets(e):
        """[(has_shift, constant), ...]: the values of an offset expression; a plain local name is the optional-token
        shift, a comprehension variable counting a literal sequence ranges over constants.  [] if not understood."""
        if isinstance(e, ast.Constant) and isinstance(e.value, int):
            return [(False, e.value)]
        if isinstance(e, ast.Name):
            r = comp_range(e)
            return [(True, 0)] if r is None else [(False, k) for k in r]
        if isinstance(e, ast.BinOp) and isinstance(e.op, ast.Add):
            return [(a[0] or b[0], a[1] + b[1]) for a in offsets(e.left) for b in offsets(e.right)]
        return []

    def offset(e):
        """(has_shift, constant) of an offset expression with a single value, or None"""
        o = offsets(e)
        return o[0] if len(o) == 1 else None

    is_la = lambda c: isinstance(c, ast.Call) and isinstance(c.func, ast.Attribute) and c.func.attr == "lookahead" and c.args
    exp_search = tokenizer_helpers(ix)["lookahead"].name      # the nested helper that searches the exponent, found by role

    def guard_of(node):
        """(offsets inspected by the conditions that hold at `node`, line of the innermost branch whose test inspects)"""
        la = [o for a, truth in shape.facts_at(node, fn) if truth for c in ast.walk(a) if is_la(c) for o in offsets(c.args[0])]
        line = next((p.lineno for p in _ancestors(node) if isinstance(p, ast.If) and any(is_la(c) for c in ast.walk(p.test))), fn.lineno)
        return la, line

    def in_test(node):
        prev = node
        for p in _ancestors(node):
            if isinstance(p, (ast.If, ast.While, ast.IfExp)) and prev is p.test:
                return True
            if isinstance(p, ast.stmt):
                return False
            prev = p
        return False

    n = 0
    for c in [c for c in walk_local(fn) if isinstance(c, ast.Call)]:
        if isinstance(c.func, ast.Name) and c.func.id == exp_search and len(c.args) >= 2:
            la, line = guard_of(c)
            if not la:
                continue
            shifted, top = any(h for h, _ in la), max(k for _, k in la)
            n += 1
            o = offset(c.args[1])
            ok = o is not None and o[1] == top + 1 and o[0] == shifted
            ck.check(ok, "G-TWIN", f"uncertainty_tokenizer|exponent-searched-behind-last-inspected-token|L{line - fn.lineno}", tok.loc(c),
                     f"exponent look-ahead at offset {'seen_minus + ' if shifted else ''}{top + 1}",
                     f"`{norm(c)}`: the guard of this branch inspects look-ahead offsets up to {'seen_minus + ' if shifted else ''}{top}; the exponent must be searched at {'seen_minus + ' if shifted else ''}{top + 1} (with an optional leading minus the fixed offset points at the closing parenthesis and the exponent tokens leak into the expression)")
        elif is_la(c) and not in_test(c):
            # look-ahead calls in the body of a branch (e.g. `.end` of the closing token) use the same shift
            la, line = guard_of(c)
            o = offset(c.args[0])
            if not la or o is None or not any(h for h, _ in la):
                continue
            n += 1
            top = max(k for _, k in la)
            ck.check(o[0] and o[1] <= top, "G-TWIN", f"uncertainty_tokenizer|body-lookahead-shifted|L{c.lineno - fn.lineno}", tok.loc(c), "body look-ahead uses the shifted offset",
                     f"`{norm(c)}` in a branch with an optional leading minus must be shifted by seen_minus and stay within the inspected tokens")
    ck.floor("G-TWIN", n, 2, "exponent look-ahead sites in uncertainty_tokenizer")


def run(ck, ix, tier):
    rs = Resolver(ix)
    pe = ix.module(PE)
    ck.rule("G-REACH", "no call chain from the parser entry points reaches an execution/I-O sink with non-constant arguments")
    ck.rule("G-TABLE", "operator tables agree with Python's grammar")

    # ------------------------------------------------------------ (b) operator tables
    prio = _const_table(pe, "_OP_PRIORITY")
    binm = _const_table(pe, "_BINARY_OPERATOR_MAP")
    unm = _const_table(pe, "_UNARY_OPERATOR_MAP")
    if prio is None or binm is None or unm is None:
        raise AnalysisError("operator tables of pint_eval are not literal dicts")
    P = {k: (v.value if isinstance(v, ast.Constant) else None) for k, v in prio.items()}
    where = pe.relpath
    def rel(a, op, b, why):
        if a not in P or b not in P or P[a] is None or P[b] is None:
            ck.fail("G-TABLE", f"_OP_PRIORITY|{a}{op}{b}", where, f"priority of `{a}` or `{b}` missing from _OP_PRIORITY")
            return
        ok = {">": P[a] > P[b], "==": P[a] == P[b]}[op]
        ck.check(ok, "G-TABLE", f"_OP_PRIORITY|{a or 'juxtaposition'}{op}{b or 'juxtaposition'}", where, f"{why} ({P[a]} {op} {P[b]})",
                 f"_OP_PRIORITY gives `{a or 'juxtaposition'}`={P[a]} and `{b or 'juxtaposition'}`={P[b]}, but Python requires priority({a or 'juxtaposition'}) {op} priority({b or 'juxtaposition'}): {PY_PREC}")
    rel("**", ">", "unary", "** binds tighter than unary sign")
    rel("**", "==", "^", "^ is a spelling of **")
    rel("unary", ">", "*", "unary sign binds tighter than *")
    for o in ("/", "//", "%", ""):
        rel("*", "==", o, f"`{o or 'juxtaposition'}` has the priority of *")
    rel("*", ">", "+", "* binds tighter than +")
    rel("+", "==", "-", "+ and - have equal priority")
    rel("+/-", ">", "**", "the uncertainty operator binds tightest")
    # evaluators: same meaning
    want = {"**": "_power", "*": "operator.mul", "": "operator.mul", "/": "operator.truediv", "+": "operator.add", "-": "operator.sub", "%": "operator.mod", "//": "operator.floordiv", "+/-": "_ufloat"}
    for sym, fn in want.items():
        got = norm(binm[sym]) if sym in binm else None
        ck.check(got == fn, "G-TABLE", f"_BINARY_OPERATOR_MAP|{sym or 'juxtaposition'}", where, f"`{sym or 'juxtaposition'}` -> {fn}", f"`{sym or 'juxtaposition'}` is evaluated with `{got}` instead of {fn}")
    for sym in binm:
        ck.check(sym in want, "G-TABLE", f"_BINARY_OPERATOR_MAP|known-symbol|{sym}", where, "known operator", f"unexpected binary operator `{sym}` -> {norm(binm[sym])}")
    for sym in P:
        if sym in ("unary", "^"):
            continue
        ck.check(sym in binm, "G-TABLE", f"_OP_PRIORITY|{sym or 'juxtaposition'}-has-evaluator", where, "every parsed operator can be evaluated", f"operator `{sym}` has a priority but no evaluator")
    pw = pe.functions.get("_power")
    pw_rets = shape.returns_of(pw.node) if pw else []
    ck.check(bool(pw_rets) and all(_m(r.value, "operator.pow(left, right)", "pow(left, right)", "left ** right") is not None for r in pw_rets), "G-TABLE", "_power|is-pow", pw.loc() if pw else where, "_power is exponentiation", "_power no longer returns operator.pow(left, right)")
    plus, minus = unm.get("+"), unm.get("-")
    ck.check(plus is not None and isinstance(plus, ast.Lambda) and norm(plus.body) == plus.args.args[0].arg, "G-TABLE", "_UNARY_OPERATOR_MAP|+", where, "unary + is the identity", "unary + is no longer the identity")
    ok = minus is not None and isinstance(minus, ast.Lambda) and norm(minus.body).replace(" ", "") in (f"{minus.args.args[0].arg}*-1", f"-{minus.args.args[0].arg}", f"-1*{minus.args.args[0].arg}")
    ck.check(ok, "G-TABLE", "_UNARY_OPERATOR_MAP|-", where, "unary - negates", "unary - no longer negates its operand")
    sp = ix.func(U, "string_preprocessor")
    ck.analysed(sp)
    # a rewrite counts when its result reaches the returned string (whatever the names of the intermediate strings)
    sp_sinks = [r.value for r in shape.returns_of(sp.node)]
    sp_flow = _flow_into(sp.node, sp_sinks)
    rewrites = lambda a, b: any(_reaches(c, sp.node, sp_sinks, sp_flow) for c in walk_local(sp.node) if isinstance(c, ast.Call) and _m(c, f"_S.replace({a!r}, {b!r})") is not None)
    ck.check(rewrites("^", "**"), "G-TABLE", "string_preprocessor|caret-is-power", sp.loc(), "^ is rewritten to **", "the preprocessor no longer rewrites ^ to **")
    ck.check(rewrites(" per ", "/"), "G-TABLE", "string_preprocessor|per-is-division", sp.loc(), "' per ' is rewritten to /", "the preprocessor no longer rewrites ' per ' to /")
    subs = ix.module(U).assigns.get("_subs_re_list")
    if isinstance(subs, ast.List):
        pairs = {}
        for e in subs.elts:
            if isinstance(e, ast.Tuple) and len(e.elts) == 2 and all(isinstance(x, ast.Constant) for x in e.elts):
                pairs[e.elts[0].value] = e.elts[1].value
        for pat, rep in (("({}) squared", "\\1**2"), ("({}) cubed", "\\1**3"), ("cubic ({})", "\\1**3"), ("square ({})", "\\1**2"), ("sq ({})", "\\1**2")):
            ck.check(pairs.get(pat) == rep, "G-TABLE", f"_subs_re_list|{pat}", U, f"`{pat}` -> `{rep}`", f"word form `{pat}` is rewritten to `{pairs.get(pat)}` instead of `{rep}`")
        # regex syntax tree (re._parser, nothing is matched or executed): the entry that turns juxtaposition by blanks into
        # `*` - replacement `\\1*`, pattern with a look-ahead for the next operand - must consume a RUN of whitespace
        # (`\\s+`): the earlier space-merging entry does not cover `)`, so `a/(b)  (c)` relies on it
        try:
            import re._parser as _rp
            import re._constants as _rc
        except ImportError:      # Python < 3.11
            import sre_parse as _rp
            import sre_constants as _rc

        def has_space_run(tree):
            for op, av in tree:
                if op is _rc.MAX_REPEAT or op is _rc.MIN_REPEAT:
                    lo, hi, sub = av
                    if lo >= 1 and hi == _rc.MAXREPEAT and any(o is _rc.IN and any(x == (_rc.CATEGORY, _rc.CATEGORY_SPACE) for x in a) for o, a in sub):
                        return True
                    if has_space_run(sub):
                        return True
                elif op is _rc.SUBPATTERN:
                    if has_space_run(av[-1]):
                        return True
                elif op is _rc.BRANCH:
                    if any(has_space_run(b) for b in av[1]):
                        return True
            return False
        n_mul = 0
        for pat, rep in pairs.items():
            if rep != "\\1*" or "(?=" not in pat or not ("\\s" in pat or " " in pat):
                continue
            n_mul += 1
            try:
                tree = _rp.parse(pat.format("[_a-zA-Z][_a-zA-Z0-9]*"))
                okr = has_space_run(tree)
            except Exception:
                okr = False
            ck.check(okr, "G-TABLE", "_subs_re_list|blank-run-is-multiplication", U, "juxtaposition by any run of whitespace is rewritten to *",
                     f"the pattern `{pat}` -> `{rep}` does not consume a run of whitespace (`\\s+`): `)` followed by two blanks or a tab and `(` is no longer multiplication at the priority of `*` (2/(4)  (5) parses as 2/((4)(5)))")
        ck.floor("G-TABLE", n_mul, 1, "blank-juxtaposition entry of _subs_re_list")
    pt = ix.module(U).assigns.get("_pretty_table")
    if isinstance(pt, ast.Call) and len(pt.args) == 2 and all(isinstance(a, ast.Constant) for a in pt.args):
        a, b = pt.args[0].value, pt.args[1].value
        exp = dict(zip("⁰¹²³⁴⁵⁶⁷⁸⁹·⁻", "0123456789*-"))
        got = dict(zip(a, b))
        ck.check(len(a) == len(b) and all(got.get(k) == v for k, v in exp.items()), "G-TABLE", "_pretty_table|superscripts-dot-minus", U, "superscript digits, middle dot and superscript minus map to 0-9, * and -",
                 f"_pretty_table maps {''.join(k for k in exp if got.get(k) != exp[k])!r} wrongly")

    # ------------------------------------------------------------ tree builder
    fb = ix.func(PE, "_build_eval_tree")
    ck.analysed(fb)
    cfg = cfg_of(fb)
    fn = fb.node
    consts = shape.module_constants(fb.module)
    # role: the operator text = the expression whose membership in the priority table (parameter op_priority) is tested
    opt = {shape.rnorm(c.left, fn) for c in walk_local(fn) if isinstance(c, ast.Compare) and len(c.ops) == 1 and isinstance(c.ops[0], (ast.In, ast.NotIn)) and norm(c.comparators[0]) == "op_priority"}
    ck.floor("G-TABLE", len(opt), 1, "membership tests of the operator text in op_priority")
    is_optext = lambda e: shape.rnorm(e, fn) in opt
    # right-associativity only for ** and ^
    ra = []
    for t in walk_local(fn):
        if isinstance(t, ast.Compare) and len(t.ops) == 1 and isinstance(t.ops[0], (ast.NotIn, ast.In)) and is_optext(t.left):
            vals = _literal_strings(t.comparators[0], consts)
            if vals and any(v in ("**", "^") for v in vals):
                ra.append((t, vals))
    ok = len(ra) == 1 and ra[0][1] == ["**", "^"]
    ck.check(ok, "G-TABLE", "_build_eval_tree|right-associative-only-power", fb.loc(ra[0][0]) if ra else fb.loc(), "only ** and ^ group right-to-left", f"the set of right-associative operators is {[r[1] for r in ra]}, not exactly {{**, ^}}")
    # priority comparisons `op_priority[<operator>] <= <priority of the enclosing operator>`, in either operand order; the
    # priority of the enclosing operator is op_priority.get(prev_op, -1), or op_priority[prev_op] where prev_op is known to
    # be in the table and -1 where it is not (conditional expression, if statement, hoisted into a local - all alike)
    minus_one = lambda x: _m(x, "-1") is not None
    known_op = lambda a: _m(a, "prev_op in op_priority") is not None
    def enclosing_priority(e):
        alts = _alternatives(e, fn)
        return all(_m(x, "op_priority.get(prev_op, -1)") is not None for x, _f in alts) or _selected_by(alts, known_op, lambda x: _m(x, "op_priority[prev_op]") is not None, minus_one)
    cmps = []
    for c in walk_local(fn):
        if isinstance(c, ast.Compare) and len(c.ops) == 1 and type(c.ops[0]) in _MIRROR:
            for l, r, op in ((c.left, c.comparators[0], type(c.ops[0])), (c.comparators[0], c.left, _MIRROR[type(c.ops[0])])):
                lr, rr = shape.resolve(l, fn), shape.resolve(r, fn)
                if enclosing_priority(r) and isinstance(lr, ast.Subscript) and norm(lr.value) == "op_priority":
                    label = "op_priority[token_text]" if norm(lr.slice) in opt else norm(lr)
                    cmps.append((c, op, label))
    ck.check(len(cmps) == 2, "G-TABLE", "_build_eval_tree|two-priority-comparisons", fb.loc(), "explicit and implicit operators compare their priority with the enclosing operator", f"{len(cmps)} priority comparisons found (expected 2)")
    for c, op, label in cmps:
        ck.check(op is ast.LtE, "G-TABLE", f"_build_eval_tree|equal-priority-groups-left|{label}", fb.loc(c), "`<=`: an operator of equal priority ends the previous operation (left-to-right grouping)",
                 f"`{norm(c)}` must use <= : with < an operator of equal priority is pulled into the right operand (a/(b)c would parse as a/(b*c))")
    ck.check(any(label == "op_priority['']" for _, _, label in cmps), "G-TABLE", "_build_eval_tree|juxtaposition-uses-its-own-priority", fb.loc(), "implicit multiplication uses the priority of ''", "implicit multiplication no longer uses op_priority['']")
    rec = [c for c in walk_local(fn) if isinstance(c, ast.Call) and call_name(c) == "_build_eval_tree"]
    unary = [c for c in rec if (len(c.args) >= 5 and norm(c.args[4]) == "'unary'") or any(k.arg == "prev_op" and norm(k.value) == "'unary'" for k in c.keywords)]
    ck.check(len(unary) == 1, "G-TABLE", "_build_eval_tree|unary-operand-parsed-at-unary-priority", fb.loc(), "operand of a unary sign parsed with prev_op='unary'", "the operand of a unary sign is no longer parsed at the 'unary' priority")
    # every `return <tree>, <index>` needs the tree to be known non-None.  Role: the tree variable is whatever name is
    # returned as first element of the (tree, index) pair.
    rets = []
    for r in return_nodes(cfg):
        v = shape.unalias(cfg.nodes[r].ast.value, fn) if cfg.nodes[r].ast.value is not None else None
        if isinstance(v, ast.Tuple) and len(v.elts) == 2:
            rets.append((r, v.elts[0]))
    ck.floor("G-DOM", len(rets), 3, "returns of the tree builder")
    # a path to `return result, ...` on which result was never assigned, never tested truthy and never asserted non-None
    # returns None as a sub-tree (result starts as None and is only ever assigned tree nodes)
    known = {}

    def known_non_none(R):
        if R not in known:
            not_none = lambda a: _m(a, f"{R} is not None") is not None
            is_none = lambda a: _m(a, f"{R} is None", f"None is {R}") is not None
            truthy = lambda a: isinstance(a, ast.Name) and a.id == R
            asserts = [n.id for n in cfg.nodes if n.kind == "stmt" and isinstance(n.ast, ast.Assert) and any((t and (truthy(a) or not_none(a))) or (not t and is_none(a)) for a, t in shape.conjuncts(n.ast.test, "t"))]
            assigns = [n.id for n in cfg.nodes if n.kind == "stmt" and isinstance(n.ast, (ast.Assign, ast.AnnAssign)) and n.ast.value is not None
                       and any(isinstance(x, ast.Name) and x.id == R for t in (n.ast.targets if isinstance(n.ast, ast.Assign) else [n.ast.target]) for x in ast.walk(t))
                       and not (isinstance(n.ast.value, ast.Constant) and n.ast.value.value is None)]
            edges = shape.guard_edges(cfg, lambda a: truthy(a) or not_none(a), True) + shape.guard_edges(cfg, is_none, False)
            known[R] = (set(asserts) | set(assigns), set(edges))
        return known[R]

    live_rets = set(live(cfg, [r for r, _ in rets]))
    for r, first in rets:
        if r not in live_rets:
            continue
        text = cfg.nodes[r].text()
        if isinstance(first, ast.Name):
            avoid, avoid_edges = known_non_none(first.id)
            p = cfg.path(cfg.entry, [r], avoid=avoid, avoid_edges=avoid_edges)
            text = re.sub(rf"\b{re.escape(first.id)}\b", "result", text)
        else:
            p = [r] if isinstance(first, ast.Constant) and first.value is None else None
        ck.check(p is None, "G-DOM", f"_build_eval_tree|result-known-before-return|L{text[:40]}", fb.loc(cfg.nodes[r].ast),
                 "`result` is assigned, tested or asserted non-None on every path to this return",
                 f"`{cfg.nodes[r].text()}` can return None as a sub-tree: a dangling operator (e.g. '3 m +') would be evaluated as a unary operation instead of raising", witness(cfg, p))
    # parentheses: `prev_op == '<none>'` / `prev_op == '('` where a ')' / the end of input is met must raise
    is_prev = lambda e: isinstance(e, ast.Name) and e.id == "prev_op"
    for name, const in (("unopened", "<none>"), ("unclosed", "(")):
        bad = _raising_edges(cfg, lambda a, const=const: _eq_const(a, const, is_prev), True)
        ck.check(bool(bad), "G-DOM", f"_build_eval_tree|{name}-parenthesis-raises", fb.loc(), f"{name} parenthesis raises DefinitionSyntaxError", f"an {name} parenthesis no longer raises")
    # where the operator text is '(' (the branch that parses a group), a token that is not ')' behind the group raises
    opens_group = lambda a: _eq_const(a, "(", is_optext)
    closes = lambda a: _eq_const(a, ")", lambda e: not is_optext(e) and any(isinstance(x, ast.Name) and x.id == "tokens" for x in ast.walk(shape.resolve(e, fn))))
    grp = [(t, lab) for (t, lab) in _raising_edges(cfg, closes, False) if shape.holds_at(cfg.nodes[t].ast, fn, opens_group, True)]
    ck.check(bool(grp), "G-DOM", "_build_eval_tree|group-must-end-with-closing-parenthesis", fb.loc(), "a group must end at ')'", "the check that a parenthetical group ends at ')' is gone")
    # a comparison against len(tokens) one side of which only raises
    ends = lambda a: isinstance(a, ast.Compare) and any(_m(x, "len(tokens)") is not None for x in ast.walk(a))
    ck.check(bool(_raising_edges(cfg, ends, True) + _raising_edges(cfg, ends, False)), "G-DOM", "_build_eval_tree|running-off-the-token-list-raises", fb.loc(), "running off the token list raises", "running off the token list no longer raises")
    fe = ix.func(PE, "EvalTreeNode.evaluate")
    ck.analysed(fe)
    cfge = cfg_of(fe)
    from ..lib import guarded
    for name, tbl in (("binary", "bin_op"), ("unary", "un_op")):
        # candidates by role: every read `tbl[key]` of the operator table
        reads = nodes_with(cfge, lambda x, tbl=tbl: isinstance(x, ast.Subscript) and isinstance(x.ctx, ast.Load) and isinstance(x.value, ast.Name) and x.value.id == tbl)
        ck.floor("G-DOM", len(reads), 1, f"reads of the {name} operator table in evaluate")
        guarded(ck, fe, cfge, reads, lambda a, tbl=tbl: isinstance(a, ast.Compare) and isinstance(a.ops[0], ast.In) and isinstance(a.comparators[0], ast.Name) and a.comparators[0].id == tbl,
                "G-DOM", f"evaluate|unknown-{name}-operator-raises", f"the {name} operator table is only read for operators it contains",
                f"the {name} operator table is read without a membership test: an unknown {name} operator no longer raises DefinitionSyntaxError")
    bins = []
    for c in [c for c in walk_local(fe.node) if isinstance(c, ast.Call)]:
        r = shape.resolve(c, fe.node)
        if isinstance(r, ast.Call) and isinstance(r.func, ast.Subscript) and "bin_op" in norm(r.func.value):
            bins.append((c, shape.match("_T[_K](self.left.evaluate(_1, _2, _3), self.right.evaluate(_1, _2, _3))", r), r))
    ck.check(len(bins) >= 1, "G-PROV", "evaluate|binary-node-applies-table-entry", fe.loc(), "a binary node applies the looked-up operator", "no application of the binary operator table to two evaluated operands was found")
    for c, m, r in bins:
        ck.check(m is not None, "G-PROV", "evaluate|left-then-right", fe.loc(c), "binary node = op(left, right)", f"`{norm(r)[:160]}`: a binary node must be evaluated as op(left.evaluate(...), right.evaluate(...)) with the same operator tables passed down")
        if m is not None:
            fnode = c.func if isinstance(c.func, ast.Subscript) else shape.unalias(c.func, fe.node)
            alts = _alternatives(fnode.slice, fe.node) if isinstance(fnode, ast.Subscript) else []
            has_op = lambda a: _m(a, "self.operator", "self.operator is not None") is not None
            okk = bool(alts) and _selected_by(alts, has_op, lambda x: _m(x, "self.operator.string") is not None, lambda x: isinstance(x, ast.Constant) and x.value == "")
            ck.check(okk, "G-PROV", "evaluate|implicit-operator-is-empty-string", fe.loc(c), "a node without operator token is juxtaposition ('')",
                     f"the binary operator is looked up as `{m['_K']}`: a node without operator token must be looked up as '' (implicit multiplication)")

    # sign sets of the exponent look-ahead (writer) and its consumer (reader)
    tok = ix.func(PE, "uncertainty_tokenizer")
    ck.analysed(tok)
    sets = exponent_sign_sets(ix)
    ok = "_get_possible_e" in sets and "_finalize_e" in sets and all(v == ["+", "-"] for v in sets["_get_possible_e"] + sets["_finalize_e"])
    ck.check(ok, "G-TWIN", "uncertainty_tokenizer|exponent-sign-sets-agree", tok.loc(), "the exponent look-ahead and the token consumer accept the same signs {+, -}",
             f"the exponent look-ahead accepts {sets.get('_get_possible_e', [])} but the consumer handles {sets.get('_finalize_e', [])}: tokens of an accepted exponent leak back into the expression")
    ck.check(plus_minus_sign_rewritten(ix), "G-TABLE", "uncertainty_tokenizer|plus-minus-sign", tok.loc(), "± is rewritten to +/-", "± is no longer rewritten to +/-")

    token_conservation_rule(ck, ix)
    lookahead_offsets_rule(ck, ix)

    # ------------------------------------------------------------ (c) literal typing (shared with C02)
    fi = ix.func(U, "ParserHelper.eval_token")
    ck.analysed(fi)
    fn = fi.node
    text_of = lambda e, fn=fn: shape.rnorm(e, fn) in ("token.string", "token[1]")          # the text of parameter `token`
    conv = lambda name, fn=fn: [c for c in walk_local(fn) if isinstance(c, ast.Call) and isinstance(c.func, ast.Name) and c.func.id == name and len(c.args) == 1 and not c.keywords and text_of(c.args[0])]
    exact = [c for c in conv("non_int_type") if isinstance(getattr(c, "_parent", None), ast.Return)]
    int_first = any(any(any(c is x for x in ast.walk(st)) for st in t.body for c in conv("int")) and any(any(c is x for x in ast.walk(h)) for h in t.handlers for c in conv("float"))
                    for t in walk_local(fn) if isinstance(t, ast.Try))
    ck.check(bool(exact) and int_first, "G-PROV", "eval_token|literal-typing", fi.loc(), "ints first, else float / non_int_type(text)", "numeric literals are no longer typed int-first / non_int_type(text)")
    fi = ix.func(PR, "GenericPlainRegistry._eval_token")
    ck.analysed(fi)
    fn = fi.node
    ck.check(lib.has(ix, fi, "ParserHelper.eval_token(token, non_int_type=self.non_int_type)"), "G-PROV", "_eval_token|numbers-in-registry-type", fi.loc(), "numbers evaluated in the registry's numeric type", "numbers are no longer evaluated with self.non_int_type")
    # the token text (element 1 / .string of parameter `token`) is looked up with get_name; a token that is neither a
    # NAME nor a NUMBER (element 0 / .type of `token`) raises
    looked_up = [c for c in walk_local(fn) if isinstance(c, ast.Call) and _m(c, "self.get_name(_T, case_sensitive=case_sensitive)") is not None and shape.rnorm(c.args[0], fn) in ("token[1]", "token.string")]
    kind = lambda const: (lambda a: _eq_name(a, const, lambda e: shape.rnorm(e, fn) in ("token[0]", "token.type")))
    other = [r for r in walk_local(fn) if isinstance(r, ast.Raise) and shape.holds_at(r, fn, kind("NAME"), False) and shape.holds_at(r, fn, kind("NUMBER"), False)]
    ck.check(bool(looked_up) and bool(other), "G-PROV", "_eval_token|names-are-registry-lookups", fi.loc(), "names are resolved by registry lookup only; other token types raise", "name tokens are no longer resolved by get_name / unknown token types no longer raise")
    fi = ix.func(PR, "GenericPlainRegistry.parse_expression")
    ck.analysed(fi)
    # the returned value is build_eval_tree(tokenizer(string_preprocessor(<string>))).evaluate(<f>), <f> evaluating tokens with _eval_token
    pipe = [(n, b) for n, b, _ in lib.find(ix, fi, "build_eval_tree(pint_eval.tokenizer(string_preprocessor(_S))).evaluate(_F)") if isinstance(getattr(n, "_parent", None), ast.Return)]
    uses_eval_token = lambda name: any(isinstance(g, ast.FunctionDef) and g.name == name and any(isinstance(c, ast.Call) and _m(c.func, "self._eval_token") is not None for c in ast.walk(g)) for g in ast.walk(fi.node))
    ck.check(bool(pipe) and all(b["_F"] == "self._eval_token" or b["_F"].startswith("partial(self._eval_token") or uses_eval_token(b["_F"]) for _, b in pipe), "G-PROV", "parse_expression|pipeline", fi.loc(),
             "preprocess -> tokenize -> build tree -> evaluate with _eval_token", "the parse_expression pipeline changed")

    # ------------------------------------------------------------ (a) G-REACH
    reach_rule(ck, ix, rs)
    return EXPLANATION


ENTRIES = [(PR, "GenericPlainRegistry.parse_expression"), (PR, "GenericPlainRegistry._eval_token"), (PR, "GenericPlainRegistry.parse_units"),
           (PR, "GenericPlainRegistry.parse_units_as_container"), (PR, "GenericPlainRegistry._parse_units_as_container"), (PR, "GenericPlainRegistry.parse_unit_name"),
           (PR, "GenericPlainRegistry.get_name"), (PR, "GenericPlainRegistry.get_symbol"), (PR, "GenericPlainRegistry.parse_pattern"),
           (U, "ParserHelper.from_string"), (U, "ParserHelper.eval_token"), (U, "string_preprocessor"), (U, "to_units_container"),
           (PE, "plain_tokenizer"), (PE, "uncertainty_tokenizer"), (PE, "build_eval_tree"), (PE, "_build_eval_tree"), (PE, "EvalTreeNode.evaluate"), (PE, "_power"),
           ("pint.facets.context.definitions", "Relation.transformation"), ("pint.facets.plain.quantity", "PlainQuantity.__new__"), ("pint.facets.plain.unit", "PlainUnit.__init__")]

DUNDERS = ["__mul__", "__rmul__", "__truediv__", "__rtruediv__", "__add__", "__radd__", "__sub__", "__rsub__", "__mod__", "__rmod__", "__floordiv__", "__rfloordiv__", "__pow__", "__rpow__", "__neg__", "__pos__"]


def reach_rule(ck, ix, rs):
    # call graph over resolved callees + explicit model of the dynamic dispatch of the evaluator
    edges = {}
    def callees(f: FuncInfo):
        if f in edges:
            return edges[f]
        out = set()
        node = f.node
        for c in (walk_local(node) if isinstance(node, (ast.FunctionDef, ast.AsyncFunctionDef, ast.Lambda)) else []):
            if isinstance(c, ast.Call):
                for g in rs.resolve_call(f, c):
                    out.add(g)
        # nested functions/lambdas are part of their parent
        for g in f.module.all_functions:
            if g.parent is f:
                out.add(g)
        # decorators wrap the function (check_implemented, ireduce_dimensions)
        if isinstance(node, ast.FunctionDef):
            for d in node.decorator_list:
                r = ix.resolve_expr(f.module, d)
                if isinstance(r, FuncInfo):
                    out.add(r)
        edges[f] = out
        return out

    entries = [ix.func(m, q) for m, q in ENTRIES]
    # model: evaluate() calls the operator maps -> dunder methods of Quantity / Unit / ParserHelper / Measurement
    ev = ix.func(PE, "EvalTreeNode.evaluate")
    model = set()
    for cn in [("pint.registry", "Quantity"), ("pint.registry", "Unit"), (U, "ParserHelper"), (U, "UnitsContainer"), ("pint.facets.measurement.objects", "Measurement")]:
        ci = ix.cls(*cn)
        for d in DUNDERS:
            m = ix.find_method(ci, d)
            if m is not None:
                model.add(m)
    model.add(ix.func(PE, "_power"))
    callees(ev)
    edges[ev] = edges[ev] | model | {ix.func(PR, "GenericPlainRegistry._eval_token"), ix.func(U, "ParserHelper.eval_token")}
    # registry.Quantity(...)/Unit(...) constructors reached through self.Quantity / self.Unit attributes
    ctor = {ix.find_method(ix.cls("pint.registry", "Quantity"), "__new__"), ix.find_method(ix.cls("pint.registry", "Unit"), "__init__")} - {None}
    for f in entries:
        callees(f)
        edges[f] = edges[f] | ctor
    seen, parent = set(), {}
    stack = list(entries)
    while stack:
        f = stack.pop()
        if f in seen:
            continue
        seen.add(f)
        for g in callees(f):
            if g not in seen:
                parent.setdefault(g, f)
                stack.append(g)
    ck.extra["reach_functions"] = len(seen)
    ck.floor("G-REACH", len(seen), 30, "functions reachable from the parser entry points")

    def chain(f):
        out = [f.qualname]
        while f in parent:
            f = parent[f]
            out.append(f.qualname)
        return " <- ".join(out[:8])

    n_sinks = 0
    inventory = []
    for f in ix.all_functions():
        if not isinstance(f.node, (ast.FunctionDef, ast.AsyncFunctionDef, ast.Lambda)):
            continue
        if f.module.name == "pint.pint_convert":
            continue
        for c in walk_local(f.node):
            if not isinstance(c, ast.Call):
                continue
            nm = call_name(c)
            full = dotted(c.func) or nm
            hard = (isinstance(c.func, ast.Name) and nm in ("eval", "exec", "compile", "__import__", "import_module", "open", "execfile")) or full in HARD_SINK_QUAL or \
                   (full.split(".")[0] in ("os", "subprocess", "pickle", "ctypes", "importlib", "shutil") and isinstance(c.func, ast.Attribute) and full.split(".")[0] in f.module.imports)
            if full.startswith("re.") or full.startswith("os.path") or full.startswith("pathlib"):
                hard = False
            if hard:
                n_sinks += 1
                inventory.append(f"{f.loc(c)} {norm(c)[:60]} reachable={f in seen}")
                if f not in seen:
                    ck.ok("G-REACH", f"sink-unreachable|{f.qualname.split('::')[1]}|{full}", f.loc(c), "execution/I-O sink not reachable from the parser")
                    continue
                const = all(isinstance(a, ast.Constant) for a in c.args) and bool(c.args)
                guarded = _guarded_by_constant_table(f, c)
                ck.check(const or guarded, "G-REACH", f"sink-reachable|{f.qualname.split('::')[1]}|{full}", f.loc(c),
                         "reachable sink takes constant arguments / arguments vetted against a module-level constant table",
                         f"`{norm(c)}` is reachable from the expression parser ({chain(f)}) with an argument that is not a constant nor vetted against a constant table")
            elif nm in ("getattr", "setattr", "delattr") and isinstance(c.func, ast.Name) and len(c.args) >= 2 and not isinstance(c.args[1], ast.Constant):
                if f in seen:
                    # attribute name computed at run time on a reachable path: it must not derive from token text / input strings
                    roots = defs_of(f).roots(c.args[1]) if isinstance(f.node, (ast.FunctionDef, ast.AsyncFunctionDef)) else set()
                    tainted = {r for r in roots if r in ("token_text", "input_string", "token", "s", "unit_name", "name_or_alias", "value", "units")}
                    ck.check(not tainted, "G-REACH", f"computed-attribute|{f.qualname.split('::')[1]}|{norm(c.args[1])[:30]}", f.loc(c),
                             f"computed attribute name `{norm(c.args[1])}` does not derive from parsed text",
                             f"`{norm(c)}` accesses an attribute whose name derives from {sorted(tainted)} on a path reachable from the expression parser ({chain(f)})")
    ck.extra["sink_inventory"] = inventory
    ck.check(True, "G-REACH", "sink-inventory-complete", "pint/", f"{n_sinks} execution/I-O sink call(s) inventoried in the package")
    # the evaluator must never call builtins eval/exec itself (positive control: the names are resolvable)
    for m in (PE, U):
        for f in ix.module(m).all_functions:
            for c in (walk_local(f.node) if isinstance(f.node, (ast.FunctionDef, ast.AsyncFunctionDef, ast.Lambda)) else []):
                if isinstance(c, ast.Call) and isinstance(c.func, ast.Name) and c.func.id in ("eval", "exec", "compile", "__import__"):
                    ck.fail("G-REACH", f"builtin-exec-in-parser|{f.qualname.split('::')[1]}|{c.func.id}", f.loc(c), f"`{norm(c)[:60]}` executes code inside the expression parser")


def _guarded_by_constant_table(f, call):
    """import_module(module_name): module_name derives from a name that is known to be `in <module-level table>` on every
    path to the call (the membership test may be spelled `in` / `not in`, as a guard clause or as an if/else)."""
    cfg = cfg_of(f)
    defs = defs_of(f)
    roots = set()
    todo = [n.id for a in call.args for n in ast.walk(a) if isinstance(n, ast.Name)]
    while todo:
        nm = todo.pop()
        if nm in roots:
            continue
        roots.add(nm)
        for (v, kind, st) in defs.defs.get(nm, []):
            if v is not None:
                todo += [n.id for n in ast.walk(v) if isinstance(n, ast.Name)]
    vetted = lambda a: (isinstance(a, ast.Compare) and len(a.ops) == 1 and isinstance(a.ops[0], ast.In) and isinstance(a.comparators[0], ast.Name)
                        and a.comparators[0].id in f.module.assigns and isinstance(a.left, ast.Name) and a.left.id in roots)
    safe = shape.guard_edges(cfg, vetted, want=True)
    return bool(safe) and shape.reachable_without(cfg, live(cfg, cfg.nodes_for_ast(call)), safe) is None
