"""C07 — string expressions evaluate like ordinary arithmetic; no code execution."""
from __future__ import annotations

import ast

from ..flow import call_name, dotted, norm
from ..index import AnalysisError, FuncInfo, Resolver, walk_local
from ..lib import cfg_of, defs_of, edge_leads_only_to_raise, live, nodes_with, return_nodes, undominated, witness

PE = "pint.pint_eval"
PR = "pint.facets.plain.registry"
U = "pint.util"

EXPLANATION = (
    "Static analysis (no execution): G-REACH call-graph reachability from the expression-parsing entry points (the "
    "operator maps' dynamic dispatch into the Quantity/ParserHelper dunders is modelled explicitly) to code-execution "
    "and I/O sinks (eval, exec, compile, __import__, import_module, open, os.*, subprocess.*, pickle, ctypes): every "
    "reached sink must take constant arguments or be dominated by a membership test of its argument in a module-level "
    "constant table, and attribute access by computed name (getattr/setattr with a non-constant name) must not be "
    "reachable with a name derived from token text; G-TABLE operator tables against Python's grammar (relations among "
    "_OP_PRIORITY values, right-associativity only for **/^, every symbol mapped to the operator function of the same "
    "meaning, '' = multiplication, ^ rewritten to ** by the preprocessor, every priority key evaluable); the "
    "left-associativity comparisons of the tree builder use <=; every `return result` of the builder is dominated by "
    "`assert result is not None` or a truthiness test, unopened/unclosed parentheses and unknown operators raise; "
    "tokens are evaluated in the registry's numeric type with integers first; the sign sets of the exponent "
    "look-ahead and of its consumer agree. Does not decide that the precedence-climbing recursion realises those "
    "tables for every token adjacency, nor the word-form/unicode regexes.")
EXPLANATION += ' Also decided (rules added after the second round of seeded changes): token conservation in the uncertainty tokenizer (every named token reaches the output, an optionally present token such as the unary minus is yielded unchanged) and look-ahead offset agreement (the exponent is searched right behind the last token the branch guard inspected, with the same optional-minus shift).'

HARD_SINKS = {"eval", "exec", "compile", "__import__", "import_module", "open", "system", "popen", "Popen", "run", "call", "check_output",
              "loads", "load", "execfile", "spawn", "CDLL"}
HARD_SINK_QUAL = {"eval", "exec", "compile", "__import__", "importlib.import_module", "import_module", "open", "os.system", "os.popen", "subprocess.Popen", "subprocess.run",
                  "subprocess.call", "subprocess.check_output", "pickle.loads", "pickle.load", "ctypes.CDLL"}

PY_PREC = "** binds tighter than unary +/-, which binds tighter than * / // % and juxtaposition, which bind tighter than + -"


def _const_table(mod, name):
    v = mod.assigns.get(name)
    if isinstance(v, ast.Dict):
        out = {}
        for k, val in zip(v.keys, v.values):
            if isinstance(k, ast.Constant):
                out[k.value] = val
        return out
    return None



def token_conservation_rule(ck, ix):
    """uncertainty_tokenizer rewrites the token stream.  Tokens taken with next(toklist) are either syntax of the
    uncertainty notation (+ / - ( ) whose presence the branch guard has asserted by look-ahead) or content.  (1) every
    token bound to a name reaches a yielded token (directly, as a field of a rebuilt token, or through _finalize_e);
    (2) a token that is consumed *conditionally* (only present for some inputs: the unary minus of '(-3 +/- 1)') is
    content and must be yielded as it is."""
    tok = ix.func(PE, "uncertainty_tokenizer")
    ck.analysed(tok)
    from ..lib import defs_of
    defs = defs_of(tok)
    is_next = lambda c: isinstance(c, ast.Call) and isinstance(c.func, ast.Name) and c.func.id == "next" and c.args and norm(c.args[0]) == "toklist"
    yields = [y for y in walk_local(tok.node) if isinstance(y, ast.Yield) and y.value is not None]
    yroots = set()
    for y in yields:
        yroots |= defs.roots(y.value)
    yielded_names = {n.id for y in yields for n in ast.walk(y.value) if isinstance(n, ast.Name)}
    # names that flow into yielded names through assignments (one fixpoint over the def table)
    flow = set(yielded_names)
    changed = True
    while changed:
        changed = False
        for name, ds in defs.defs.items():
            if name in flow:
                for (v, kind, st) in ds:
                    if v is None:
                        continue
                    for n in ast.walk(v):
                        if isinstance(n, ast.Name) and n.id not in flow:
                            flow.add(n.id)
                            changed = True
    named = [a for a in walk_local(tok.node) if isinstance(a, ast.Assign) and is_next(a.value) and isinstance(a.targets[0], ast.Name)]
    ck.floor("G-TYPESTATE", len(named), 3, "tokens bound to names in uncertainty_tokenizer")
    for a in named:
        nm = a.targets[0].id
        ck.check(nm in flow, "G-TYPESTATE", f"uncertainty_tokenizer|consumed-token-reaches-output|{nm}", tok.loc(a), f"token `{nm}` reaches a yielded token", f"the token bound to `{nm}` is consumed and never reaches the output stream")
    # conditional consumption inside the main loop body
    def owner(n):
        while n is not None and not isinstance(n, (ast.FunctionDef, ast.AsyncFunctionDef, ast.Lambda)):
            n = getattr(n, "_parent", None)
        return n
    main_branches = [n for n in walk_local(tok.node) if isinstance(n, ast.If) and owner(n) is tok.node]
    cond = 0
    for iff in main_branches:
        par = getattr(iff, "_parent", None)
        # an If nested inside a branch of the dispatch chain (its parent is an If/elif body of the for loop), not the chain itself
        if not isinstance(par, ast.If) or iff in par.orelse:
            continue
        for st in iff.body:
            for c in ast.walk(st):
                if is_next(c):
                    cond += 1
                    ok = (isinstance(st, ast.Assign) and st.value is c and isinstance(st.targets[0], ast.Name) and
                          any(isinstance(y, ast.Expr) and isinstance(y.value, ast.Yield) and isinstance(y.value.value, ast.Name) and y.value.value.id == st.targets[0].id for y in iff.body)) \
                        or (isinstance(st, ast.Expr) and isinstance(st.value, ast.Yield) and st.value.value is c)
                    ck.check(ok, "G-TYPESTATE", f"uncertainty_tokenizer|optional-token-is-yielded|if {norm(iff.test)}", tok.loc(st), "an optional token is passed on unchanged",
                             f"under `if {norm(iff.test)}:` a token is consumed with `{norm(st)}` and not yielded: an optional token (the sign of the nominal value) is content, dropping it changes the value")
    ck.floor("G-TYPESTATE", cond, 1, "conditionally consumed tokens in uncertainty_tokenizer")


def lookahead_offsets_rule(ck, ix):
    """In each branch of the uncertainty tokenizer the guard inspects tokens at look-ahead offsets 0..k (shifted by the
    optional-minus count where there is one) and the trailing exponent is searched right behind the last inspected
    token: offset k+1 with the same shift.  The number of tokens consumed equals the number inspected."""
    tok = ix.func(PE, "uncertainty_tokenizer")

    def offset(e):
        """(has_shift, constant) of an offset expression, or None"""
        if isinstance(e, ast.Constant) and isinstance(e.value, int):
            return (False, e.value)
        if isinstance(e, ast.Name):
            return (True, 0)
        if isinstance(e, ast.BinOp) and isinstance(e.op, ast.Add):
            a, b = offset(e.left), offset(e.right)
            if a and b:
                return (a[0] or b[0], a[1] + b[1])
        return None

    loops = [l for l in tok.node.body if isinstance(l, ast.For)]
    n = 0
    for loop in loops:
        chain = [st for st in loop.body if isinstance(st, ast.If)]
        branches = []
        for iff in chain:
            cur = iff
            while isinstance(cur, ast.If):
                branches.append(cur)
                cur = cur.orelse[0] if len(cur.orelse) == 1 and isinstance(cur.orelse[0], ast.If) else None
        for br in branches:
            la = []
            for c in ast.walk(br.test):
                if isinstance(c, ast.Call) and isinstance(c.func, ast.Attribute) and c.func.attr == "lookahead" and c.args:
                    o = offset(c.args[0])
                    if o is not None:
                        la.append(o)
            pe = [c for st in br.body for c in ast.walk(st) if isinstance(c, ast.Call) and call_name(c) == "_get_possible_e" and len(c.args) >= 2]
            if not la or not pe:
                continue
            shifted = any(h for h, _ in la)
            top = max(k for _, k in la)
            for c in pe:
                n += 1
                o = offset(c.args[1])
                ok = o is not None and o[1] == top + 1 and o[0] == shifted
                ck.check(ok, "G-TWIN", f"uncertainty_tokenizer|exponent-searched-behind-last-inspected-token|L{br.lineno - tok.node.lineno}", tok.loc(c),
                         f"exponent look-ahead at offset {'seen_minus + ' if shifted else ''}{top + 1}",
                         f"`{norm(c)}`: the guard of this branch inspects look-ahead offsets up to {'seen_minus + ' if shifted else ''}{top}; the exponent must be searched at {'seen_minus + ' if shifted else ''}{top + 1} (with an optional leading minus the fixed offset points at the closing parenthesis and the exponent tokens leak into the expression)")
            # body look-ahead calls (e.g. `.end` of the closing token) use the same shift
            for st in br.body:
                for c in ast.walk(st):
                    if isinstance(c, ast.Call) and isinstance(c.func, ast.Attribute) and c.func.attr == "lookahead" and c.args:
                        o = offset(c.args[0])
                        if o is not None and shifted:
                            n += 1
                            ck.check(o[0] and o[1] <= top, "G-TWIN", f"uncertainty_tokenizer|body-lookahead-shifted|L{c.lineno - tok.node.lineno}", tok.loc(c), "body look-ahead uses the shifted offset",
                                     f"`{norm(c)}` in a branch with an optional leading minus must be shifted by seen_minus and stay within the inspected tokens")
    ck.floor("G-TWIN", n, 2, "exponent look-ahead sites in uncertainty_tokenizer")

def run(ck, ix, tier):
    rs = Resolver(ix)
    pe = ix.module(PE)
    ck.rule("G-REACH", "no call chain from the parser entry points reaches an execution/I-O sink with non-constant arguments")
    ck.rule("G-TABLE", "operator tables agree with Python's grammar")

    # ------------------------------------------------------------ (b) operator tables
    prio = _const_table(pe, "_OP_PRIORITY")
    binm = _const_table(pe, "_BINARY_OPERATOR_MAP")
    unm = _const_table(pe, "_UNARY_OPERATOR_MAP")
    if prio is None or binm is None or unm is None:
        raise AnalysisError("operator tables of pint_eval are not literal dicts")
    P = {k: (v.value if isinstance(v, ast.Constant) else None) for k, v in prio.items()}
    where = pe.relpath
    def rel(a, op, b, why):
        if a not in P or b not in P or P[a] is None or P[b] is None:
            ck.fail("G-TABLE", f"_OP_PRIORITY|{a}{op}{b}", where, f"priority of `{a}` or `{b}` missing from _OP_PRIORITY")
            return
        ok = {">": P[a] > P[b], "==": P[a] == P[b]}[op]
        ck.check(ok, "G-TABLE", f"_OP_PRIORITY|{a or 'juxtaposition'}{op}{b or 'juxtaposition'}", where, f"{why} ({P[a]} {op} {P[b]})",
                 f"_OP_PRIORITY gives `{a or 'juxtaposition'}`={P[a]} and `{b or 'juxtaposition'}`={P[b]}, but Python requires priority({a or 'juxtaposition'}) {op} priority({b or 'juxtaposition'}): {PY_PREC}")
    rel("**", ">", "unary", "** binds tighter than unary sign")
    rel("**", "==", "^", "^ is a spelling of **")
    rel("unary", ">", "*", "unary sign binds tighter than *")
    for o in ("/", "//", "%", ""):
        rel("*", "==", o, f"`{o or 'juxtaposition'}` has the priority of *")
    rel("*", ">", "+", "* binds tighter than +")
    rel("+", "==", "-", "+ and - have equal priority")
    rel("+/-", ">", "**", "the uncertainty operator binds tightest")
    # evaluators: same meaning
    want = {"**": "_power", "*": "operator.mul", "": "operator.mul", "/": "operator.truediv", "+": "operator.add", "-": "operator.sub", "%": "operator.mod", "//": "operator.floordiv", "+/-": "_ufloat"}
    for sym, fn in want.items():
        got = norm(binm[sym]) if sym in binm else None
        ck.check(got == fn, "G-TABLE", f"_BINARY_OPERATOR_MAP|{sym or 'juxtaposition'}", where, f"`{sym or 'juxtaposition'}` -> {fn}", f"`{sym or 'juxtaposition'}` is evaluated with `{got}` instead of {fn}")
    for sym in binm:
        ck.check(sym in want, "G-TABLE", f"_BINARY_OPERATOR_MAP|known-symbol|{sym}", where, "known operator", f"unexpected binary operator `{sym}` -> {norm(binm[sym])}")
    for sym in P:
        if sym in ("unary", "^"):
            continue
        ck.check(sym in binm, "G-TABLE", f"_OP_PRIORITY|{sym or 'juxtaposition'}-has-evaluator", where, "every parsed operator can be evaluated", f"operator `{sym}` has a priority but no evaluator")
    pw = pe.functions.get("_power")
    ck.check(pw is not None and "return operator.pow(left, right)" in norm(pw.node), "G-TABLE", "_power|is-pow", pw.loc() if pw else where, "_power is exponentiation", "_power no longer returns operator.pow(left, right)")
    plus, minus = unm.get("+"), unm.get("-")
    ck.check(plus is not None and isinstance(plus, ast.Lambda) and norm(plus.body) == plus.args.args[0].arg, "G-TABLE", "_UNARY_OPERATOR_MAP|+", where, "unary + is the identity", "unary + is no longer the identity")
    ok = minus is not None and isinstance(minus, ast.Lambda) and norm(minus.body).replace(" ", "") in (f"{minus.args.args[0].arg}*-1", f"-{minus.args.args[0].arg}", f"-1*{minus.args.args[0].arg}")
    ck.check(ok, "G-TABLE", "_UNARY_OPERATOR_MAP|-", where, "unary - negates", "unary - no longer negates its operand")
    sp = ix.func(U, "string_preprocessor")
    ck.analysed(sp)
    ck.check("input_string.replace('^', '**')" in norm(sp.node), "G-TABLE", "string_preprocessor|caret-is-power", sp.loc(), "^ is rewritten to **", "the preprocessor no longer rewrites ^ to **")
    ck.check("input_string.replace(' per ', '/')" in norm(sp.node), "G-TABLE", "string_preprocessor|per-is-division", sp.loc(), "' per ' is rewritten to /", "the preprocessor no longer rewrites ' per ' to /")
    subs = ix.module(U).assigns.get("_subs_re_list")
    if isinstance(subs, ast.List):
        pairs = {}
        for e in subs.elts:
            if isinstance(e, ast.Tuple) and len(e.elts) == 2 and all(isinstance(x, ast.Constant) for x in e.elts):
                pairs[e.elts[0].value] = e.elts[1].value
        for pat, rep in (("({}) squared", "\\1**2"), ("({}) cubed", "\\1**3"), ("cubic ({})", "\\1**3"), ("square ({})", "\\1**2"), ("sq ({})", "\\1**2")):
            ck.check(pairs.get(pat) == rep, "G-TABLE", f"_subs_re_list|{pat}", U, f"`{pat}` -> `{rep}`", f"word form `{pat}` is rewritten to `{pairs.get(pat)}` instead of `{rep}`")
    pt = ix.module(U).assigns.get("_pretty_table")
    if isinstance(pt, ast.Call) and len(pt.args) == 2 and all(isinstance(a, ast.Constant) for a in pt.args):
        a, b = pt.args[0].value, pt.args[1].value
        exp = dict(zip("⁰¹²³⁴⁵⁶⁷⁸⁹·⁻", "0123456789*-"))
        got = dict(zip(a, b))
        ck.check(len(a) == len(b) and all(got.get(k) == v for k, v in exp.items()), "G-TABLE", "_pretty_table|superscripts-dot-minus", U, "superscript digits, middle dot and superscript minus map to 0-9, * and -",
                 f"_pretty_table maps {''.join(k for k in exp if got.get(k) != exp[k])!r} wrongly")

    # ------------------------------------------------------------ tree builder
    fb = ix.func(PE, "_build_eval_tree")
    ck.analysed(fb)
    cfg = cfg_of(fb)
    # right-associativity only for ** and ^
    from .. import shape
    consts = shape.module_constants(fb.module)
    ra = []
    for t in walk_local(fb.node):
        if isinstance(t, ast.Compare) and isinstance(t.ops[0], (ast.NotIn, ast.In)) and norm(t.left) == "token_text":
            comp = t.comparators[0]
            if isinstance(comp, ast.Name) and comp.id in consts:
                comp = consts[comp.id]  # a module-level constant
            if isinstance(comp, (ast.Tuple, ast.List, ast.Set)) and all(isinstance(e, ast.Constant) and isinstance(e.value, str) for e in comp.elts) and any(e.value in ("**", "^") for e in comp.elts):
                ra.append((t, sorted(e.value for e in comp.elts)))
    ok = len(ra) == 1 and ra[0][1] == ["**", "^"]
    ck.check(ok, "G-TABLE", "_build_eval_tree|right-associative-only-power", fb.loc(ra[0][0]) if ra else fb.loc(), "only ** and ^ group right-to-left", f"the set of right-associative operators is {[r[1] for r in ra]}, not exactly {{**, ^}}")
    cmps = [c for c in walk_local(fb.node) if isinstance(c, ast.Compare) and "op_priority.get(prev_op, -1)" in norm(c.comparators[0]) and "op_priority[" in norm(c.left)]
    ck.check(len(cmps) == 2, "G-TABLE", "_build_eval_tree|two-priority-comparisons", fb.loc(), "explicit and implicit operators compare their priority with the enclosing operator", f"{len(cmps)} priority comparisons found (expected 2)")
    for c in cmps:
        ck.check(isinstance(c.ops[0], ast.LtE), "G-TABLE", f"_build_eval_tree|equal-priority-groups-left|{norm(c.left)}", fb.loc(c), "`<=`: an operator of equal priority ends the previous operation (left-to-right grouping)",
                 f"`{norm(c)}` must use <= : with < an operator of equal priority is pulled into the right operand (a/(b)c would parse as a/(b*c))")
    ck.check(any(norm(c.left) == "op_priority['']" for c in cmps), "G-TABLE", "_build_eval_tree|juxtaposition-uses-its-own-priority", fb.loc(), "implicit multiplication uses the priority of ''", "implicit multiplication no longer uses op_priority['']")
    unary = [c for c in walk_local(fb.node) if isinstance(c, ast.Call) and call_name(c) == "_build_eval_tree" and len(c.args) >= 5 and norm(c.args[4]) == "'unary'"]
    ck.check(len(unary) == 1, "G-TABLE", "_build_eval_tree|unary-operand-parsed-at-unary-priority", fb.loc(), "operand of a unary sign parsed with prev_op='unary'", "the operand of a unary sign is no longer parsed at the 'unary' priority")
    # every `return result, ...` needs result to be known non-None
    rets = [r for r in return_nodes(cfg) if isinstance(cfg.nodes[r].ast.value, ast.Tuple) and norm(cfg.nodes[r].ast.value.elts[0]) == "result"]
    ck.floor("G-DOM", len(rets), 3, "returns of the tree builder")
    # a path to `return result, ...` on which result was never assigned, never tested truthy and never asserted non-None
    # returns None as a sub-tree (result starts as None and is only ever assigned tree nodes)
    asserts = [n.id for n in cfg.nodes if n.kind == "stmt" and isinstance(n.ast, ast.Assert) and norm(n.ast.test) in ("result is not None", "result")]
    assigns = [n.id for n in cfg.nodes if n.kind == "stmt" and isinstance(n.ast, ast.Assign) and any(isinstance(t, ast.Name) and t.id == "result" for t in n.ast.targets)
               and not (isinstance(n.ast.value, ast.Constant) and n.ast.value.value is None)]
    truthy = shape.guard_edges(cfg, lambda a: (isinstance(a, ast.Name) and a.id == "result") or norm(a) == "result is not None")
    for r in live(cfg, rets):
        p = cfg.path(cfg.entry, [r], avoid=set(asserts) | set(assigns), avoid_edges=set(truthy))
        ck.check(p is None, "G-DOM", f"_build_eval_tree|result-known-before-return|L{cfg.nodes[r].text()[:40]}", fb.loc(cfg.nodes[r].ast),
                 "`result` is assigned, tested or asserted non-None on every path to this return",
                 f"`{cfg.nodes[r].text()}` can return None as a sub-tree: a dangling operator (e.g. '3 m +') would be evaluated as a unary operation instead of raising", witness(cfg, p))
    # parentheses
    tests = {("unopened", "prev_op == '<none>'"): None, ("unclosed", "prev_op == '('"): None}
    for (name, cond) in tests:
        ts = [n.id for n in cfg.nodes if n.kind == "test" and norm(n.ast) == cond]
        bad = [t for t in ts if edge_leads_only_to_raise(cfg, t, "t") is None]
        ck.check(bool(bad), "G-DOM", f"_build_eval_tree|{name}-parenthesis-raises", fb.loc(), f"{name} parenthesis raises DefinitionSyntaxError", f"an {name} parenthesis no longer raises")
    ck.check("raise DefinitionSyntaxError('weird exit from parentheses')" in norm(fb.node), "G-DOM", "_build_eval_tree|group-must-end-with-closing-parenthesis", fb.loc(), "a group must end at ')'", "the check that a parenthetical group ends at ')' is gone")
    ck.check("raise DefinitionSyntaxError('unexpected end to tokens')" in norm(fb.node), "G-DOM", "_build_eval_tree|running-off-the-token-list-raises", fb.loc(), "running off the token list raises", "running off the token list no longer raises")
    fe = ix.func(PE, "EvalTreeNode.evaluate")
    ck.analysed(fe)
    cfge = cfg_of(fe)
    from .. import shape
    from ..lib import guarded
    for name, tbl in (("binary", "bin_op"), ("unary", "un_op")):
        # candidates by role: every read `tbl[key]` of the operator table
        reads = nodes_with(cfge, lambda x, tbl=tbl: isinstance(x, ast.Subscript) and isinstance(x.ctx, ast.Load) and isinstance(x.value, ast.Name) and x.value.id == tbl)
        ck.floor("G-DOM", len(reads), 1, f"reads of the {name} operator table in evaluate")
        guarded(ck, fe, cfge, reads, lambda a, tbl=tbl: isinstance(a, ast.Compare) and isinstance(a.ops[0], ast.In) and isinstance(a.comparators[0], ast.Name) and a.comparators[0].id == tbl,
                "G-DOM", f"evaluate|unknown-{name}-operator-raises", f"the {name} operator table is only read for operators it contains",
                f"the {name} operator table is read without a membership test: an unknown {name} operator no longer raises DefinitionSyntaxError")
    bins = []
    for c in [c for c in walk_local(fe.node) if isinstance(c, ast.Call)]:
        r = shape.resolve(c, fe.node)
        if isinstance(r, ast.Call) and isinstance(r.func, ast.Subscript) and "bin_op" in norm(r.func.value):
            bins.append((c, shape.match("_T[_K](self.left.evaluate(_1, _2, _3), self.right.evaluate(_1, _2, _3))", r), r))
    ck.check(len(bins) >= 1, "G-PROV", "evaluate|binary-node-applies-table-entry", fe.loc(), "a binary node applies the looked-up operator", "no application of the binary operator table to two evaluated operands was found")
    for c, m, r in bins:
        ck.check(m is not None, "G-PROV", "evaluate|left-then-right", fe.loc(c), "binary node = op(left, right)", f"`{norm(r)[:160]}`: a binary node must be evaluated as op(left.evaluate(...), right.evaluate(...)) with the same operator tables passed down")
        if m is not None:
            ck.check(m["_K"].replace('"', "'") == "self.operator.string if self.operator else ''", "G-PROV", "evaluate|implicit-operator-is-empty-string", fe.loc(c), "a node without operator token is juxtaposition ('')",
                     f"the binary operator is looked up as `{m['_K']}`: a node without operator token must be looked up as '' (implicit multiplication)")

    # sign sets of the exponent look-ahead (writer) and its consumer (reader)
    tok = ix.func(PE, "uncertainty_tokenizer")
    ck.analysed(tok)
    sets = {}
    for f in [g for g in pe.all_functions if g.parent is tok and g.name in ("_get_possible_e", "_finalize_e")]:
        for c in walk_local(f.node):
            if isinstance(c, ast.Compare) and isinstance(c.ops[0], (ast.In, ast.Eq)) and isinstance(c.comparators[0], (ast.List, ast.Tuple, ast.Constant)):
                comp = c.comparators[0]
                vals = sorted(e.value for e in comp.elts) if not isinstance(comp, ast.Constant) else [comp.value]
                if set(vals) <= {"+", "-"} and vals:
                    sets.setdefault(f.name, []).append((vals, c))
    ok = "_get_possible_e" in sets and "_finalize_e" in sets and all(v == ["+", "-"] for v, _ in sets["_get_possible_e"] + sets["_finalize_e"])
    ck.check(ok, "G-TWIN", "uncertainty_tokenizer|exponent-sign-sets-agree", tok.loc(), "the exponent look-ahead and the token consumer accept the same signs {+, -}",
             f"the exponent look-ahead accepts {[v for v, _ in sets.get('_get_possible_e', [])]} but the consumer handles {[v for v, _ in sets.get('_finalize_e', [])]}: tokens of an accepted exponent leak back into the expression")
    ck.check("input_string.replace('±', '+/-')" in norm(tok.node), "G-TABLE", "uncertainty_tokenizer|plus-minus-sign", tok.loc(), "± is rewritten to +/-", "± is no longer rewritten to +/-")

    token_conservation_rule(ck, ix)
    lookahead_offsets_rule(ck, ix)

    # ------------------------------------------------------------ (c) literal typing (shared with C02)
    fi = ix.func(U, "ParserHelper.eval_token")
    ck.analysed(fi)
    src = norm(fi.node)
    ck.check("return non_int_type(token_text)" in src and src.index("int(token_text)") < src.index("float(token_text)"), "G-PROV", "eval_token|literal-typing", fi.loc(), "ints first, else float / non_int_type(text)", "numeric literals are no longer typed int-first / non_int_type(text)")
    fi = ix.func(PR, "GenericPlainRegistry._eval_token")
    ck.analysed(fi)
    src = norm(fi.node)
    ck.check("ParserHelper.eval_token(token, non_int_type=self.non_int_type)" in src, "G-PROV", "_eval_token|numbers-in-registry-type", fi.loc(), "numbers evaluated in the registry's numeric type", "numbers are no longer evaluated with self.non_int_type")
    ck.check("self.get_name(token_text, case_sensitive=case_sensitive)" in src and "raise Exception('unknown token type')" in src, "G-PROV", "_eval_token|names-are-registry-lookups", fi.loc(), "names are resolved by registry lookup only; other token types raise", "name tokens are no longer resolved by get_name / unknown token types no longer raise")
    fi = ix.func(PR, "GenericPlainRegistry.parse_expression")
    ck.analysed(fi)
    src = norm(fi.node)
    ck.check("input_string = string_preprocessor(input_string)" in src and "gen = pint_eval.tokenizer(input_string)" in src and "return build_eval_tree(gen).evaluate(_define_op)" in src, "G-PROV", "parse_expression|pipeline", fi.loc(),
             "preprocess -> tokenize -> build tree -> evaluate with _eval_token", "the parse_expression pipeline changed")

    # ------------------------------------------------------------ (a) G-REACH
    reach_rule(ck, ix, rs)
    return EXPLANATION


def _inside_true_branch(node, name):
    p = getattr(node, "_parent", None)
    child = node
    while p is not None and not isinstance(p, (ast.FunctionDef, ast.While)):
        if isinstance(p, ast.If) and child in p.body and norm(p.test) == name:
            return True
        child, p = p, getattr(p, "_parent", None)
    return False


ENTRIES = [(PR, "GenericPlainRegistry.parse_expression"), (PR, "GenericPlainRegistry._eval_token"), (PR, "GenericPlainRegistry.parse_units"),
           (PR, "GenericPlainRegistry.parse_units_as_container"), (PR, "GenericPlainRegistry._parse_units_as_container"), (PR, "GenericPlainRegistry.parse_unit_name"),
           (PR, "GenericPlainRegistry.get_name"), (PR, "GenericPlainRegistry.get_symbol"), (PR, "GenericPlainRegistry.parse_pattern"),
           (U, "ParserHelper.from_string"), (U, "ParserHelper.eval_token"), (U, "string_preprocessor"), (U, "to_units_container"),
           (PE, "plain_tokenizer"), (PE, "uncertainty_tokenizer"), (PE, "build_eval_tree"), (PE, "_build_eval_tree"), (PE, "EvalTreeNode.evaluate"), (PE, "_power"),
           ("pint.facets.context.definitions", "Relation.transformation"), ("pint.facets.plain.quantity", "PlainQuantity.__new__"), ("pint.facets.plain.unit", "PlainUnit.__init__")]

DUNDERS = ["__mul__", "__rmul__", "__truediv__", "__rtruediv__", "__add__", "__radd__", "__sub__", "__rsub__", "__mod__", "__rmod__", "__floordiv__", "__rfloordiv__", "__pow__", "__rpow__", "__neg__", "__pos__"]


def reach_rule(ck, ix, rs):
    # call graph over resolved callees + explicit model of the dynamic dispatch of the evaluator
    edges = {}
    def callees(f: FuncInfo):
        if f in edges:
            return edges[f]
        out = set()
        node = f.node
        for c in (walk_local(node) if isinstance(node, (ast.FunctionDef, ast.AsyncFunctionDef, ast.Lambda)) else []):
            if isinstance(c, ast.Call):
                for g in rs.resolve_call(f, c):
                    out.add(g)
        # nested functions/lambdas are part of their parent
        for g in f.module.all_functions:
            if g.parent is f:
                out.add(g)
        # decorators wrap the function (check_implemented, ireduce_dimensions)
        if isinstance(node, ast.FunctionDef):
            for d in node.decorator_list:
                r = ix.resolve_expr(f.module, d)
                if isinstance(r, FuncInfo):
                    out.add(r)
        edges[f] = out
        return out

    entries = [ix.func(m, q) for m, q in ENTRIES]
    # model: evaluate() calls the operator maps -> dunder methods of Quantity / Unit / ParserHelper / Measurement
    ev = ix.func(PE, "EvalTreeNode.evaluate")
    model = set()
    for cn in [("pint.registry", "Quantity"), ("pint.registry", "Unit"), (U, "ParserHelper"), (U, "UnitsContainer"), ("pint.facets.measurement.objects", "Measurement")]:
        ci = ix.cls(*cn)
        for d in DUNDERS:
            m = ix.find_method(ci, d)
            if m is not None:
                model.add(m)
    model.add(ix.func(PE, "_power"))
    callees(ev)
    edges[ev] = edges[ev] | model | {ix.func(PR, "GenericPlainRegistry._eval_token"), ix.func(U, "ParserHelper.eval_token")}
    # registry.Quantity(...)/Unit(...) constructors reached through self.Quantity / self.Unit attributes
    ctor = {ix.find_method(ix.cls("pint.registry", "Quantity"), "__new__"), ix.find_method(ix.cls("pint.registry", "Unit"), "__init__")} - {None}
    for f in entries:
        callees(f)
        edges[f] = edges[f] | ctor
    seen, parent = set(), {}
    stack = list(entries)
    while stack:
        f = stack.pop()
        if f in seen:
            continue
        seen.add(f)
        for g in callees(f):
            if g not in seen:
                parent.setdefault(g, f)
                stack.append(g)
    ck.extra["reach_functions"] = len(seen)
    ck.floor("G-REACH", len(seen), 30, "functions reachable from the parser entry points")

    def chain(f):
        out = [f.qualname]
        while f in parent:
            f = parent[f]
            out.append(f.qualname)
        return " <- ".join(out[:8])

    n_sinks = 0
    inventory = []
    for f in ix.all_functions():
        if not isinstance(f.node, (ast.FunctionDef, ast.AsyncFunctionDef, ast.Lambda)):
            continue
        if f.module.name == "pint.pint_convert":
            continue
        for c in walk_local(f.node):
            if not isinstance(c, ast.Call):
                continue
            nm = call_name(c)
            full = dotted(c.func) or nm
            hard = (isinstance(c.func, ast.Name) and nm in ("eval", "exec", "compile", "__import__", "import_module", "open", "execfile")) or full in HARD_SINK_QUAL or \
                   (full.split(".")[0] in ("os", "subprocess", "pickle", "ctypes", "importlib", "shutil") and isinstance(c.func, ast.Attribute) and full.split(".")[0] in f.module.imports)
            if full.startswith("re.") or full.startswith("os.path") or full.startswith("pathlib"):
                hard = False
            if hard:
                n_sinks += 1
                inventory.append(f"{f.loc(c)} {norm(c)[:60]} reachable={f in seen}")
                if f not in seen:
                    ck.ok("G-REACH", f"sink-unreachable|{f.qualname.split('::')[1]}|{full}", f.loc(c), "execution/I-O sink not reachable from the parser")
                    continue
                const = all(isinstance(a, ast.Constant) for a in c.args) and bool(c.args)
                guarded = _guarded_by_constant_table(f, c)
                ck.check(const or guarded, "G-REACH", f"sink-reachable|{f.qualname.split('::')[1]}|{full}", f.loc(c),
                         "reachable sink takes constant arguments / arguments vetted against a module-level constant table",
                         f"`{norm(c)}` is reachable from the expression parser ({chain(f)}) with an argument that is not a constant nor vetted against a constant table")
            elif nm in ("getattr", "setattr", "delattr") and isinstance(c.func, ast.Name) and len(c.args) >= 2 and not isinstance(c.args[1], ast.Constant):
                if f in seen:
                    # attribute name computed at run time on a reachable path: it must not derive from token text / input strings
                    roots = defs_of(f).roots(c.args[1]) if isinstance(f.node, (ast.FunctionDef, ast.AsyncFunctionDef)) else set()
                    tainted = {r for r in roots if r in ("token_text", "input_string", "token", "s", "unit_name", "name_or_alias", "value", "units")}
                    ck.check(not tainted, "G-REACH", f"computed-attribute|{f.qualname.split('::')[1]}|{norm(c.args[1])[:30]}", f.loc(c),
                             f"computed attribute name `{norm(c.args[1])}` does not derive from parsed text",
                             f"`{norm(c)}` accesses an attribute whose name derives from {sorted(tainted)} on a path reachable from the expression parser ({chain(f)})")
    ck.extra["sink_inventory"] = inventory
    ck.check(True, "G-REACH", "sink-inventory-complete", "pint/", f"{n_sinks} execution/I-O sink call(s) inventoried in the package")
    # the evaluator must never call builtins eval/exec itself (positive control: the names are resolvable)
    for m in (PE, U):
        for f in ix.module(m).all_functions:
            for c in (walk_local(f.node) if isinstance(f.node, (ast.FunctionDef, ast.AsyncFunctionDef, ast.Lambda)) else []):
                if isinstance(c, ast.Call) and isinstance(c.func, ast.Name) and c.func.id in ("eval", "exec", "compile", "__import__"):
                    ck.fail("G-REACH", f"builtin-exec-in-parser|{f.qualname.split('::')[1]}|{c.func.id}", f.loc(c), f"`{norm(c)[:60]}` executes code inside the expression parser")


def _guarded_by_constant_table(f, call):
    """import_module(module_name): module_name derives from a name that was tested `in <module table>` (false edge returns)."""
    cfg = cfg_of(f)
    defs = defs_of(f)
    ids = cfg.nodes_for_ast(call)
    tests = []
    for n in cfg.nodes:
        if n.kind == "test" and isinstance(n.ast, ast.Compare) and isinstance(n.ast.ops[0], (ast.In, ast.NotIn)):
            tbl = n.ast.comparators[0]
            if isinstance(tbl, ast.Name) and tbl.id in f.module.assigns:
                tests.append((n.id, "t" if isinstance(n.ast.ops[0], ast.In) else "f", norm(n.ast.left)))
    if not tests:
        return False
    roots = set()
    todo = [n.id for a in call.args for n in ast.walk(a) if isinstance(n, ast.Name)]
    while todo:
        nm = todo.pop()
        if nm in roots:
            continue
        roots.add(nm)
        for (v, kind, st) in defs.defs.get(nm, []):
            if v is not None:
                todo += [n.id for n in ast.walk(v) if isinstance(n, ast.Name)]
    for (tid, ok_edge, var) in tests:
        if var not in roots:
            continue
        bad_edge = "f" if ok_edge == "t" else "t"
        p = cfg.all_paths_pass(cfg.entry, ids, [], avoid_edges=[(tid, ok_edge)])
        if p is None:
            return True
    return False
