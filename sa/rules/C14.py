"""C14 — systems and groups select base units and members exactly as declared."""
from __future__ import annotations

import ast

from .. import memo
from ..flow import call_name, dotted, norm, writes_in
from ..index import AnalysisError, walk_local
from ..lib import (cfg_of, defs_of, edge_leads_only_to_raise, is_super_call, live, nodes_calling,
                   nodes_with, return_nodes, undominated, witness)

SR = "pint.facets.system.registry"
SO = "pint.facets.system.objects"
GR = "pint.facets.group.registry"
GO = "pint.facets.group.objects"
PQ = "pint.facets.plain.quantity"

EXPLANATION = (
    "Static analysis (no execution): G-MEMO key/guard/invalidation rules for _base_units_cache (write guard == read "
    "guard, default_system setter resets on every path, validation against the switched registry cache) and for "
    "Group/System._computed_members (every membership writer invalidates; propagation to parents and systems; "
    "_used_groups/_used_by updated together; cycle test before linking); provenance of members (own units ∪ used "
    "groups transitively; system = union over its groups), of the restricted compatible-unit listings (intersection "
    "of the plain listing with members; unknown names raise), of the default-group content (root members minus every "
    "other group's members) and of the base-unit substitution in _get_base_units (exponent kept, factor converted from "
    "root units to the substituted units, system taken from the default when None); system-scoped attribute lookup "
    "tries <system>_<name> first; to/ito_base_units use the same target. Does not decide the rule inversion "
    "arithmetic of System.from_definition, value preservation or idempotence.")
EXPLANATION += " Also decided (rules added after the second round of seeded changes): add_units/remove_units edit the group's own unit set from their arguments alone, without consulting derived membership and without early exit."



def own_units_rule(ck, ix):
    """A group's *own* units are exactly the names given to add_units minus those given to remove_units; they are
    edited independently of the derived membership (which also contains inherited units that can go away later)."""
    GO = "pint.facets.group.objects"
    for q in ("Group.add_units", "Group.remove_units"):
        f = ix.func(GO, q)
        ck.analysed(f)
        defs = defs_of(f)
        ws = [(p, k, nd) for (p, k, nd) in writes_in(f.node) if p.startswith("self._unit_names")]
        ck.check(bool(ws), "G-PROV", f"{q}|edits-own-units", f.loc(), "edits the group's own unit set", f"{q} no longer edits self._unit_names")
        bad = set()
        for n in walk_local(f.node):
            if isinstance(n, ast.Attribute) and isinstance(n.value, ast.Name) and n.value.id == "self" and n.attr in ("members", "_computed_members", "_used_groups", "iter_used_groups"):
                bad.add(n.attr)
        ck.check(not bad, "G-PROV", f"{q}|independent-of-derived-membership", f.loc(), "own units edited without consulting derived membership",
                 f"{q} consults self.{sorted(bad)[0] if bad else ''}: whether a name is recorded as the group's own unit must not depend on what it currently inherits (the inherited source can be removed later and the unit would silently leave the group)")
        rets = [r for r in walk_local(f.node) if isinstance(r, ast.Return)]
        ck.check(not rets, "G-DOM", f"{q}|no-early-exit", f.loc(rets[0]) if rets else f.loc(), "every given name is processed", f"{q} can return before processing every given name")
        loops = [l for l in walk_local(f.node) if isinstance(l, ast.For) and norm(l.iter) == "unit_names"]
        direct = any("unit_names" in norm(nd) for (_, _, nd) in ws)
        ck.check(bool(loops) or direct, "G-PROV", f"{q}|every-given-name", f.loc(), "all given names are applied", f"{q} does not apply every name of unit_names")

def run(ck, ix, tier):
    ck.rule("G-PROV", "the value reaching a sink derives from the named sources")
    memo.rule_base_units_cache(ck, ix)
    memo.rule_group_members(ck, ix)
    memo.rule_system_members(ck, ix)

    # ------------------------------------------------------------ _get_base_units substitution
    fi = ix.func(SR, "GenericSystemRegistry._get_base_units")
    ck.analysed(fi)
    defs = defs_of(fi)
    cfg = cfg_of(fi)
    # system None -> default
    tests = [n for n in cfg.nodes if n.kind == "test" and norm(n.ast) in ("system is None", "not system", "system == None")]
    dflt = [a for a in walk_local(fi.node) if isinstance(a, ast.Assign) and any(norm(t) == "system" for t in a.targets) and norm(a.value) == "self._default_system_name"]
    ck.check(bool(dflt), "G-PROV", "_get_base_units|none-means-default-system", fi.loc(),
             "system=None means the default system", "a missing `system` argument no longer falls back to self._default_system_name")
    # root units come from get_root_units of the input with the same check_nonmult
    roots = [c for c in walk_local(fi.node) if isinstance(c, ast.Call) and call_name(c) in ("get_root_units", "_get_root_units")]
    ck.floor("G-PROV", len(roots), 1, "get_root_units call in _get_base_units")
    for c in roots:
        ck.check(len(c.args) >= 2 and norm(c.args[0]) == "input_units" and norm(c.args[1]) == "check_nonmult", "G-PROV",
                 "_get_base_units|root-units-of-input", fi.loc(c), "root units of the input units", f"`{norm(c)}` is not the root expansion of (input_units, check_nonmult)")
    # base units table of the requested system (not created on demand)
    gs = [c for c in walk_local(fi.node) if isinstance(c, ast.Call) and call_name(c) == "get_system"]
    ck.floor("G-PROV", len(gs), 1, "get_system call in _get_base_units")
    for c in gs:
        ck.check(norm(c.args[0]) == "system" and len(c.args) > 1 and norm(c.args[1]) == "False", "G-PROV", "_get_base_units|system-looked-up-not-created", fi.loc(c),
                 "the requested system is looked up (unknown names raise)", f"`{norm(c)}` does not look up the requested system without creating it")
    # substitution loop: destination *= new_unit ** value   /  destination *= {unit: value}
    loops = [f for f in walk_local(fi.node) if isinstance(f, ast.For) and "units.items()" in norm(f.iter)]
    ck.floor("G-PROV", len(loops), 1, "substitution loop over the root units")
    for f in loops:
        if not (isinstance(f.target, ast.Tuple) and len(f.target.elts) == 2):
            raise AnalysisError("_get_base_units: unexpected loop target")
        u, v = norm(f.target.elts[0]), norm(f.target.elts[1])
        augs = [a for a in ast.walk(f) if isinstance(a, ast.AugAssign)]
        ck.floor("G-PROV", len(augs), 2, "accumulations in the substitution loop")
        for a in augs:
            ck.check(isinstance(a.op, ast.Mult), "G-PROV", "_get_base_units|accumulate-by-product", fi.loc(a), "units accumulated by product", f"`{norm(a)}` does not multiply")
            val = defs.inline(a.value)
            if isinstance(val, ast.BinOp) and isinstance(val.op, ast.Pow):
                ck.check(norm(val.right) == v, "G-PROV", "_get_base_units|replacement-raised-to-exponent", fi.loc(a),
                         "replacement raised to the exponent of the replaced unit", f"`{norm(a)}` does not raise the replacement to the exponent `{v}`")
            elif isinstance(val, ast.Call):
                d = [x for x in ast.walk(val) if isinstance(x, ast.Dict)]
                ok = bool(d) and len(d[0].keys) == 1 and norm(d[0].keys[0]) == u and norm(d[0].values[0]) == v
                ck.check(ok, "G-PROV", "_get_base_units|unreplaced-unit-kept-with-exponent", fi.loc(a),
                         "units not replaced by the system are kept with their exponent", f"`{norm(a)}` does not keep `{u}` with exponent `{v}`")
            else:
                ck.check(False, "G-PROV", "_get_base_units|accumulate-shape", fi.loc(a), "", f"unrecognised accumulation `{norm(a)}`")
        # the replacement (`** exponent` accumulation) happens exactly for units declared in the system's base_units table,
        # the keep-as-is accumulation for the others - whichever way the test is written
        from .. import shape as _sh14
        declared = lambda a_: isinstance(a_, ast.Compare) and isinstance(a_.ops[0], ast.In) and norm(a_.left) == u and "base_units" in _sh14.rnorm(a_.comparators[0], fi.node, 2)
        for a in augs:
            val = defs.inline(a.value)
            repl = isinstance(val, ast.BinOp) and isinstance(val.op, ast.Pow)
            ck.check(_sh14.holds_at(a, fi.node, declared, repl), "G-PROV", "_get_base_units|replace-only-declared-units", fi.loc(a), "only units declared by the system are replaced",
                     f"`{norm(a)}` is not executed on the {'declared' if repl else 'undeclared'} side of the membership test in the system's base_units")
    convs = [c for c in walk_local(fi.node) if isinstance(c, ast.Call) and call_name(c) in ("convert", "_convert")]
    ck.floor("G-PROV", len(convs), 1, "factor conversion in _get_base_units")
    for c in convs:
        args = [norm(a) for a in c.args]
        ck.check(args[:3] == ["factor", "units", "destination_units"], "G-PROV", "_get_base_units|factor-converted-root-to-base", fi.loc(c),
                 "factor converted from root units to the substituted units", f"`{norm(c)}` does not convert the factor from `units` to `destination_units`")

    # public get_base_units passes its arguments through
    fi = ix.func(SR, "GenericSystemRegistry.get_base_units")
    ck.analysed(fi)
    cs = [c for c in walk_local(fi.node) if isinstance(c, ast.Call) and call_name(c) == "_get_base_units"]
    ck.floor("G-PROV", len(cs), 1, "_get_base_units call in get_base_units")
    for c in cs:
        ck.check([norm(a) for a in c.args] == ["input_units", "check_nonmult", "system"], "G-PROV", "get_base_units|arguments-forwarded", fi.loc(c),
                 "arguments forwarded", f"`{norm(c)}` does not forward (input_units, check_nonmult, system)")

    # ------------------------------------------------------------ to/ito_base_units: same target, same registry function
    for pair, regf in ((("PlainQuantity.to_base_units", "PlainQuantity.ito_base_units"), "_get_base_units"),
                       (("PlainQuantity.to_root_units", "PlainQuantity.ito_root_units"), "_get_root_units")):
        for q in pair:
            f = ix.func(PQ, q)
            ck.analysed(f)
            cs = [c for c in walk_local(f.node) if isinstance(c, ast.Call) and call_name(c).startswith("_get_") and call_name(c).endswith("_units")]
            ok = len(cs) == 1 and call_name(cs[0]) == regf and norm(cs[0].args[0]) == "self._units"
            ck.check(ok, "G-TWIN", f"{q}|target-from-{regf}", f.loc(), f"target units from {regf}(self._units)",
                     f"{q} takes its target units from `{norm(cs[0]) if cs else '?'}` instead of {regf}(self._units)")

    # ------------------------------------------------------------ restricted compatible units
    fi = ix.func(GR, "GenericGroupRegistry._get_compatible_units")
    ck.analysed(fi)
    cfg, defs = cfg_of(fi), defs_of(fi)
    for r in live(cfg, return_nodes(cfg)):
        v = defs.inline(cfg.nodes[r].ast.value)
        s = norm(v)
        if "members" in s or "&" in s:
            inter = [b for b in ast.walk(v) if isinstance(b, ast.BinOp) and isinstance(b.op, ast.BitAnd)]
            ok = bool(inter) and any(is_super_call(x, "_get_compatible_units") for x in ast.walk(inter[0])) and "self._groups[group].members" in norm(inter[0])
            ck.check(ok, "G-PROV", "group._get_compatible_units|plain-listing-intersected-with-members", fi.loc(cfg.nodes[r].ast),
                     "plain listing ∩ members of the named group", f"`{s}` is not the intersection of the plain listing with the group's members")
        else:
            ck.check(any(is_super_call(x, "_get_compatible_units") for x in ast.walk(v)), "G-PROV", "group._get_compatible_units|no-group-plain-listing", fi.loc(cfg.nodes[r].ast),
                     "no group: plain listing", f"`{s}` is not the plain listing")
    unk = [n.id for n in cfg.nodes if n.kind == "test" and norm(n.ast) in ("group in self._groups", "group not in self._groups")]
    ck.check(bool(unk), "G-DOM", "group._get_compatible_units|unknown-group-test", fi.loc(), "unknown group names are tested", "unknown group names are no longer detected")
    for t in unk:
        lab = "f" if norm(cfg.nodes[t].ast) == "group in self._groups" else "t"
        p = edge_leads_only_to_raise(cfg, t, lab)
        ck.check(p is None, "G-DOM", "group._get_compatible_units|unknown-group-raises", fi.loc(cfg.nodes[t].ast), "unknown group raises", "an unknown group name yields a listing", witness(cfg, p))
    fi = ix.func(SR, "GenericSystemRegistry._get_compatible_units")
    ck.analysed(fi)
    cfg, defs = cfg_of(fi), defs_of(fi)
    n_sys = 0
    for r in live(cfg, return_nodes(cfg)):
        v = defs.inline(cfg.nodes[r].ast.value)
        s = norm(v)
        if "members" in s:
            n_sys += 1
            inter = [b for b in ast.walk(v) if isinstance(b, ast.BinOp) and isinstance(b.op, ast.BitAnd)]
            ok = bool(inter) and any(is_super_call(x, "_get_compatible_units") for x in ast.walk(inter[0])) and "self._systems[group_or_system].members" in norm(inter[0])
            ck.check(ok, "G-PROV", "system._get_compatible_units|plain-listing-intersected-with-members", fi.loc(cfg.nodes[r].ast),
                     "plain listing ∩ members of the named system", f"`{s}` is not the intersection of the plain listing with the system's members")
    ck.check(n_sys >= 1, "G-PROV", "system._get_compatible_units|system-branch-present", fi.loc(), "system branch present", "the system branch of _get_compatible_units is gone")

    # ------------------------------------------------------------ default group = root − every other group
    fi = ix.func(GR, "GenericGroupRegistry._after_init")
    ck.analysed(fi)
    src = norm(fi.node)
    adds = [c for c in walk_local(fi.node) if isinstance(c, ast.Call) and call_name(c) == "add_units"]
    ck.floor("G-PROV", len(adds), 1, "add_units call in GroupRegistry._after_init")
    defs = defs_of(fi)
    for c in adds:
        a = c.args[0].value if c.args and isinstance(c.args[0], ast.Starred) else (c.args[0] if c.args else None)
        v = defs.inline(a) if a is not None else None
        ok = isinstance(v, ast.BinOp) and isinstance(v.op, ast.Sub) and "get_group('root'" in norm(v.left) and ".members" in norm(v.left) \
            and "group.name != 'root'" in norm(v.right) and "group.members" in norm(v.right)
        ck.check(ok, "G-PROV", "group._after_init|default-group-gets-orphans", fi.loc(c),
                 "default group receives root members minus the members of every other group",
                 f"`{norm(v) if v is not None else norm(c)}` is not (root members − members of all non-root groups)")
    # every unit added is registered in root
    fi = ix.func(GR, "GenericGroupRegistry._add_unit")
    ck.analysed(fi)
    cfg = cfg_of(fi)
    sup = nodes_with(cfg, lambda x: is_super_call(x, "_add_unit"))
    root = nodes_with(cfg, lambda x: isinstance(x, ast.Call) and call_name(x) == "add_units" and "root" in norm(x.func) and norm(x.args[0]) == "definition.name")
    p = cfg.all_paths_pass(cfg.entry, [cfg.exit], root)
    ck.check(bool(sup) and bool(root) and p is None, "G-PROV", "group._add_unit|every-unit-joins-root", fi.loc(),
             "every added unit is added to the root group", "a unit can be added without joining the root group", witness(cfg, p))

    # ------------------------------------------------------------ rule inversion in System.from_definition
    fi = ix.func(SO, "System.from_definition")
    ck.analysed(fi)
    defs = defs_of(fi)
    # Solving  new = old**p * prod(other**e)  for old gives  old = new**(1/p) * prod(other**(-e/p)).  Every exponent that
    # the function computes is one of: 1/p (the new unit), -e/p (the other root units, old excluded), 1/v (bare rule
    # `new` whose root expansion is old**v) - however the dictionary is assembled (comprehension, loop, literal).
    from .. import shape as _shs
    stores = [a_ for a_ in walk_local(fi.node) if isinstance(a_, ast.Assign) and any(isinstance(t, ast.Subscript) and norm(t.value) == "base_unit_names" for t in a_.targets)]
    ck.floor("G-PROV", len(stores), 2, "base_unit_names stores in System.from_definition")
    divs = [b_ for b_ in ast.walk(fi.node) if isinstance(b_, ast.BinOp) and isinstance(b_.op, ast.Div)]
    ck.floor("G-PROV", len(divs), 1, "exponent divisions in System.from_definition")
    for a_ in stores:
        if isinstance(a_.value, ast.Dict):
            for v_ in a_.value.values:
                ck.check(isinstance(v_, ast.BinOp) and isinstance(v_.op, ast.Div), "G-PROV", "System.from_definition|bare-rule-inverted", fi.loc(a_), "replacement exponent is a reciprocal",
                         f"`{norm(a_)}`: for a rule `new` whose root expansion is old**value the replacement must be new**(1/value), not new**({norm(v_)})")

    def exponent_of_old(e):
        """e is (a name for) <expansion of new>[old_unit]"""
        x = _shs.unalias(e, fi.node)
        return isinstance(x, ast.Subscript) and norm(x.slice) == "old_unit" and "get_root_func(new_unit)" in _shs.rnorm(x.value, fi.node, 3)

    def popped_exponent(e):
        """e is the exponent of the single (unit, exponent) item of the root expansion of new (bare rule)"""
        x = _shs.unalias(e, fi.node)
        return isinstance(x, ast.Subscript) and "popitem()" in norm(x.value) and norm(x.slice) == "1" and "get_root_func(new_unit)" in _shs.rnorm(x.value, fi.node, 4)

    def other_exponent(e):
        """e is the exponent variable of a loop/comprehension over <expansion of new>.items() with old_unit excluded"""
        if not isinstance(e, ast.Name):
            return False
        for x in ast.walk(fi.node):
            tgt, it = (x.target, x.iter) if isinstance(x, (ast.For, ast.comprehension)) else (None, None)
            if isinstance(tgt, ast.Tuple) and len(tgt.elts) == 2 and norm(tgt.elts[1]) == e.id and norm(it).endswith(".items()") and "get_root_func(new_unit)" in _shs.rnorm(it, fi.node, 3):
                return True
        return False
    excluded = lambda a_: isinstance(a_, ast.Compare) and isinstance(a_.ops[0], ast.Eq) and "old_unit" in (norm(a_.left), norm(a_.comparators[0]))
    kinds = []
    for b_ in divs:
        num, den = b_.left, b_.right
        if isinstance(num, ast.Constant) and num.value == 1 and exponent_of_old(den):
            kinds.append("new")
            ck.ok("G-PROV", "System.from_definition|new-unit-exponent-inverted", fi.loc(b_), "new unit gets exponent 1/p")
        elif isinstance(num, ast.Constant) and num.value == 1 and popped_exponent(den):
            kinds.append("bare")
            ck.ok("G-PROV", "System.from_definition|bare-rule-inverted", fi.loc(b_), "old = new ** (1/value)")
        elif isinstance(num, ast.UnaryOp) and isinstance(num.op, ast.USub) and other_exponent(num.operand) and exponent_of_old(den):
            kinds.append("other")
            ck.check(_shs.holds_at(b_, fi.node, excluded, False), "G-PROV", "System.from_definition|old-unit-excluded", fi.loc(b_), "the replaced unit is excluded", "the replaced unit is not excluded from its own replacement")
            ck.ok("G-PROV", "System.from_definition|other-units-exponent-inverted", fi.loc(b_), "other root units get exponent -e/p")
        else:
            which = "bare-rule-inverted" if "popitem" in _shs.rnorm(den, fi.node, 4) or "popitem" in _shs.rnorm(num, fi.node, 4) else ("new-unit-exponent-inverted" if isinstance(num, ast.Constant) or exponent_of_old(num) else "other-units-exponent-inverted")
            ck.fail("G-PROV", f"System.from_definition|{which}", fi.loc(b_), f"`{norm(b_)}` is none of 1/p (new unit), -e/p (other root units), 1/v (bare rule), with p the exponent of the replaced unit in the expansion of the new unit: "
                    "solving new = old**p * prod(other**e) for old gives new**(1/p) * prod(other**(-e/p))")
    ck.check({"new", "bare", "other"} <= set(kinds), "G-PROV", "System.from_definition|all-three-exponent-forms-present", fi.loc(), "1/p, -e/p and 1/v are all computed", f"only {sorted(set(kinds))} of the exponent forms (new, other, bare) are computed")
    tests = [t for t in walk_local(fi.node) if isinstance(t, ast.If) and "get_root_func(old_unit)" in norm(t.test)]
    ck.check(bool(tests) and all(any(isinstance(r, ast.Raise) for r in ast.walk(t)) for t in tests), "G-DOM", "System.from_definition|old-unit-must-be-root", fi.loc(),
             "a replaced unit that is not a root unit is rejected", "a non-root `old` unit is no longer rejected")

    # ------------------------------------------------------------ system-scoped attribute lookup
    fi = ix.func(SO, "System.__getattr__")
    ck.analysed(fi)
    cfg = cfg_of(fi)
    first = [c for c in walk_local(fi.node) if isinstance(c, ast.Call) and isinstance(c.func, ast.Name) and c.func.id == "getattr" and len(c.args) >= 2]
    scoped = [c for c in first if norm(c.args[1]).replace(" ", "") in ("self.name+'_'+item", "f'{self.name}_{item}'")]
    plain = [c for c in first if norm(c.args[1]) == "item"]
    ck.check(bool(scoped) and bool(plain), "G-PROV", "System.__getattr__|scoped-then-plain", fi.loc(),
             "looks up <system>_<name> then <name>", "System.__getattr__ no longer tries <system>_<item> before <item>")
    if scoped and plain:
        ck.check(scoped[0].lineno < plain[0].lineno, "G-PROV", "System.__getattr__|scoped-first", fi.loc(scoped[0]), "system variant tried first", "the plain name is tried before the system variant")
    guard = nodes_calling(cfg, "getattr_maybe_raise")
    for c in first:
        ids = cfg.nodes_for_ast(c)
        p = undominated(cfg, ids, guard)
        ck.check(p is None, "G-DOM", "System.__getattr__|private-names-rejected-first", fi.loc(c), "getattr_maybe_raise first", "attribute lookup before getattr_maybe_raise", witness(cfg, p))
    own_units_rule(ck, ix)
    return EXPLANATION
