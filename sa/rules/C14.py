"""C14 — systems and groups select base units and members exactly as declared."""
from __future__ import annotations

import ast

from .. import memo
from .. import shape as _sh
from ..flow import call_name, dotted, norm, writes_in
from ..index import AnalysisError, walk_local
from ..lib import (cfg_of, defs_of, edge_leads_only_to_raise, is_super_call, live, nodes_calling,
                   nodes_with, return_nodes, undominated, witness)

SR = "pint.facets.system.registry"
SO = "pint.facets.system.objects"
GR = "pint.facets.group.registry"
GO = "pint.facets.group.objects"
PQ = "pint.facets.plain.quantity"

EXPLANATION = (
    "Static analysis (no execution): G-MEMO key/guard/invalidation rules for _base_units_cache (write guard == read "
    "guard, default_system setter resets on every path, validation against the switched registry cache) and for "
    "Group/System._computed_members (every membership writer invalidates; propagation to parents and systems; "
    "_used_groups/_used_by updated together; cycle test before linking); provenance of members (own units ∪ used "
    "groups transitively; system = union over its groups), of the restricted compatible-unit listings (intersection "
    "of the plain listing with members; unknown names raise), of the default-group content (root members minus every "
    "other group's members) and of the base-unit substitution in _get_base_units (exponent kept, factor converted from "
    "root units to the substituted units, system taken from the default when None); system-scoped attribute lookup "
    "tries <system>_<name> first; to/ito_base_units use the same target. Does not decide the rule inversion "
    "arithmetic of System.from_definition, value preservation or idempotence.")
EXPLANATION += " Also decided (rules added after the second round of seeded changes): add_units/remove_units edit the group's own unit set from their arguments alone, without consulting derived membership and without early exit."



def own_units_rule(ck, ix):
    """A group's *own* units are exactly the names given to add_units minus those given to remove_units; they are
    edited independently of the derived membership (which also contains inherited units that can go away later)."""
    GO = "pint.facets.group.objects"
    for q in ("Group.add_units", "Group.remove_units"):
        f = ix.func(GO, q)
        ck.analysed(f)
        defs = defs_of(f)
        ws = [(p, k, nd) for (p, k, nd) in writes_in(f.node) if p.startswith("self._unit_names")]
        ck.check(bool(ws), "G-PROV", f"{q}|edits-own-units", f.loc(), "edits the group's own unit set", f"{q} no longer edits self._unit_names")
        bad = set()
        for n in walk_local(f.node):
            if isinstance(n, ast.Attribute) and isinstance(n.value, ast.Name) and n.value.id == "self" and n.attr in ("members", "_computed_members", "_used_groups", "iter_used_groups"):
                bad.add(n.attr)
        ck.check(not bad, "G-PROV", f"{q}|independent-of-derived-membership", f.loc(), "own units edited without consulting derived membership",
                 f"{q} consults self.{sorted(bad)[0] if bad else ''}: whether a name is recorded as the group's own unit must not depend on what it currently inherits (the inherited source can be removed later and the unit would silently leave the group)")
        rets = [r for r in walk_local(f.node) if isinstance(r, ast.Return)]
        ck.check(not rets, "G-DOM", f"{q}|no-early-exit", f.loc(rets[0]) if rets else f.loc(), "every given name is processed", f"{q} can return before processing every given name")
        loops = [l for l in walk_local(f.node) if isinstance(l, ast.For) and norm(l.iter) == "unit_names"]
        direct = any("unit_names" in norm(nd) for (_, _, nd) in ws)
        ck.check(bool(loops) or direct, "G-PROV", f"{q}|every-given-name", f.loc(), "all given names are applied", f"{q} does not apply every name of unit_names")

def _with_value_helpers_inlined(ix, fi):
    """A fresh FunctionDef for `fi` (parents set) in which value-less private helpers and tail calls are inlined
    (shape.inline_helpers) and, in addition, an assignment `<target> = _helper(args)` whose callee is a private helper of
    the same class/module ending in its only `return <value>` is replaced by the helper's body followed by
    `<target> = <value>`: the shape the caller had before an "extract function" refactoring.  Parameters are
    substituted by the arguments (bound by an assignment when the argument is not a plain name / attribute / constant);
    helper locals that also occur in the caller are renamed."""
    fn = _sh.inline_helpers(ix, fi)
    caller_names = {x.id for x in ast.walk(fn) if isinstance(x, ast.Name)}

    def expansion(st):
        if not (isinstance(st, ast.Assign) and isinstance(st.value, ast.Call)):
            return None
        call = st.value
        g, is_method = _sh._callee(ix, fi, call)
        if g is None or not g.name.startswith("_") or g.name.startswith("__") or not isinstance(g.node, ast.FunctionDef) or g.node.decorator_list:
            return None
        a = g.node.args
        if a.vararg or a.kwarg or a.kwonlyargs or a.posonlyargs or any(isinstance(x, ast.Starred) for x in call.args) or any(k.arg is None for k in call.keywords):
            return None
        body = [x for x in ast.parse(ast.unparse(g.node)).body[0].body if not (isinstance(x, ast.Expr) and isinstance(x.value, ast.Constant))]
        rets = [r for x in body for r in ast.walk(x) if isinstance(r, ast.Return)]
        if not body or len(rets) != 1 or body[-1] is not rets[0] or rets[0].value is None or any(isinstance(x, (ast.Yield, ast.YieldFrom, ast.Await, ast.Global, ast.Nonlocal)) for st_ in body for x in ast.walk(st_)):
            return None
        ps = [x.arg for x in a.args]
        if is_method and ps and ps[0] in ("self", "cls"):
            ps = ps[1:]
        if len(call.args) > len(ps):
            return None
        sub = dict(zip(ps, call.args))
        sub.update({k.arg: k.value for k in call.keywords if k.arg in ps})
        for p_, d_ in zip(ps[len(ps) - len(a.defaults):], a.defaults):
            sub.setdefault(p_, d_)
        if set(sub) != set(ps):
            return None
        # helper locals that clash with names of the caller get a fresh name
        stored = {x.id for st_ in body for x in ast.walk(st_) if isinstance(x, ast.Name) and isinstance(x.ctx, (ast.Store, ast.Del))} - set(ps)
        ren = {}
        for nm in sorted(stored & caller_names):
            new = nm + "_h"
            while new in caller_names or new in stored:
                new += "_"
            ren[nm] = new
        for st_ in body:
            for x in ast.walk(st_):
                if isinstance(x, ast.Name) and x.id in ren:
                    x.id = ren[x.id]
        pre, mapping = [], {}
        rebound = {x.id for st_ in body for x in ast.walk(st_) if isinstance(x, ast.Name) and isinstance(x.ctx, (ast.Store, ast.Del))}
        for p_, arg in sub.items():
            if isinstance(arg, (ast.Name, ast.Attribute, ast.Constant)) and p_ not in rebound:
                mapping[p_] = arg
            else:
                pre.append(ast.Assign(targets=[ast.Name(id=p_, ctx=ast.Store())], value=arg))
        out = pre + [_sh._subst(x, mapping) for x in body[:-1]]
        out.append(ast.Assign(targets=st.targets, value=_sh._subst(body[-1], mapping).value))
        for x in out:
            for y in ast.walk(x):
                if hasattr(y, "lineno") or isinstance(y, (ast.stmt, ast.expr)):
                    y.lineno, y.col_offset = st.lineno, st.col_offset
                    y.end_lineno, y.end_col_offset = getattr(st, "end_lineno", st.lineno), getattr(st, "end_col_offset", 0)
        return out

    for _ in range(2):
        changed = False
        for node in list(ast.walk(fn)):
            for fld in ("body", "orelse", "finalbody"):
                lst = getattr(node, fld, None)
                if not (isinstance(lst, list) and lst and isinstance(lst[0], ast.stmt)):
                    continue
                new = []
                for st in lst:
                    rep = expansion(st)
                    if rep is None:
                        new.append(st)
                    else:
                        new.extend(rep)
                        changed = True
                setattr(node, fld, new)
        if not changed:
            break
    ast.fix_missing_locations(fn)
    return _sh._set_parents(fn)


def _precedes(st, node) -> bool:
    """statement `st` is an earlier sibling of (a statement containing) `node`, at this or an enclosing block level"""
    cur = node
    while cur is not None:
        loc = _sh._block_and_index(cur)
        if loc is None:
            return False
        par, lst, idx = loc
        if any(x is st for x in lst[:idx]):
            return True
        cur = par
    return False


def _named_entry(e, table: str, key: str) -> bool:
    """`e` is the entry of `table` under `key`: `table[key]` or `table.get(key[, default])`"""
    return _sh.match(f"{table}[{key}]", e) is not None or _sh.match(f"{table}.get({key}, *_R)", e) is not None


def _members_of_other_groups(e) -> bool:
    """`e` collects <g>.members for every <g> in self._groups.values() except the root group (whatever the
    comprehension variables are called)"""
    for comp in ast.walk(e):
        if not (isinstance(comp, (ast.ListComp, ast.SetComp, ast.GeneratorExp)) and len(comp.generators) == 2):
            continue
        g0, g1 = comp.generators
        G = norm(g0.target)
        if norm(g0.iter) != "self._groups.values()" or norm(g1.iter) != f"{G}.members" or norm(comp.elt) != norm(g1.target):
            continue
        filters = [(norm(at), tr) for i in g0.ifs + g1.ifs for at, tr in _sh.conjuncts(i, "t")]
        if filters and all(f_ in ((f"{G}.name == 'root'", False), (f"'root' == {G}.name", False)) for f_ in filters):
            return True
    # ... or unites them: <set>.union(*(<g>.members for <g> in self._groups.values() if <g> is not root))
    for u in ast.walk(e):
        if isinstance(u, ast.Call) and call_name(u) == "union" and len(u.args) == 1 and isinstance(u.args[0], ast.Starred) and not u.keywords:
            comp = u.args[0].value
            if isinstance(comp, (ast.ListComp, ast.SetComp, ast.GeneratorExp)) and len(comp.generators) == 1:
                g0 = comp.generators[0]
                G = norm(g0.target)
                filters = [(norm(at), tr) for i in g0.ifs for at, tr in _sh.conjuncts(i, "t")]
                if norm(g0.iter) == "self._groups.values()" and norm(comp.elt) == f"{G}.members" and filters \
                        and all(f_ in ((f"{G}.name == 'root'", False), (f"'root' == {G}.name", False)) for f_ in filters):
                    return True
    return False


def run(ck, ix, tier):
    ck.rule("G-PROV", "the value reaching a sink derives from the named sources")
    memo.rule_base_units_cache(ck, ix)
    memo.rule_group_members(ck, ix)
    memo.rule_system_members(ck, ix)

    # ------------------------------------------------------------ _get_base_units substitution
    fi = ix.func(SR, "GenericSystemRegistry._get_base_units")
    ck.analysed(fi)
    defs = defs_of(fi)
    cfg = cfg_of(fi)
    # system None -> default
    # (an `if` statement or a conditional expression: each value `system` may be given is looked at with what is known there)
    dflt = [v for a in walk_local(fi.node) if isinstance(a, ast.Assign) and any(norm(t) == "system" for t in a.targets) for v in memo.alternatives(a.value)
            if norm(v) == "self._default_system_name"
            and any((norm(at) in ("system is None", "system == None") and tr) or (norm(at) == "system" and not tr) for at, tr in _sh.facts_at(v, fi.node))]
    ck.check(bool(dflt), "G-PROV", "_get_base_units|none-means-default-system", fi.loc(),
             "system=None means the default system", "a missing `system` argument no longer falls back to self._default_system_name")
    # root units come from get_root_units of the input with the same check_nonmult
    roots = [c for c in walk_local(fi.node) if isinstance(c, ast.Call) and call_name(c) in ("get_root_units", "_get_root_units")]
    ck.floor("G-PROV", len(roots), 1, "get_root_units call in _get_base_units")
    for c in roots:
        ck.check(len(c.args) >= 2 and norm(c.args[0]) == "input_units" and norm(c.args[1]) == "check_nonmult", "G-PROV",
                 "_get_base_units|root-units-of-input", fi.loc(c), "root units of the input units", f"`{norm(c)}` is not the root expansion of (input_units, check_nonmult)")
    # the (factor, units) pair they return, by role
    pairs = [a for a in walk_local(fi.node) if isinstance(a, ast.Assign) and isinstance(a.targets[0], ast.Tuple) and len(a.targets[0].elts) == 2
             and all(isinstance(e, ast.Name) for e in a.targets[0].elts) and any(_sh.unalias(a.value, fi.node) is c for c in roots)]
    ck.floor("G-PROV", len(pairs), 1, "(factor, units) = get_root_units(...) in _get_base_units")
    root_factor, root_units = [e.id for e in pairs[0].targets[0].elts]
    # base units table of the requested system (not created on demand)
    gs = [c for c in walk_local(fi.node) if isinstance(c, ast.Call) and call_name(c) == "get_system"]
    ck.floor("G-PROV", len(gs), 1, "get_system call in _get_base_units")
    for c in gs:
        create = c.args[1] if len(c.args) > 1 else next((k.value for k in c.keywords if k.arg == "create_if_needed"), None)
        ck.check(bool(c.args) and norm(c.args[0]) == "system" and create is not None and norm(create) == "False", "G-PROV", "_get_base_units|system-looked-up-not-created", fi.loc(c),
                 "the requested system is looked up (unknown names raise)", f"`{norm(c)}` does not look up the requested system without creating it")
    # substitution loop: the loop over the items of the root units in which the destination is accumulated:
    #   destination *= new_unit ** value   /  destination *= {unit: value}
    from_roots = lambda e: bool({"call:get_root_units", "call:_get_root_units"} & defs.roots(e))
    loops = [f for f in walk_local(fi.node) if isinstance(f, ast.For) and isinstance(f.iter, ast.Call) and call_name(f.iter) == "items" and isinstance(f.iter.func, ast.Attribute)
             and (norm(f.iter.func.value) == root_units or from_roots(f.iter.func.value)) and any(isinstance(a, ast.AugAssign) for a in ast.walk(f))]
    ck.floor("G-PROV", len(loops), 1, "substitution loop over the root units")
    iterated = {norm(f.iter.func.value) for f in loops}       # the root units the loop translates (possibly under another local name)
    accumulators = set()
    for f in loops:
        if not (isinstance(f.target, ast.Tuple) and len(f.target.elts) == 2):
            raise AnalysisError("_get_base_units: unexpected loop target")
        u, v = norm(f.target.elts[0]), norm(f.target.elts[1])
        augs = [a for a in ast.walk(f) if isinstance(a, ast.AugAssign)]
        ck.floor("G-PROV", len(augs), 2, "accumulations in the substitution loop")
        accumulators |= {norm(a.target) for a in augs}
        for a in augs:
            ck.check(isinstance(a.op, ast.Mult), "G-PROV", "_get_base_units|accumulate-by-product", fi.loc(a), "units accumulated by product", f"`{norm(a)}` does not multiply")
            val = defs.inline(a.value)
            if isinstance(val, ast.BinOp) and isinstance(val.op, ast.Pow):
                ck.check(norm(val.right) == v, "G-PROV", "_get_base_units|replacement-raised-to-exponent", fi.loc(a),
                         "replacement raised to the exponent of the replaced unit", f"`{norm(a)}` does not raise the replacement to the exponent `{v}`")
            elif isinstance(val, ast.Call):
                d = [x for x in ast.walk(val) if isinstance(x, ast.Dict)]
                ok = bool(d) and len(d[0].keys) == 1 and norm(d[0].keys[0]) == u and norm(d[0].values[0]) == v
                ck.check(ok, "G-PROV", "_get_base_units|unreplaced-unit-kept-with-exponent", fi.loc(a),
                         "units not replaced by the system are kept with their exponent", f"`{norm(a)}` does not keep `{u}` with exponent `{v}`")
            else:
                ck.check(False, "G-PROV", "_get_base_units|accumulate-shape", fi.loc(a), "", f"unrecognised accumulation `{norm(a)}`")
        # the replacement (`** exponent` accumulation) happens exactly for units declared in the system's base_units table,
        # the keep-as-is accumulation for the others - whichever way the test is written
        declared = lambda a_: isinstance(a_, ast.Compare) and isinstance(a_.ops[0], ast.In) and norm(a_.left) == u and "base_units" in _sh.rnorm(a_.comparators[0], fi.node, 2)
        for a in augs:
            val = defs.inline(a.value)
            repl = isinstance(val, ast.BinOp) and isinstance(val.op, ast.Pow)
            ck.check(_sh.holds_at(a, fi.node, declared, repl), "G-PROV", "_get_base_units|replace-only-declared-units", fi.loc(a), "only units declared by the system are replaced",
                     f"`{norm(a)}` is not executed on the {'declared' if repl else 'undeclared'} side of the membership test in the system's base_units")
    # the factor is converted from the root units to the accumulated destination units
    convs = [c for c in walk_local(fi.node) if isinstance(c, ast.Call) and call_name(c) in ("convert", "_convert")]
    ck.floor("G-PROV", len(convs), 1, "factor conversion in _get_base_units")
    for c in convs:
        args = [norm(a) for a in c.args]
        ck.check(len(args) >= 3 and args[0] == root_factor and args[1] in iterated | {root_units} and args[1] not in accumulators and args[2] in accumulators, "G-PROV", "_get_base_units|factor-converted-root-to-base", fi.loc(c),
                 "factor converted from root units to the substituted units", f"`{norm(c)}` does not convert the factor from `{root_units}` to `{'/'.join(sorted(accumulators))}`")

    # public get_base_units passes its arguments through
    fi = ix.func(SR, "GenericSystemRegistry.get_base_units")
    ck.analysed(fi)
    cs = [c for c in walk_local(fi.node) if isinstance(c, ast.Call) and call_name(c) == "_get_base_units"]
    ck.floor("G-PROV", len(cs), 1, "_get_base_units call in get_base_units")
    for c in cs:
        # (the units may be passed as given or converted to a container on the way, through a temporary or not)
        first = _sh.unalias(c.args[0], fi.node) if c.args else None
        units_ok = first is not None and (norm(first) == "input_units" or _sh.match("to_units_container(input_units, *_R)", first) is not None)
        ck.check(units_ok and [norm(a) for a in c.args[1:]] == ["check_nonmult", "system"], "G-PROV", "get_base_units|arguments-forwarded", fi.loc(c),
                 "arguments forwarded", f"`{norm(c)}` does not forward (input_units, check_nonmult, system)")

    # ------------------------------------------------------------ to/ito_base_units: same target, same registry function
    for pair, regf in ((("PlainQuantity.to_base_units", "PlainQuantity.ito_base_units"), "_get_base_units"),
                       (("PlainQuantity.to_root_units", "PlainQuantity.ito_root_units"), "_get_root_units")):
        for q in pair:
            f = ix.func(PQ, q)
            ck.analysed(f)
            cs = [c for c in walk_local(f.node) if isinstance(c, ast.Call) and call_name(c).startswith("_get_") and call_name(c).endswith("_units")]
            ok = len(cs) == 1 and call_name(cs[0]) == regf and norm(cs[0].args[0]) == "self._units"
            ck.check(ok, "G-TWIN", f"{q}|target-from-{regf}", f.loc(), f"target units from {regf}(self._units)",
                     f"{q} takes its target units from `{norm(cs[0]) if cs else '?'}` instead of {regf}(self._units)")

    # ------------------------------------------------------------ restricted compatible units
    fi = ix.func(GR, "GenericGroupRegistry._get_compatible_units")
    ck.analysed(fi)
    cfg, defs = cfg_of(fi), defs_of(fi)
    for r in live(cfg, return_nodes(cfg)):
        v = defs.inline(cfg.nodes[r].ast.value)
        s = norm(v)
        if "members" in s or "&" in s:
            inter = [b for b in ast.walk(v) if isinstance(b, ast.BinOp) and isinstance(b.op, ast.BitAnd)]
            ok = bool(inter) and any(is_super_call(x, "_get_compatible_units") for x in ast.walk(inter[0])) and \
                any(isinstance(x, ast.Attribute) and x.attr == "members" and _named_entry(x.value, "self._groups", "group") for x in ast.walk(inter[0]))
            ck.check(ok, "G-PROV", "group._get_compatible_units|plain-listing-intersected-with-members", fi.loc(cfg.nodes[r].ast),
                     "plain listing ∩ members of the named group", f"`{s}` is not the intersection of the plain listing with the group's members")
        else:
            ck.check(any(is_super_call(x, "_get_compatible_units") for x in ast.walk(v)), "G-PROV", "group._get_compatible_units|no-group-plain-listing", fi.loc(cfg.nodes[r].ast),
                     "no group: plain listing", f"`{s}` is not the plain listing")
    # edges on which `group` is known NOT to be a registered group (however the membership test is spelled): only raise
    # (`group in self._groups` known false, or the result of `self._groups.get(group)` known to be None)
    unk = sorted(set(_sh.guard_edges(cfg, lambda a_: isinstance(a_, ast.Compare) and isinstance(a_.ops[0], ast.In) and norm(a_.left) == "group" and norm(a_.comparators[0]) == "self._groups", want=False))
                 | set(_sh.guard_edges(cfg, lambda a_: isinstance(a_, ast.Compare) and isinstance(a_.ops[0], ast.Is) and norm(a_.comparators[0]) == "None"
                                       and _sh.match("self._groups.get(group)", defs.inline(a_.left)) is not None, want=True)))
    ck.check(bool(unk), "G-DOM", "group._get_compatible_units|unknown-group-test", fi.loc(), "unknown group names are tested", "unknown group names are no longer detected")
    for t, lab in unk:
        p = edge_leads_only_to_raise(cfg, t, lab)
        ck.check(p is None, "G-DOM", "group._get_compatible_units|unknown-group-raises", fi.loc(cfg.nodes[t].ast), "unknown group raises", "an unknown group name yields a listing", witness(cfg, p))
    fi = ix.func(SR, "GenericSystemRegistry._get_compatible_units")
    ck.analysed(fi)
    cfg, defs = cfg_of(fi), defs_of(fi)
    n_sys = 0
    for r in live(cfg, return_nodes(cfg)):
        v = defs.inline(cfg.nodes[r].ast.value)
        s = norm(v)
        if "members" in s:
            n_sys += 1
            inter = [b for b in ast.walk(v) if isinstance(b, ast.BinOp) and isinstance(b.op, ast.BitAnd)]
            ok = bool(inter) and any(is_super_call(x, "_get_compatible_units") for x in ast.walk(inter[0])) and \
                any(isinstance(x, ast.Attribute) and x.attr == "members" and _named_entry(x.value, "self._systems", "group_or_system") for x in ast.walk(inter[0]))
            ck.check(ok, "G-PROV", "system._get_compatible_units|plain-listing-intersected-with-members", fi.loc(cfg.nodes[r].ast),
                     "plain listing ∩ members of the named system", f"`{s}` is not the intersection of the plain listing with the system's members")
    ck.check(n_sys >= 1, "G-PROV", "system._get_compatible_units|system-branch-present", fi.loc(), "system branch present", "the system branch of _get_compatible_units is gone")

    # ------------------------------------------------------------ default group = root − every other group
    fi = ix.func(GR, "GenericGroupRegistry._after_init")
    ck.analysed(fi)
    src = norm(fi.node)
    adds = [c for c in walk_local(fi.node) if isinstance(c, ast.Call) and call_name(c) == "add_units"]
    ck.floor("G-PROV", len(adds), 1, "add_units call in GroupRegistry._after_init")
    defs = defs_of(fi)
    for c in adds:
        a = c.args[0].value if c.args and isinstance(c.args[0], ast.Starred) else (c.args[0] if c.args else None)
        v = defs.inline(a) if a is not None else None
        ok = isinstance(v, ast.BinOp) and isinstance(v.op, ast.Sub) and "get_group('root'" in norm(v.left) and ".members" in norm(v.left) \
            and _members_of_other_groups(v.right)
        ck.check(ok, "G-PROV", "group._after_init|default-group-gets-orphans", fi.loc(c),
                 "default group receives root members minus the members of every other group",
                 f"`{norm(v) if v is not None else norm(c)}` is not (root members − members of all non-root groups)")
    # every unit added is registered in root
    fi = ix.func(GR, "GenericGroupRegistry._add_unit")
    ck.analysed(fi)
    cfg = cfg_of(fi)
    sup = nodes_with(cfg, lambda x: is_super_call(x, "_add_unit"))
    root = nodes_with(cfg, lambda x: isinstance(x, ast.Call) and call_name(x) == "add_units" and "root" in norm(x.func) and norm(x.args[0]) == "definition.name")
    p = cfg.all_paths_pass(cfg.entry, [cfg.exit], root)
    ck.check(bool(sup) and bool(root) and p is None, "G-PROV", "group._add_unit|every-unit-joins-root", fi.loc(),
             "every added unit is added to the root group", "a unit can be added without joining the root group", witness(cfg, p))

    # ------------------------------------------------------------ rule inversion in System.from_definition
    fi = ix.func(SO, "System.from_definition")
    ck.analysed(fi)
    fn = memo.looked_through(ix, fi, transform=_with_value_helpers_inlined).node      # an extracted `x = _helper(...)` computation is looked through
    # Solving  new = old**p * prod(other**e)  for old gives  old = new**(1/p) * prod(other**(-e/p)).  Every exponent that
    # the function computes is one of: 1/p (the new unit), -e/p (the other root units, old excluded), 1/v (bare rule
    # `new` whose root expansion is old**v) - however the dictionary is assembled (comprehension, loop, literal) and
    # whatever the locals are called.  Roles: (NEW, OLD) = the variables of the loop over the declared replacements; the
    # table = what is handed to `<system>.base_units.update(**table)`.
    rep_loops = [l for l in ast.walk(fn) if isinstance(l, ast.For) and isinstance(l.target, ast.Tuple) and len(l.target.elts) == 2 and all(isinstance(e, ast.Name) for e in l.target.elts)
                 and _sh.rnorm(l.iter, fn) == "system_definition.unit_replacements"]
    ck.floor("G-PROV", len(rep_loops), 1, "loop over system_definition.unit_replacements")
    NEW, OLD = [e.id for e in rep_loops[0].target.elts]
    tables = {norm(k.value) for c in ast.walk(fn) if isinstance(c, ast.Call) and call_name(c) == "update" and isinstance(c.func, ast.Attribute) and norm(c.func.value).endswith(".base_units")
              for k in c.keywords if k.arg is None}
    ck.floor("G-PROV", len(tables), 1, "table handed to base_units.update in System.from_definition")
    expansion_of_new = f"get_root_func({NEW})"
    stores = [a_ for a_ in ast.walk(fn) if isinstance(a_, ast.Assign) and any(isinstance(t, ast.Subscript) and norm(t.value) in tables for t in a_.targets)]
    ck.floor("G-PROV", len(stores), 1, "base_unit_names stores in System.from_definition")      # one per branch, or one after the branches
    divs = [b_ for b_ in ast.walk(rep_loops[0]) if isinstance(b_, ast.BinOp) and isinstance(b_.op, ast.Div)]
    ck.floor("G-PROV", len(divs), 1, "exponent divisions in System.from_definition")
    # a replacement written as a literal {NEW: exponent} (the bare rule), wherever it is stored from
    for d_ in [d_ for d_ in ast.walk(rep_loops[0]) if isinstance(d_, ast.Dict) and len(d_.keys) == 1 and d_.keys[0] is not None and norm(d_.keys[0]) == NEW]:
        for v_ in d_.values:
            st_ = memo.enclosing(d_, (ast.stmt,), fn) or d_
            ck.check(isinstance(v_, ast.BinOp) and isinstance(v_.op, ast.Div), "G-PROV", "System.from_definition|bare-rule-inverted", fi.loc(st_), "replacement exponent is a reciprocal",
                     f"`{norm(st_)}`: for a rule `new` whose root expansion is old**value the replacement must be new**(1/value), not new**({norm(v_)})")

    def exponent_of_old(e):
        """e is (a name for) <expansion of new>[OLD]"""
        x = _sh.unalias(e, fn)
        return isinstance(x, ast.Subscript) and norm(x.slice) == OLD and expansion_of_new in _sh.rnorm(x.value, fn, 3)

    def popped_exponent(e):
        """e is the exponent of the single (unit, exponent) item of the root expansion of new (bare rule)"""
        x = _sh.unalias(e, fn)
        if isinstance(x, ast.Subscript) and "popitem()" in norm(x.value) and norm(x.slice) == "1" and expansion_of_new in _sh.rnorm(x.value, fn, 4):
            return True
        # ... or the second name of a (unit, exponent) pair unpacked from the items of that expansion by an earlier
        # statement: `u, e = d.popitem()`, `((u, e),) = d.items()`, `[(u, e)] = ...`
        if not isinstance(e, ast.Name):
            return False
        for st in ast.walk(fn):
            if not (isinstance(st, ast.Assign) and len(st.targets) == 1 and _precedes(st, e)):
                continue
            pairs = [t for t in ast.walk(st.targets[0]) if isinstance(t, (ast.Tuple, ast.List)) and len(t.elts) == 2 and all(isinstance(n_, ast.Name) for n_ in t.elts)]
            src = _sh.rnorm(st.value, fn, 4)
            if any(t.elts[1].id == e.id for t in pairs) and expansion_of_new in src and ("popitem()" in src or ".items()" in src):
                return True
        return False

    def other_exponent(e):
        """e is the exponent variable of a loop/comprehension over <expansion of new>.items() with OLD excluded"""
        if not isinstance(e, ast.Name):
            return False
        for x in ast.walk(fn):
            tgt, it = (x.target, x.iter) if isinstance(x, (ast.For, ast.comprehension)) else (None, None)
            if isinstance(tgt, ast.Tuple) and len(tgt.elts) == 2 and norm(tgt.elts[1]) == e.id and norm(it).endswith(".items()") and expansion_of_new in _sh.rnorm(it, fn, 3):
                return True
        return False
    excluded = lambda a_: isinstance(a_, ast.Compare) and isinstance(a_.ops[0], ast.Eq) and OLD in (norm(a_.left), norm(a_.comparators[0]))
    kinds = []
    for b_ in divs:
        num, den = b_.left, b_.right
        if isinstance(num, ast.Constant) and num.value == 1 and exponent_of_old(den):
            kinds.append("new")
            ck.ok("G-PROV", "System.from_definition|new-unit-exponent-inverted", fi.loc(b_), "new unit gets exponent 1/p")
        elif isinstance(num, ast.Constant) and num.value == 1 and popped_exponent(den):
            kinds.append("bare")
            ck.ok("G-PROV", "System.from_definition|bare-rule-inverted", fi.loc(b_), "old = new ** (1/value)")
        elif isinstance(num, ast.UnaryOp) and isinstance(num.op, ast.USub) and other_exponent(num.operand) and exponent_of_old(den):
            kinds.append("other")
            ck.check(_sh.holds_at(b_, fn, excluded, False), "G-PROV", "System.from_definition|old-unit-excluded", fi.loc(b_), "the replaced unit is excluded", "the replaced unit is not excluded from its own replacement")
            ck.ok("G-PROV", "System.from_definition|other-units-exponent-inverted", fi.loc(b_), "other root units get exponent -e/p")
        else:
            which = "bare-rule-inverted" if "popitem" in _sh.rnorm(den, fn, 4) or "popitem" in _sh.rnorm(num, fn, 4) else ("new-unit-exponent-inverted" if isinstance(num, ast.Constant) or exponent_of_old(num) else "other-units-exponent-inverted")
            ck.fail("G-PROV", f"System.from_definition|{which}", fi.loc(b_), f"`{norm(b_)}` is none of 1/p (new unit), -e/p (other root units), 1/v (bare rule), with p the exponent of the replaced unit in the expansion of the new unit: "
                    "solving new = old**p * prod(other**e) for old gives new**(1/p) * prod(other**(-e/p))")
    ck.check({"new", "bare", "other"} <= set(kinds), "G-PROV", "System.from_definition|all-three-exponent-forms-present", fi.loc(), "1/p, -e/p and 1/v are all computed", f"only {sorted(set(kinds))} of the exponent forms (new, other, bare) are computed")
    # a replaced unit that is not its own root expansion is rejected: where the comparison of OLD with (the text of)
    # get_root_func(OLD) fails, only a raise follows
    tests = [t for t in ast.walk(fn) if isinstance(t, ast.If) and f"get_root_func({OLD})" in norm(t.test)]
    ck.check(bool(tests) and all(any(isinstance(r, ast.Raise) for r in ast.walk(t)) for t in tests), "G-DOM", "System.from_definition|old-unit-must-be-root", fi.loc(),
             "a replaced unit that is not a root unit is rejected", "a non-root `old` unit is no longer rejected")

    # ------------------------------------------------------------ system-scoped attribute lookup
    fi = ix.func(SO, "System.__getattr__")
    ck.analysed(fi)
    cfg = cfg_of(fi)
    first = [c for c in walk_local(fi.node) if isinstance(c, ast.Call) and isinstance(c.func, ast.Name) and c.func.id == "getattr" and len(c.args) >= 2]
    scoped = [c for c in first if norm(c.args[1]).replace(" ", "") in ("self.name+'_'+item", "f'{self.name}_{item}'")]
    plain = [c for c in first if norm(c.args[1]) == "item"]
    ck.check(bool(scoped) and bool(plain), "G-PROV", "System.__getattr__|scoped-then-plain", fi.loc(),
             "looks up <system>_<name> then <name>", "System.__getattr__ no longer tries <system>_<item> before <item>")
    if scoped and plain:
        # the plain lookup only happens where the result of the system-scoped lookup is known to be None
        def scoped_result_is_none(at):
            if not (isinstance(at, ast.Compare) and len(at.ops) == 1 and isinstance(at.ops[0], ast.Is) and norm(at.comparators[0]) == "None"):
                return False
            return any(_sh.unalias(at.left, fi.node) is c for c in scoped)
        ck.check(all(_sh.holds_at(c, fi.node, scoped_result_is_none, True) for c in plain), "G-PROV", "System.__getattr__|scoped-first", fi.loc(scoped[0]), "system variant tried first", "the plain name is tried before the system variant")
    guard = nodes_calling(cfg, "getattr_maybe_raise")
    for c in first:
        ids = cfg.nodes_for_ast(c)
        p = undominated(cfg, ids, guard)
        ck.check(p is None, "G-DOM", "System.__getattr__|private-names-rejected-first", fi.loc(c), "getattr_maybe_raise first", "attribute lookup before getattr_maybe_raise", witness(cfg, p))
    own_units_rule(ck, ix)
    return EXPLANATION
