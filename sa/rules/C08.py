"""C08 — unit names resolve deterministically: exact names first, then prefix+unit+plural."""
from __future__ import annotations

import ast

from .. import memo, shape
from ..flow import call_name, dotted, norm, writes_in
from ..index import AnalysisError, walk_local
from ..lib import (cfg_of, defs_of, edge_leads_only_to_raise, has, live, nodes_calling, nodes_with,
                   return_nodes, undominated, witness)

PR = "pint.facets.plain.registry"
NR = "pint.facets.nonmultiplicative.registry"

EXPLANATION = (
    "Static analysis (no execution): in get_name the prefix/suffix search is reachable only through the KeyError of "
    "the exact lookup of the same string and 'dimensionless' is answered first; a prefixed unit is registered only after "
    "the is_multiplicative test (false edge raises OffsetUnitCalculusError), once, under prefix + unit with that "
    "prefix's converter and reference {unit: 1}, and stays out of the case-insensitive index; _yield_unit_triplets "
    "yields the same canonical (prefix name, unit name, suffix) triple in its case-sensitive and case-insensitive "
    "branches, strips the suffix, and applies a prefix only to defined spellings; _dedup_candidates drops the "
    "unprefixed twin of a prefixed reading; get_symbol composes prefix symbol + unit symbol of the same first "
    "candidate; every adder of the unit table feeds the case-insensitive index (and only those); storing a spelling "
    "drops its cached parse; the parse cache is read and written under as_delta only; delta substitution happens only "
    "for compound expressions / non-unit exponents and non-multiplicative units; all __getattr__ hooks reject private "
    "names first and __contains__ maps exactly UndefinedUnitError to False. Does not decide the cross product of "
    "spellings or collisions (data dependent).")
EXPLANATION += ' Also decided (rules added after the second round of seeded changes): on every path of _helper_single_adder that stores a spelling the spelling is also indexed (local aliases of the unit table resolved at the call sites).'
EXPLANATION += ' Also decided (round 8): the sort key that puts the spelling as written first compares with the same stem whose lower-cased form was looked up in the case-insensitive index.'



# ---------------------------------------------------------------- role helpers (no name of a local variable below)
def emptiness(atom, is_value):
    """For a positive atom of a test: the truth value of the atom under which a value recognised by `is_value` is known
    to be EMPTY (`X` / `len(X) > 0` / `len(X) >= 1`: False; `len(X) == 0` / `len(X) < 1`: True), else None."""
    if is_value(atom):
        return False
    if isinstance(atom, ast.Compare) and len(atom.ops) == 1:
        l, op, r = atom.left, atom.ops[0], atom.comparators[0]
        if isinstance(r, ast.Call) and not isinstance(l, ast.Call):          # `0 == len(X)`, `0 < len(X)`
            l, r = r, l
            op = {ast.Lt: ast.Gt, ast.Gt: ast.Lt, ast.LtE: ast.GtE, ast.GtE: ast.LtE}.get(type(op), type(op))()
        if isinstance(l, ast.Call) and isinstance(l.func, ast.Name) and l.func.id == "len" and len(l.args) == 1 and is_value(l.args[0]) and isinstance(r, ast.Constant):
            table = {(ast.Eq, 0): True, (ast.Lt, 1): True, (ast.LtE, 0): True, (ast.Gt, 0): False, (ast.GtE, 1): False}
            return table.get((type(op), r.value))
    return None


def empty_edges(cfg, is_value) -> list:
    """CFG edges (test, label) on which a value recognised by `is_value` is known to be empty."""
    out = []
    for truth in (True, False):
        out += shape.guard_edges(cfg, lambda a_: emptiness(a_, is_value) is truth, want=truth)
    return out


def excluded_situation(atom, truth) -> list:
    """A fact (atom, truth) written as the conjunction of [(positive atom, truth)] that it EXCLUDES: a plain atom known
    to be `truth` excludes [(atom, not truth)]; `a and b` known False excludes [a, b]; `a or b` known True excludes
    [not a, not b].  So `if p and x not in t: continue` and `if not p or x in t: <here>` state the same thing."""
    if isinstance(atom, ast.BoolOp) and isinstance(atom.op, ast.And) and truth is False:
        return list(shape.conjuncts(atom, "t"))
    if isinstance(atom, ast.BoolOp) and isinstance(atom.op, ast.Or) and truth is True:
        return list(shape.conjuncts(atom, "f"))
    return [(atom, not truth)]


def defaults_from(fn, param: str, default: str):
    """The node at which parameter `param` is replaced by `default` exactly when it is None: a conditional expression
    `default if param is None else param` (either polarity) or an assignment `param = default` that executes only
    where `param is None` holds.  None if there is no such node."""
    def is_none(a_):
        return shape.match(f"{param} is None", a_) is not None
    for x in ast.walk(fn):
        if isinstance(x, ast.IfExp):
            cj = list(shape.conjuncts(x.test, "t"))
            if len(cj) == 1 and is_none(cj[0][0]):
                dflt, kept = (x.body, x.orelse) if cj[0][1] else (x.orelse, x.body)
                if norm(dflt) == default and norm(kept) == param:
                    return x
        elif isinstance(x, ast.Assign) and len(x.targets) == 1 and norm(x.targets[0]) == param and norm(x.value) == default and shape.holds_at(x, fn, is_none, True):
            return x
    return None


def _ancestors(node):
    cur = getattr(node, "_parent", None)
    while cur is not None:
        yield cur
        cur = getattr(cur, "_parent", None)


def search_calls(fn) -> list:
    """[(call, string argument, case-sensitivity argument or None)] for the calls of self.parse_unit_name in `fn`."""
    out = []
    for c in ast.walk(fn):
        if isinstance(c, ast.Call) and call_name(c) == "parse_unit_name" and isinstance(c.func, ast.Attribute) and norm(c.func.value) == "self" and c.args:
            kw = {k.arg: k.value for k in c.keywords}
            out.append((c, c.args[0], c.args[1] if len(c.args) > 1 else kw.get("case_sensitive")))
    return out


class FirstReading:
    """The roles in get_name / get_symbol: CAND = the tuple of readings `self.parse_unit_name(<param>, case_sensitive)`,
    prefix = CAND[0][0], unit = CAND[0][1] - whatever the locals that hold them are called."""

    def __init__(self, fn, param="name_or_alias"):
        self.fn = fn
        self.calls = [(c, s, cs) for (c, s, cs) in search_calls(fn) if norm(s) == param]
        self.cands = {norm(shape.resolve(c, fn)) for (c, s, cs) in self.calls}
        self.prefixes = {f"{c}[0][0]" for c in self.cands}
        self.units = {f"{c}[0][1]" for c in self.cands}

    def r(self, e) -> str:
        return shape.rnorm(e, self.fn)

    def is_cand(self, e) -> bool:
        return isinstance(e, ast.expr) and self.r(e) in self.cands

    def show(self, text: str) -> str:
        """resolved text with the roles written by name (for messages)"""
        for c in sorted(self.cands, key=len, reverse=True):
            text = text.replace(f"{c}[0][0]", "<prefix>").replace(f"{c}[0][1]", "<unit>").replace(c, "<candidates>")
        return text


def casei_writers_rule(ck, ix):
    """The case-insensitive index `_units_casei` is also pint's 'is a defined spelling' test (prefixes only apply to
    indexed spellings).  Every definition-time writer of the unit table writes the index too, on every path."""
    n = 0
    for f in ix.all_functions():
        if not isinstance(f.node, (ast.FunctionDef, ast.AsyncFunctionDef)):
            continue
        for c in walk_local(f.node):
            if isinstance(c, ast.Call) and call_name(c) in ("_helper_adder", "_helper_single_adder") and dotted(c.func.value) == "self":
                dfs = defs_of(f)
                args = [norm(dfs.inline(a)) for a in c.args]  # local aliases such as `unit_dict = self._units` are resolved
                tbl, casei = args[-2], args[-1]
                if f.name in ("_helper_adder",):
                    ok = tbl == "target_dict" and casei == "casei_target_dict"
                    ck.check(ok, "G-MEMO-FILL", f"casei-index|{f.name}-forwards-both-tables", f.loc(c), "forwards table and index", f"`{norm(c)}` does not forward both tables")
                    continue
                n += 1
                if tbl == "self._units":
                    ck.check(casei == "self._units_casei", "G-MEMO-FILL", f"casei-index|writer={f.qualname.split('::')[1]}", f.loc(c), "unit table and case-insensitive index written together",
                             f"`{norm(c)}` stores a unit spelling without entering it into _units_casei: case-insensitive lookups miss it (and prefixes no longer apply to it)")
                else:
                    ck.check(casei == "None", "G-MEMO-FILL", f"casei-index|non-unit-table|writer={f.qualname.split('::')[1]}", f.loc(c), "other tables have no case-insensitive index", f"`{norm(c)}` indexes a non-unit table in _units_casei")
    ck.floor("G-MEMO-FILL", n, 3, "adder calls")
    fi = ix.func(PR, "GenericPlainRegistry._helper_single_adder")
    ck.check(has(ix, fi, "casei_target_dict[key.lower()].add(key)"), "G-MEMO-FILL", "casei-index|lowercased-key-maps-to-spelling", fi.loc(), "index maps lower-cased spelling to the spelling", "the case-insensitive index is no longer filled with key.lower() -> key")
    ck.analysed(fi)
    cfg = cfg_of(fi)
    stores, adds = [], []
    for (p, k, nd) in writes_in(fi.node):
        if p == "target_dict" and k == "item-store":
            stores += cfg.nodes_for_ast(nd)
        if p.startswith("casei_target_dict"):
            adds += cfg.nodes_for_ast(nd)
    # edges on which the table is known to have no index (`casei_target_dict is None` holds / `casei_target_dict` is falsy)
    none_edges = shape.guard_edges(cfg, lambda a_: shape.match("casei_target_dict is None", a_) is not None, want=True) \
        + shape.guard_edges(cfg, lambda a_: isinstance(a_, ast.Name) and a_.id == "casei_target_dict", want=False)
    ck.check(bool(stores) and bool(adds), "G-MEMO-FILL", "casei-index|single-adder-writes-both", fi.loc(), "the adder writes table and index", "_helper_single_adder no longer writes both the table and the index")
    for s_ in live(cfg, stores):
        p1 = cfg.path(cfg.entry, [s_], avoid=adds, avoid_edges=none_edges)
        p2 = cfg.path(s_, [cfg.exit], avoid=adds, avoid_edges=none_edges) if p1 else None
        ck.check(not (p1 and p2), "G-MEMO-FILL", "casei-index|indexed-on-every-storing-path", fi.loc(cfg.nodes[s_].ast), "every path that stores a spelling also indexes it (unless the table has no index)",
                 "a path stores a spelling in the table without entering it into the case-insensitive index (e.g. when the key already exists because it was registered lazily as a prefixed unit): prefixes and case-insensitive lookups then miss a defined unit",
                 witness(cfg, (p1 or []) + (p2 or [])[1:]))


def ordered_candidates_rule(ck, ix):
    """Name resolution is deterministic: the candidate readings are produced in an order that does not depend on the
    hash seed.  The registry keeps some spellings in sets (`_units_casei[...]`); wherever a function on the lookup path
    iterates over such a set the iteration is over `sorted(...)`."""
    init = ix.func(PR, "GenericPlainRegistry.__init__")
    set_tables = set()
    for a in walk_local(init.node):
        if isinstance(a, (ast.Assign, ast.AnnAssign)):
            tgt = a.targets[0] if isinstance(a, ast.Assign) else a.target
            v = a.value
            if v is not None and isinstance(tgt, ast.Attribute) and norm(tgt.value) == "self" and norm(v).replace(" ", "") in ("defaultdict(set)", "collections.defaultdict(set)"):
                set_tables.add(tgt.attr)
    ck.floor("G-DET", len(set_tables), 1, "set-valued spelling tables of the registry")
    n = 0
    for q in ("GenericPlainRegistry._yield_unit_triplets", "GenericPlainRegistry.parse_unit_name", "GenericPlainRegistry.get_name", "GenericPlainRegistry.get_symbol", "GenericPlainRegistry._dedup_candidates"):
        f = ix.func(PR, q)
        dfs = defs_of(f)
        for x in ast.walk(f.node):
            it = x.iter if isinstance(x, (ast.For, ast.comprehension)) else None
            if it is None:
                continue
            def classify(e, depth=3):
                """(mentions a set-valued table, is ordered) for an iterable expression; a local name is followed to all its definitions"""
                inner, ordered = e, False
                while isinstance(inner, ast.Call) and isinstance(inner.func, ast.Name) and inner.func.id in ("sorted", "list", "tuple", "reversed") and inner.args:
                    ordered = ordered or inner.func.id == "sorted"
                    inner = inner.args[0]
                if isinstance(inner, ast.Name) and inner.id in dfs.defs and inner.id not in dfs.params and depth > 0:
                    rs = [classify(v, depth - 1) for (v, k, st) in dfs.defs[inner.id] if v is not None and k == "assign"]
                    hits = [h for h, _ in rs if h]
                    return (hits[0] if hits else None), ordered or all(o for h, o in rs if h)
                text = norm(inner)
                hit_ = [t for t in set_tables if f"self.{t}" in text]
                return (hit_[0] if hit_ else None), ordered
            h0, ordered = classify(it)
            hit = [h0] if h0 else []
            if not hit:
                continue
            n += 1
            ck.check(ordered, "G-DET", f"{q.split('.')[1]}|iteration-over-spelling-set-is-ordered|{hit[0]}", f.loc(x if isinstance(x, ast.For) else it), "candidates taken from the set in sorted order",
                     f"`for ... in {norm(it)}` iterates over a set of spellings: the order of the candidate readings, and with it the reading chosen when a case-insensitive spelling is ambiguous (Ms: megasecond / megasiemens), depends on PYTHONHASHSEED")
    ck.floor("G-DET", n, 1, "iterations over set-valued spelling tables on the lookup path")
    # the tie-break "the spelling as written first" must compare with the SAME stem whose lower-cased form was looked up
    # in the index (`sorted(index.get(X.lower(), ()), key=lambda s: (s != X, s))`), not with another string in scope
    f = ix.func(PR, "GenericPlainRegistry._yield_unit_triplets")
    for c in [c for c in ast.walk(f.node) if isinstance(c, ast.Call) and isinstance(c.func, ast.Name) and c.func.id == "sorted" and c.args]:
        m_ = shape.match("_T.get(_X.lower(), *_R)", shape.resolve(c.args[0], f.node)) or shape.match("_T[_X.lower()]", shape.resolve(c.args[0], f.node))
        keyf = next((k.value for k in c.keywords if k.arg == "key"), None)
        if m_ is None or keyf is None:
            continue
        # the stem as written at the lookup (a local shared with the key function) and as resolved: the same value
        w_ = shape.unalias(c.args[0], f.node)
        mw_ = shape.match("_T.get(_X.lower(), *_R)", w_) or shape.match("_T[_X.lower()]", w_)
        same_stem = {m_["_X"]} | ({mw_["_X"]} if mw_ is not None else set())
        if isinstance(keyf, ast.Name):
            keyf = next((d for d in ast.walk(f.node) if isinstance(d, ast.FunctionDef) and d.name == keyf.id), None)
        if not isinstance(keyf, (ast.Lambda, ast.FunctionDef)) or not keyf.args.args:
            continue
        par = keyf.args.args[0].arg
        others = []
        for cmp_ in [x for x in ast.walk(keyf) if isinstance(x, ast.Compare) and len(x.ops) == 1 and isinstance(x.ops[0], (ast.Eq, ast.NotEq))]:
            l_, r_ = norm(cmp_.left), norm(cmp_.comparators[0])
            if par in (l_, r_):
                others.append(r_ if l_ == par else l_)
        for o in others:
            ck.check(o in same_stem, "G-DET", "_yield_unit_triplets|as-written-spelling-is-the-looked-up-stem", f.loc(c), "the sort key prefers the stem that was looked up",
                     f"the candidates of `{m_['_X']}.lower()` are ordered by comparison with `{o}`, not with `{m_['_X']}`: for prefixed or plural strings the spelling as written no longer comes first (km -> kilomolar)")

def parse_unit_name_rule(ck, ix):
    """parse_unit_name hands `unit_name` and the case-sensitivity flag - the registry's default when the caller gave
    None - to _yield_unit_triplets and returns the deduplicated readings."""
    fi = ix.func(PR, "GenericPlainRegistry.parse_unit_name")
    ck.analysed(fi)
    fn = fi.node
    dflt = defaults_from(fn, "case_sensitive", "self.case_sensitive")
    rets = shape.returns_of(fn)
    ck.floor("G-PROV", len(rets), 1, "value returned by parse_unit_name")
    # the flag handed on is the defaulted one: the conditional expression itself (through any temporary), or the parameter
    # after `if case_sensitive is None: case_sensitive = self.case_sensitive`
    passed = (norm(dflt),) if isinstance(dflt, ast.IfExp) else ("case_sensitive",)
    ok = dflt is not None
    for r in rets:
        v = shape.resolve(r.value, fn)
        b = shape.match("self._dedup_candidates(self._yield_unit_triplets(unit_name, _CS))", v) or shape.match("self._dedup_candidates(self._yield_unit_triplets(unit_name, case_sensitive=_CS))", v)
        ok = ok and b is not None and b["_CS"] in passed
    ck.check(ok, "G-PROV", "parse_unit_name|defaults-and-dedup", fi.loc(),
             "registry default for case sensitivity; candidates deduplicated", "parse_unit_name no longer defaults case_sensitive from the registry / dedups the candidates")


def yield_triplets_rule(ck, ix):
    """_yield_unit_triplets, by role: S, P = the variables of the loop over product(self._suffixes, self._prefixes);
    stem = unit_name with P stripped in front and (when S is not empty) S stripped at the end; a reading is yielded
    either for the stem itself (case-sensitive) or for each defined spelling of the case-insensitive index entry of the
    lower-cased stem."""
    fi = ix.func(PR, "GenericPlainRegistry._yield_unit_triplets")
    ck.analysed(fi)
    fn, dfs, cfg = fi.node, defs_of(fi), cfg_of(fi)
    R = lambda e: shape.rnorm(e, fn)
    ys = [y for y in walk_local(fn) if isinstance(y, ast.Yield)]
    ck.check(len(ys) >= 1, "G-TWIN", "_yield_unit_triplets|two-branches", fi.loc(), "candidate triplets are yielded (each site checked below)", "no candidate triplet is yielded any more")
    cs_tests = [t for t in ast.walk(fn) if isinstance(t, (ast.If, ast.IfExp)) and any(isinstance(x, ast.Name) and x.id == "case_sensitive" for x in ast.walk(t.test))]
    ck.check(len(cs_tests) >= 1, "G-TWIN", "_yield_unit_triplets|case-sensitivity-distinguished", fi.loc(), "case-sensitive and case-insensitive lookups are distinguished", "the case_sensitive flag is no longer consulted")
    # the loop over all (suffix, prefix) pairs, suffix-major (the order of the readings is part of the behaviour)
    # ... written as one loop over itertools.product(self._suffixes, self._prefixes) or as a loop over the suffixes that
    # contains the loop over the prefixes (snapshots `tuple(self._suffixes)` held in locals are looked through)
    def table(e):
        """text of the registry table an iterable runs over: temporaries resolved, tuple()/list()/iter() snapshots and .keys() dropped"""
        e = shape.resolve(e, fn)
        while isinstance(e, ast.Call) and ((isinstance(e.func, ast.Name) and e.func.id in ("tuple", "list", "iter") and len(e.args) == 1) or (isinstance(e.func, ast.Attribute) and e.func.attr == "keys" and not e.args)):
            e = e.args[0] if isinstance(e.func, ast.Name) else e.func.value
        return norm(e)
    prod = []          # (suffix variable, prefix variable, [loop statements])
    for l in walk_local(fn):
        if not isinstance(l, ast.For):
            continue
        if isinstance(l.target, ast.Tuple) and len(l.target.elts) == 2 and all(isinstance(e, ast.Name) for e in l.target.elts) \
                and R(l.iter) in ("itertools.product(self._suffixes, self._prefixes)", "product(self._suffixes, self._prefixes)"):
            prod.append((l.target.elts[0].id, l.target.elts[1].id, [l]))
        elif isinstance(l.target, ast.Name) and table(l.iter) == "self._suffixes":
            for inner in l.body:
                if isinstance(inner, ast.For) and isinstance(inner.target, ast.Name) and table(inner.iter) == "self._prefixes":
                    prod.append((l.target.id, inner.target.id, [l, inner]))
    if len(prod) != 1 or not ys:
        ck.fail("G-PROV", "_yield_unit_triplets|all-prefix-suffix-combinations", fi.loc(), "candidates are no longer produced by one loop over itertools.product(self._suffixes, self._prefixes)")
        return
    S, P, pair_loops = prod[0]
    inside = lambda y: any(p_ is pair_loops[-1] for p_ in _ancestors(y))
    is_S = lambda a_: isinstance(a_, ast.Name) and a_.id == S
    is_P = lambda a_: isinstance(a_, ast.Name) and a_.id == P
    orig = lambda a_: a_ if hasattr(a_, "_parent") else getattr(getattr(a_, "left", None), "_parent", a_)     # atoms() builds the positive form of `a != b` afresh
    framed = lambda y: shape.holds_at(y, fn, lambda a_: R(a_) == f"unit_name.startswith({P})", True) and shape.holds_at(y, fn, lambda a_: R(a_) == f"unit_name.endswith({S})", True)
    ck.check(all(inside(y) and framed(y) for y in ys), "G-PROV", "_yield_unit_triplets|all-prefix-suffix-combinations", fi.loc(), "all suffix x prefix combinations that frame the string", "candidates are no longer produced for exactly the (suffix, prefix) pairs that frame the string")
    # the stem
    CUT, STEM = f"unit_name[len({P}):]", f"unit_name[len({P}):][:-len({S})]"
    ONE = f"unit_name[len({P}):len(unit_name) - len({S})]"          # both strips in one slice: right for an empty suffix too
    slices = [x for x in walk_local(fn) if isinstance(x, ast.Subscript) and isinstance(x.slice, ast.Slice)]
    texts = {R(x) for x in slices}
    plural_only = all(shape.holds_at(x, fn, is_S, True) for x in slices if R(x) == STEM)
    ck.check((CUT in texts and STEM in texts and plural_only) or (ONE in texts and STEM not in texts), "G-PROV", "_yield_unit_triplets|strips-prefix-and-suffix", fi.loc(), "prefix and suffix are stripped exactly",
             f"prefix/suffix stripping changed (off-by-one?): {sorted(norm(x) for x in slices)}" if plural_only else "the suffix is stripped although it may be empty (`x[:-0]` is empty)")
    stem_names = {n for n, ds in dfs.defs.items() if n not in dfs.params and ds and all(k == "assign" and v is not None and R(v) in (CUT, STEM, ONE) for (v, k, st) in ds)}
    is_stem = lambda text: text in (CUT, STEM, ONE) or text in stem_names

    def one_letter(a_):
        """`len(<de-pluralised stem>) == 1`"""
        b = shape.match("len(_X) == 1", a_)
        if b is None:
            return False
        return R(a_.left.args[0]) == STEM or ((b["_X"] in stem_names or R(a_.left.args[0]) == ONE) and shape.holds_at(orig(a_), fn, is_S, True))
    yield_nodes = [i for y in ys for i in cfg.nodes_for_ast(getattr(y, "_parent", y))]
    loop_nodes = [n.id for n in cfg.nodes if n.kind == "for" and any(n.stmt is l_ for l_ in pair_loops)]
    e1 = sorted(set(shape.guard_edges(cfg, one_letter, want=True)))
    skipped = all(cfg.path(v, yield_nodes, avoid=loop_nodes) is None for (t, lab) in e1 for (v, l2) in cfg.succ[t] if l2 == lab and v not in loop_nodes)
    ck.check(bool(e1) and bool(yield_nodes) and skipped, "G-PROV", "_yield_unit_triplets|no-plural-of-one-letter-units", fi.loc(), "one-letter stems are not de-pluralised",
             "the one-letter plural exclusion is gone" if not e1 else "a one-letter de-pluralised stem still produces a reading")

    # every reading: canonical names; unit looked up under the stem (then only a defined spelling may take a prefix) or under
    # the defined spellings of the lower-cased stem
    def index_entry(e):
        """e is `self._units_casei.get(<stem>.lower(), <default>)`, possibly wrapped in sorted/list/tuple"""
        while isinstance(e, ast.Call) and isinstance(e.func, ast.Name) and e.func.id in ("sorted", "list", "tuple") and e.args:
            e = e.args[0]
        b = shape.match("self._units_casei.get(_Y.lower(), _D)", shape.resolve(e, fn))
        return b is not None and is_stem(b["_Y"])

    def defined_spelling(a_):
        b = shape.match("_X in self._units_casei.get(_Y.lower(), _D)", shape.resolve(a_, fn)) if isinstance(a_, ast.Compare) else None
        return b is not None and is_stem(b["_X"]) and b["_Y"] == b["_X"]

    def prefix_needs_defined_spelling(y):
        for a_, truth in shape.facts_at(y, fn):
            sit = excluded_situation(a_, truth)
            if sit and all((t2 is True and is_P(x)) or (t2 is False and defined_spelling(x)) for x, t2 in sit):
                return True
        return False
    def iterable_kinds(it, at, depth=3):
        """What a loop over `it` runs over: [('index', site)] the defined spellings of the lower-cased stem,
        [('stem', site)] a literal tuple/list of the stem (site = where that choice is made), or [('other', site)];
        a local holding the iterable is followed to each of its assignments."""
        if index_entry(it):
            return [("index", at)]
        e = it
        while isinstance(e, ast.Call) and isinstance(e.func, ast.Name) and e.func.id in ("sorted", "list", "tuple") and e.args:
            e = e.args[0]
        if isinstance(e, (ast.Tuple, ast.List)) and e.elts and all(is_stem(R(el)) for el in e.elts):
            return [("stem", at)]
        if isinstance(e, ast.Name) and depth > 0:
            ds = [(v, st) for (v, k, st) in dfs.defs.get(e.id, []) if k == "assign" and v is not None]
            if ds and len(ds) == len(dfs.defs[e.id]) and e.id not in dfs.params:
                return [r for (v, st) in ds for r in iterable_kinds(v, st, depth - 1)]
        return [("other", at)]

    def readings_of(x, at):
        """the kinds of unit key `x` (text) used in the reading yielded at `at`"""
        if is_stem(x):
            return [("stem", at)]
        binds = dfs.defs.get(x, []) if x.isidentifier() else []
        if not binds or x in dfs.params or not all(k == "iter" for (it, k, st) in binds):
            return [("other", at)]
        return [r for (it, k, st) in binds for r in iterable_kinds(it, st)]
    n_casei, unguarded, stray = 0, [], []
    for y in ys:
        v = shape.resolve(y.value, fn) if y.value is not None else None
        tag = norm(y.value.elts[1])[:30] if isinstance(y.value, ast.Tuple) and len(y.value.elts) == 3 else (norm(v)[:30] if v is not None else "")
        if not (isinstance(v, ast.Tuple) and len(v.elts) == 3):
            ck.fail("G-TWIN", f"_yield_unit_triplets|canonical-unit-name|{tag}", fi.loc(y), f"`{norm(y)}` does not yield a (prefix name, unit name, suffix) triple")
            continue
        a, b, c = [norm(e) for e in v.elts]
        ck.check(a == f"self._prefixes[{P}].name", "G-TWIN", f"_yield_unit_triplets|canonical-prefix-name|{tag}", fi.loc(y), "prefix reported by its canonical name", f"`{a}` is yielded as the prefix (must be the canonical name self._prefixes[{P}].name)")
        bu = shape.match("self._units[_X].name", v.elts[1])
        ck.check(bu is not None, "G-TWIN", f"_yield_unit_triplets|canonical-unit-name|{tag}", fi.loc(y), "unit reported by its canonical name", f"`{b}` is yielded as the unit (must be the canonical name)")
        ck.check(c == f"self._suffixes[{S}]", "G-TWIN", f"_yield_unit_triplets|canonical-suffix|{tag}", fi.loc(y), "suffix reported canonically", f"`{c}` is yielded as the suffix")
        if bu is None:
            continue
        for kind, site in readings_of(bu["_X"], y):
            if kind == "index":
                n_casei += 1
            elif kind == "stem":
                if not prefix_needs_defined_spelling(site):
                    unguarded.append(site)
            else:
                stray.append((y, bu["_X"]))
    ck.check(not unguarded, "G-DOM", "_yield_unit_triplets|prefix-only-on-defined-spellings", fi.loc(unguarded[0]) if unguarded else fi.loc(),
             "a prefix is only applied to defined spellings (not to prefixed units registered on the fly)",
             "prefixes are applied to any key of the unit table, including prefixed units registered on the fly: 'kilomillifoot' is accepted after 'millifoot' was looked up, a fresh registry rejects it")
    ck.check(n_casei >= 1 and not stray, "G-PROV", "_yield_unit_triplets|casei-lookup-lowercases", fi.loc(stray[0][0]) if stray else fi.loc(), "case-insensitive lookup lower-cases the stem",
             f"a reading is produced for `self._units[{stray[0][1]}]`, which is neither the stem nor a defined spelling of the lower-cased stem" if stray else "the case-insensitive lookup no longer lower-cases the stem")


def dedup_rule(ck, ix):
    """_dedup_candidates, by role: U = the readings in first-occurrence order, `dict.fromkeys(candidates)` (possibly
    snapshotted by list()/tuple(), under any name); for every reading (p, u, s) of U with a prefix the unprefixed twin
    ('', p + u, '') is dropped - popped from U itself, or collected in a set that the returned sequence filters out -
    and the result is tuple(U) / tuple(x for x in U if x not in <that set>): same members, same order."""
    fi = ix.func(PR, "GenericPlainRegistry._dedup_candidates")
    ck.analysed(fi)
    fn, dfs = fi.node, defs_of(fi)

    def unwrap(e):
        while isinstance(e, ast.Call) and isinstance(e.func, ast.Name) and e.func.id in ("list", "tuple") and len(e.args) == 1 and not e.keywords:
            e = e.args[0]
        return e

    def is_unique(e):
        return norm(unwrap(shape.resolve(e, fn))) == "dict.fromkeys(candidates)"

    def empty_set(name):
        vals = [v for (v, k, st) in dfs.defs.get(name, []) if k != "fill"]
        return bool(vals) and name not in dfs.params and all(v is not None and norm(v) == "set()" for v in vals)
    # how the result is produced: ('pop', U name) or ('filter', name of the set of dropped keys)
    results = []
    for r in shape.returns_of(fn):
        v = r.value
        if not (isinstance(v, ast.Call) and isinstance(v.func, ast.Name) and v.func.id == "tuple" and len(v.args) == 1):
            results.append(None)
            continue
        v = v.args[0]
        if isinstance(v, (ast.GeneratorExp, ast.ListComp)) and len(v.generators) == 1 and isinstance(v.generators[0].target, ast.Name):
            g = v.generators[0]
            facts = [f_ for i in g.ifs for f_ in shape.conjuncts(i, "t")]
            b = shape.match(f"{g.target.id} in _SH", facts[0][0]) if len(facts) == 1 and facts[0][1] is False else None
            ok = isinstance(v.elt, ast.Name) and v.elt.id == g.target.id and is_unique(g.iter) and b is not None and empty_set(b["_SH"])
            results.append(("filter", b["_SH"]) if ok else None)
        else:
            results.append(("pop", norm(v)) if isinstance(v, ast.Name) and is_unique(v) else None)
    ck.floor("G-PROV", len(results), 1, "value returned by _dedup_candidates")
    ck.check(all(r is not None for r in results), "G-PROV", "_dedup_candidates|order-preserving", fi.loc(), "order-preserving deduplication", "candidate order is no longer preserved (dict.fromkeys ... tuple)")
    loops_ = [l for l in walk_local(fn) if isinstance(l, ast.For) and isinstance(l.target, ast.Tuple) and len(l.target.elts) == 3 and all(isinstance(x, ast.Name) for x in l.target.elts) and is_unique(l.iter)]
    okd = bool(loops_) and any(r is not None for r in results)
    for l in loops_:
        p_, u_, s_ = [x.id for x in l.target.elts]
        twin = f"('', {p_} + {u_}, '')"
        drops = []
        for c_ in ast.walk(l):
            if isinstance(c_, ast.Call) and isinstance(c_.func, ast.Attribute) and isinstance(c_.func.value, ast.Name) and c_.args and shape.rnorm(c_.args[0], fn) == twin:
                how = {"pop": "pop", "add": "filter"}.get(c_.func.attr)
                if how is not None and all(r is None or r == (how, c_.func.value.id) for r in results):
                    drops.append(c_)
            elif isinstance(c_, ast.Delete) and len(c_.targets) == 1 and isinstance(c_.targets[0], ast.Subscript) and isinstance(c_.targets[0].value, ast.Name) and shape.rnorm(c_.targets[0].slice, fn) == twin:
                tbl_ = c_.targets[0].value.id          # `del U[twin]`, only where `twin in U` is known (no KeyError)
                present = shape.holds_at(c_, fn, lambda a_: isinstance(a_, ast.Compare) and isinstance(a_.ops[0], ast.In) and shape.rnorm(a_.left, fn) == twin and norm(a_.comparators[0]) == tbl_, True)
                if present and all(r is None or r == ("pop", tbl_) for r in results):
                    drops.append(c_)
        okd = okd and len(drops) == 1 and shape.holds_at(drops[0], fn, lambda a_: isinstance(a_, ast.Name) and a_.id == p_, True)
    ck.check(okd, "G-PROV", "_dedup_candidates|prefixed-reading-preferred", fi.loc(), "the unprefixed twin ('', prefix+unit, '') of a prefixed reading is dropped", "_dedup_candidates no longer drops the unprefixed twin of a prefixed reading")


def delta_substitution_rule(ck, ix):
    """_parse_units_as_container, by role: PARSED = anything that resolves to `ParserHelper.from_string(...)` (under any
    name, through aliases and spliced phase helpers); the loop runs over PARSED (or its items); CANON = a name bound to
    `self.get_name(<loop unit>, case_sensitive=case_sensitive)`; EXP = the exponent of the loop unit (`PARSED[unit]` or
    the second loop variable of `.items()`)."""
    fi = ix.func(PR, "GenericPlainRegistry._parse_units_as_container")
    fn, cfg = fi.node, cfg_of(fi)

    def parsed(e):
        return isinstance(e, ast.expr) and shape.match("ParserHelper.from_string(*_R)", shape.resolve(e, fn)) is not None
    loops = []           # (loop, unit variable, exponent variable or None)
    for l in walk_local(fn):
        if isinstance(l, ast.For):
            it = l.iter
            if isinstance(it, ast.Call) and isinstance(it.func, ast.Attribute) and it.func.attr == "items" and not it.args and parsed(it.func.value) \
                    and isinstance(l.target, ast.Tuple) and len(l.target.elts) == 2 and all(isinstance(x, ast.Name) for x in l.target.elts):
                loops.append((l, l.target.elts[0].id, l.target.elts[1].id))
            elif isinstance(l.target, ast.Name) and (parsed(it) or (isinstance(it, ast.Call) and isinstance(it.func, ast.Attribute) and it.func.attr == "keys" and parsed(it.func.value))):
                loops.append((l, l.target.id, None))
    ck.floor("G-PROV", len(loops), 1, "loop over the parsed unit expression in _parse_units_as_container")
    units = {u for (l, u, x) in loops}

    def exponent(e):
        """the exponent of the current unit: the second loop variable, or PARSED[<unit variable>] (through a temporary)"""
        if isinstance(e, ast.Name) and any(x == e.id for (l, u, x) in loops):
            return True
        v = shape.unalias(e, fn) if isinstance(e, ast.Name) else e
        return isinstance(v, ast.Subscript) and parsed(v.value) and norm(v.slice) in units
    named = [a_ for a_ in walk_local(fn) if isinstance(a_, ast.Assign) and len(a_.targets) == 1 and isinstance(a_.targets[0], ast.Name) and isinstance(a_.value, ast.Call) and call_name(a_.value) == "get_name"]
    ck.floor("G-PROV", len(named), 1, "canonical name taken from get_name in _parse_units_as_container")
    canon = {a_.targets[0].id for a_ in named}          # the canonical name of the current unit, whatever the local is called
    subst = nodes_with(cfg, lambda x: isinstance(x, ast.Assign) and norm(x.targets[0]) in canon and any(norm(x.value) in (f"'delta_' + {c}", f"f'delta_{{{c}}}'") for c in canon))
    ck.check(len(subst) == 1, "G-DOM", "_parse_units_as_container|delta-substitution-present", fi.loc(), "delta substitution present", "the delta_ substitution for offset units in compound expressions is gone")

    def _is_compound_or_exponent(a_):
        """`<more than one unit> or <exponent != 1>` (the second operand may repeat `not many and`)"""
        if not (isinstance(a_, ast.BoolOp) and isinstance(a_.op, ast.Or) and len(a_.values) == 2):
            return False
        first = shape.match("len(_X) > 1", shape.unalias(a_.values[0], fn))
        second = a_.values[1]
        if isinstance(second, ast.BoolOp) and isinstance(second.op, ast.And) and len(second.values) == 2 and isinstance(second.values[0], ast.UnaryOp) \
                and norm(shape.unalias(second.values[0].operand, fn)) == norm(shape.unalias(a_.values[0], fn)):
            second = second.values[1]
        many = first is not None and parsed(shape.unalias(a_.values[0], fn).left.args[0])
        return many and isinstance(second, ast.Compare) and len(second.ops) == 1 and isinstance(second.ops[0], ast.NotEq) and norm(second.comparators[0]) == "1" and exponent(second.left)
    is_as_delta = lambda a_: isinstance(a_, ast.Name) and a_.id == "as_delta"

    def is_mult(a_):
        a_ = shape.unalias(a_, fn)                  # a flag holding the test is looked through
        if not (isinstance(a_, ast.Attribute) and a_.attr == "is_multiplicative"):
            return False
        b = shape.match("self._units[_C]", shape.unalias(a_.value, fn))          # a local holding the definition is looked through
        return b is not None and b["_C"] in canon
    for s in subst:
        st = cfg.nodes[s].ast
        ck.check(shape.holds_at(st, fn, is_as_delta, True) and shape.holds_at(st, fn, _is_compound_or_exponent, True), "G-DOM", "_parse_units_as_container|delta-only-if-compound-or-exponent", fi.loc(st),
                 "substitution only with as_delta and for a compound expression or an exponent other than 1", "offset units are replaced by delta units without the `as_delta and (more than one unit or exponent != 1)` guard")
        ck.check(shape.holds_at(st, fn, is_mult, False), "G-DOM", "_parse_units_as_container|delta-only-if-non-multiplicative", fi.loc(st), "substitution only for non-multiplicative units",
                 "offset units are replaced by delta units without the non-multiplicative guard (multiplicative units would get a delta_ twin that does not exist)")
    adds = [c_ for c_ in walk_local(fn) if isinstance(c_, ast.Call) and call_name(c_) == "add" and len(c_.args) == 2 and norm(c_.args[0]) in canon]
    ck.check(len(adds) == 1 and exponent(adds[0].args[1]), "G-PROV", "_parse_units_as_container|many-means-more-than-one-unit", fi.loc(), "every unit is accumulated with its own exponent", "units are no longer accumulated with their own exponent")
    okn = any(shape.match("self.get_name(_U, case_sensitive=case_sensitive)", a_.value) is not None and norm(a_.value.args[0]) in units for a_ in named)
    ck.check(okn and len(adds) == 1, "G-PROV", "_parse_units_as_container|canonical-names-with-exponents", fi.loc(),
             "every unit is added under its canonical name with its exponent", "units are no longer accumulated under get_name(name, case_sensitive=...) with their exponent")

    def scale_is_one(a_):
        if not (isinstance(a_, ast.Compare) and len(a_.ops) == 1 and isinstance(a_.ops[0], ast.Eq)):
            return False
        sides = [shape.unalias(a_.left, fn), shape.unalias(a_.comparators[0], fn)]
        return any(isinstance(x, ast.Attribute) and x.attr == "scale" and parsed(x.value) for x in sides) and any(norm(x) == "1" for x in sides)
    sc = shape.guard_edges(cfg, scale_is_one, want=False)
    ck.check(bool(sc) and all(edge_leads_only_to_raise(cfg, t, lab) is None for (t, lab) in sc), "G-DOM", "_parse_units_as_container|scaling-factor-rejected", fi.loc(), "a numeric factor in a unit expression raises", "unit expressions with a scaling factor are no longer rejected")


class _Undecided(Exception):
    pass


def outcome_table(fn, atom_of, n_atoms: int) -> dict:
    """Decision table of a small predicate-like function: for every truth assignment of its `n_atoms` atomic conditions
    the outcome of running its body - 'raise:<Exception>', 'return' or 'end'.  `atom_of(expr)` gives (index, polarity)
    for an expression that IS an atomic condition (after the locals that hold intermediate values have been substituted),
    else None.  Flags, early exits, if/elif chains, conditional expressions, and/or/not are interpreted; anything else
    raises _Undecided.  Two spellings of the same decision have the same table."""
    import itertools as _it

    def subst(e, env):
        class S(ast.NodeTransformer):
            def visit_Name(self, n):
                v = env.get(n.id)
                if isinstance(n.ctx, ast.Load) and isinstance(v, ast.AST):
                    return subst(v, env)
                return n
        return S().visit(ast.parse(ast.unparse(e), mode="eval").body)

    def ev(e, env, oracle):
        if isinstance(e, ast.Constant):
            return bool(e.value)
        if isinstance(e, ast.UnaryOp) and isinstance(e.op, ast.Not):
            return not ev(e.operand, env, oracle)
        if isinstance(e, ast.BoolOp):
            want = isinstance(e.op, ast.Or)
            for v in e.values:
                if ev(v, env, oracle) is want:
                    return want
            return not want
        if isinstance(e, ast.IfExp):
            return ev(e.body if ev(e.test, env, oracle) else e.orelse, env, oracle)
        if isinstance(e, ast.Name) and e.id in env:
            return ev(env[e.id], env, oracle)
        a = atom_of(subst(e, env))
        if a is None:
            raise _Undecided(norm(e))
        return oracle[a[0]] is a[1]

    def run_(stmts, env, oracle):
        for st in stmts:
            if isinstance(st, ast.If):
                r = run_(st.body if ev(st.test, env, oracle) else st.orelse, env, oracle)
                if r is not None:
                    return r
            elif isinstance(st, (ast.Assign, ast.AnnAssign)) and isinstance(st.targets[0] if isinstance(st, ast.Assign) else st.target, ast.Name) and st.value is not None:
                name = (st.targets[0] if isinstance(st, ast.Assign) else st.target).id
                env[name] = subst(st.value, env)            # a flag or an intermediate value: evaluated / substituted where it is used
            elif isinstance(st, ast.FunctionDef):
                helpers[st.name] = st            # a nested helper (e.g. one that builds the exception) is looked into where it is called
            elif isinstance(st, ast.Raise):
                exc = st.exc
                if isinstance(exc, ast.Call) and isinstance(exc.func, ast.Name) and exc.func.id in helpers and shape.single_return(helpers[exc.func.id]) is not None:
                    exc = shape.single_return(helpers[exc.func.id])
                exc = exc.func if isinstance(exc, ast.Call) else exc
                return "raise:" + (norm(exc) if exc is not None else "")
            elif isinstance(st, ast.Return):
                return "return"
            elif isinstance(st, (ast.Pass, ast.Expr)) and not (isinstance(st, ast.Expr) and not isinstance(st.value, ast.Constant)):
                continue
            else:
                raise _Undecided(norm(st)[:60])
        return None
    table, helpers = {}, {}
    for oracle in _it.product((False, True), repeat=n_atoms):
        table[oracle] = run_(fn.body, {}, oracle) or "end"
    return table


def private_name_rule(ck, ix):
    """getattr_maybe_raise raises AttributeError exactly for: names ending in '__', names that are all underscores, and
    names starting with '_' whose first other character is not a digit.  Decided as a decision table over the four
    atomic conditions, so an `or` chain, a flag set by if/elif, guard clauses ... are the same rule."""
    f = ix.func("pint.util", "getattr_maybe_raise")
    ck.analysed(f)
    ATOMS = [("item.endswith('__')", 0, True),
             ("len(item.lstrip('_')) == 0", 1, True), ("item.lstrip('_') == ''", 1, True), ("item.lstrip('_')", 1, False), ("len(item.lstrip('_'))", 1, False),
             ("len(item.lstrip('_')) > 0", 1, False), ("len(item.lstrip('_')) >= 1", 1, False), ("len(item.lstrip('_')) < 1", 1, True),
             ("item.startswith('_')", 2, True), ("item[0] == '_'", 2, True), ("item[:1] == '_'", 2, True),
             ("item.lstrip('_')[0].isdigit()", 3, True)]

    def atom_of(e):
        pol = True
        if isinstance(e, ast.Compare) and len(e.ops) == 1 and isinstance(e.ops[0], ast.NotEq):
            e, pol = ast.Compare(left=e.left, ops=[ast.Eq()], comparators=e.comparators), False
        for pat, i, p_ in ATOMS:
            if norm(e) == norm(ast.parse(pat, mode="eval").body):
                return i, (p_ is pol)
        return None
    try:
        table = outcome_table(f.node, atom_of, 4)
    except _Undecided as ex:
        ck.floor("G-PROV", 0, 1, f"decidable private-name test in getattr_maybe_raise (cannot interpret `{ex}`)")
        return
    wrong = [o for o, out in table.items() if (out == "raise:AttributeError") is not (o[0] or o[1] or (o[2] and not o[3])) or (out not in ("raise:AttributeError", "end", "return"))]
    names = ("ends with '__'", "all underscores", "starts with '_'", "first other character is a digit")
    ck.check(not wrong, "G-PROV", "getattr_maybe_raise|private-name-rule", f.loc(),
             "dunder, all-underscore and _name (unless _<digit>) raise AttributeError",
             "the private-name rule of getattr_maybe_raise changed" + ("" if not wrong else ": for a name that " + ", ".join(("" if v else "not: ") + n for v, n in zip(wrong[0], names)) + f" the outcome is {table[wrong[0]]}"))


def run(ck, ix, tier):
    # ------------------------------------------------------------ get_name
    from ..lib import inlined as _inl
    fi = _inl(ix, ix.func(PR, "GenericPlainRegistry.get_name"), skip=("_helper_adder", "_helper_single_adder"))     # an extracted `_define_prefixed_unit` is looked through
    ck.analysed(fi)
    cfg, defs = cfg_of(fi), defs_of(fi)
    exact = [n.id for n in cfg.nodes if n.kind == "stmt" and isinstance(n.ast, ast.Return) and norm(n.ast.value).startswith("self._units[") and norm(n.ast.value).endswith("].name")]
    search = nodes_calling(cfg, "parse_unit_name")
    ck.check(len(exact) == 1, "G-DOM", "get_name|exact-lookup-present", fi.loc(), "exact table lookup present", "get_name no longer tries the exact table lookup")
    ck.floor("G-DOM", len(search), 1, "prefix/suffix search in get_name")
    from .. import shape
    key_of = lambda r: norm(cfg.nodes[r].ast.value)[len("self._units["):-len("].name")]
    keys = {key_of(e) for e in exact}
    absent = shape.guard_edges(cfg, lambda a_: isinstance(a_, ast.Compare) and isinstance(a_.ops[0], ast.In) and norm(a_.comparators[0]) == "self._units" and norm(a_.left) in keys, want=False)
    for s in live(cfg, search):
        # idiom A: try: return self._units[x].name / except KeyError -> search;  idiom B: if x in self._units: return ...; search
        pa = undominated(cfg, [s], exact)
        via_exc = all(any(lab == "exc" for (v, lab) in cfg.succ[e]) and s in cfg.reach([v for (v, lab) in cfg.succ[e] if lab == "exc"]) for e in exact)
        okA = pa is None and via_exc
        pb = shape.reachable_without(cfg, [s], absent) if absent else [cfg.entry]
        okB = bool(absent) and pb is None
        ck.check(okA or okB, "G-DOM", "get_name|exact-lookup-before-prefix-search", fi.loc(cfg.nodes[s].ast), "the prefix/suffix search runs only after the exact lookup failed",
                 "parse_unit_name is reachable without first trying the exact name/alias/symbol lookup: a defined spelling can be re-read as prefix+unit", witness(cfg, pa if not okB else pb))
        ck.check(okA or okB, "G-DOM", "get_name|search-only-after-keyerror", fi.loc(cfg.nodes[s].ast), "reached only through the failed exact lookup (KeyError or failed membership test)", "the search is not reached through the failed exact lookup")
        for e in exact:
            key = cfg.nodes[e].ast.value.value.slice
            c = [c for c in ast.walk(cfg.nodes[s].ast) if isinstance(c, ast.Call) and call_name(c) == "parse_unit_name"][0]
            ck.check(norm(c.args[0]) == norm(key), "G-PROV", "get_name|same-string-looked-up-and-searched", fi.loc(c), "the same string is looked up and decomposed", f"exact lookup uses `{norm(key)}` but the search decomposes `{norm(c.args[0])}`")
            ck.check(len(c.args) > 1 and norm(c.args[1]) == "case_sensitive", "G-PROV", "get_name|case-sensitivity-forwarded", fi.loc(c), "case sensitivity forwarded", "get_name does not forward case_sensitive to parse_unit_name")
    is_dimensionless = lambda a_: isinstance(a_, ast.Compare) and isinstance(a_.ops[0], ast.Eq) and sorted([norm(a_.left), norm(a_.comparators[0])]) == sorted(["name_or_alias", "'dimensionless'"])
    dl = sorted({t for (t, lab) in shape.guard_edges(cfg, is_dimensionless, want=True)})
    ck.check(bool(dl) and undominated(cfg, exact + search, dl) is None, "G-DOM", "get_name|dimensionless-first", fi.loc(), "'dimensionless' is answered before any lookup", "'dimensionless' is no longer handled before the lookups")
    # roles: the readings = value of self.parse_unit_name(name_or_alias, ...); prefix / unit = first reading's 1st / 2nd field
    rd = FirstReading(fi.node)
    none = sorted(set(empty_edges(cfg, rd.is_cand)))
    for (t, lab) in none:
        p = edge_leads_only_to_raise(cfg, t, lab)
        ck.check(p is None, "G-DOM", "get_name|no-reading-raises-UndefinedUnitError", fi.loc(cfg.nodes[t].ast), "no reading raises", "a string with no reading does not raise", witness(cfg, p))
    ck.check(bool(none), "G-DOM", "get_name|no-reading-tested", fi.loc(), "empty candidate list tested", "the empty-candidates test is gone")
    # prefix on non-multiplicative units refused before registration
    stores = []
    for (p, k, nd) in writes_in(fi.node):
        if p == "self._units" and k == "item-store":
            stores += cfg.nodes_for_ast(nd)

    def unit_is_multiplicative(a_):
        """`self._units[<unit of the first reading>].is_multiplicative` (a local holding the definition is resolved)"""
        b = shape.match("self._units[_U].is_multiplicative", shape.resolve(a_, fi.node)) if isinstance(a_, (ast.Attribute, ast.Name)) else None      # a flag holding the test is looked through
        return b is not None and b["_U"] in rd.units
    nonmult = shape.guard_edges(cfg, unit_is_multiplicative, want=False)       # edges on which the unit is known to be an offset unit
    gate = sorted({g for (g, lab) in nonmult})
    for s in live(cfg, stores):
        p = undominated(cfg, [s], gate)
        ck.check(bool(gate) and p is None, "G-DOM", "get_name|offset-units-not-prefixed", fi.loc(cfg.nodes[s].ast), "prefixed units are registered only after the multiplicativity test",
                 "a prefixed unit can be registered without testing that the unit is multiplicative (kilo-degC would be accepted)", witness(cfg, p))
    for (g, lab) in sorted(set(nonmult)):
        p = edge_leads_only_to_raise(cfg, g, lab, also_forbid=stores)
        ck.check(p is None, "G-DOM", "get_name|prefix-on-offset-unit-raises", fi.loc(cfg.nodes[g].ast), "prefixing an offset unit raises OffsetUnitCalculusError", "prefixing a non-multiplicative unit does not raise", witness(cfg, p))
    cas = [(p, k, nd) for (p, k, nd) in writes_in(fi.node) if "_units_casei" in p]
    ck.check(not cas, "G-OWN", "get_name|prefixed-units-not-in-casei-index", fi.loc(cas[0][2]) if cas else fi.loc(),
             "on-the-fly prefixed units stay out of the case-insensitive index",
             "get_name enters on-the-fly prefixed units into _units_casei: prefixes then apply to prefixed units and case-insensitive lookups depend on history")
    nst = [(p, k, nd) for (p, k, nd) in writes_in(fi.node) if p.startswith("self._units") and "casei" not in p]
    ck.check(len(nst) == 1, "G-OWN", "get_name|exactly-one-registration", fi.loc(nst[1][2]) if len(nst) > 1 else fi.loc(), "one registration, under the long name",
             f"get_name writes the unit table {len(nst)} times: extra spellings can shadow defined units")
    n_def = 0
    for (p, k, nd) in nst:
        if not (isinstance(nd, ast.Assign) and isinstance(nd.targets[0], ast.Subscript)):
            ck.fail("G-PROV", "get_name|registered-under-prefix+unit", fi.loc(nd), f"the unit table is written by `{norm(nd)[:80]}`, not by an item assignment under prefix + unit")
            continue
        b = shape.match("_P + _U", shape.resolve(nd.targets[0].slice, fi.node))
        ck.check(b is not None and b["_P"] in rd.prefixes and b["_U"] in rd.units, "G-PROV", "get_name|registered-under-prefix+unit", fi.loc(nd), "stored under prefix + unit_name",
                 f"stored under `{rd.show(rd.r(nd.targets[0].slice))}`")
        v = shape.resolve(nd.value, fi.node)
        if isinstance(v, ast.Call) and call_name(v) == "UnitDefinition":
            n_def += 1
            b = shape.match("UnitDefinition(_P + _U, _SYM, _ALIASES, self._prefixes[_P].converter, self.UnitsContainer({_U: 1}))", v)
            ck.check(b is not None and b["_P"] in rd.prefixes and b["_U"] in rd.units, "G-PROV", "get_name|prefix-applied-exactly-once", fi.loc(nd.value),
                     "name, converter and reference: prefix applied once to the unit", f"prefixed definition is {rd.show(norm(v))}")
    if nst and not n_def:
        ck.fail("G-PROV", "get_name|prefix-applied-exactly-once", fi.loc(nst[0][2]), "the prefixed unit registered by get_name is not built by UnitDefinition(prefix + unit, ..., prefix converter, {unit: 1})")

    # ------------------------------------------------------------ get_symbol
    fi = ix.func(PR, "GenericPlainRegistry.get_symbol")
    ck.analysed(fi)
    rd = FirstReading(fi.node)
    rets = shape.returns_of(fi.node)
    ck.floor("G-PROV", len(rets), 1, "value returned by get_symbol")
    bs = [shape.match("self._prefixes[_P].symbol + self._units[_U].symbol", shape.resolve(r.value, fi.node)) for r in rets]
    ck.check(len(rets) == 1 and bs[0] is not None, "G-PROV", "get_symbol|prefix-symbol+unit-symbol", fi.loc(), "symbol = prefix symbol + unit symbol", f"get_symbol returns `{rd.show(rd.r(rets[0].value))}`")
    ck.check(all(b is None or (b["_P"] in rd.prefixes and b["_U"] in rd.units) for b in bs) and any(b is not None for b in bs), "G-PROV", "get_symbol|same-first-candidate", fi.loc(), "prefix and unit from the same first candidate",
             "prefix and unit are not taken from the same first candidate: " + "; ".join(f"prefix `{rd.show(b['_P'])}`, unit `{rd.show(b['_U'])}`" for b in bs if b is not None))

    # ------------------------------------------------------------ parse_unit_name / _yield_unit_triplets / _dedup_candidates
    parse_unit_name_rule(ck, ix)
    yield_triplets_rule(ck, ix)
    from .. import shape as _sht
    dedup_rule(ck, ix)

    casei_writers_rule(ck, ix)
    fi = ix.func(PR, "GenericPlainRegistry._helper_adder")
    ck.analysed(fi)
    src = norm(fi.node)
    ck.check("definition.name" in src and "definition.symbol" in src and "getattr(definition, 'aliases', ())" in src, "G-EXH", "_helper_adder|name-symbol-aliases", fi.loc(), "stored under name, symbol and every alias", "_helper_adder no longer stores name, symbol and aliases")
    fi = ix.func(PR, "GenericPlainRegistry._add_alias")
    ck.analysed(fi)
    _fa, _every, _look = memo.alias_adder_facts(ix)
    ck.check(_every and _look, "G-EXH", "_add_alias|every-alias-maps-to-the-unit", fi.loc(), "@alias adds every alias for the resolved unit", "_add_alias no longer adds every alias for the resolved unit definition")

    # ------------------------------------------------------------ parse cache + delta substitution
    memo.rule_parse_unit_memo(ck, ix)
    delta_substitution_rule(ck, ix)
    fi = ix.func(NR, "GenericNonMultiplicativeRegistry.parse_units_as_container")
    ck.analysed(fi)
    ck.check(defaults_from(fi.node, "as_delta", "self.default_as_delta") is not None, "G-PROV", "parse_units_as_container|default_as_delta", fi.loc(), "as_delta defaults to the registry's default_as_delta", "as_delta no longer defaults to default_as_delta")

    # ------------------------------------------------------------ attribute access and membership
    hooks = [(PR, "GenericPlainRegistry.__getattr__"), ("pint.facets.system.objects", "System.__getattr__"), ("pint.facets.system.objects", "Lister.__getattr__"), ("pint.facets.group.objects", "Group.__getattr__")]
    for mod, q in hooks:
        f = ix.func(mod, q)
        ck.analysed(f)
        # the private-name check comes before everything else: every other statement of the hook is reached only through it
        hcfg = cfg_of(f)
        gate = nodes_with(hcfg, lambda x: isinstance(x, ast.Call) and shape.match("getattr_maybe_raise(self, item)", x) is not None)
        rest = [n.id for n in hcfg.nodes if n.kind in ("stmt", "test", "for", "with") and n.id not in gate and not (isinstance(n.ast, ast.Expr) and isinstance(n.ast.value, ast.Constant))]
        ok = bool(gate) and undominated(hcfg, rest, gate) is None
        ck.check(ok, "G-DOM", f"{q}|private-names-rejected-first", f.loc(), "getattr_maybe_raise(self, item) is the first statement", f"{q} no longer starts with getattr_maybe_raise(self, item)")
    f = ix.func(PR, "GenericPlainRegistry.__getattr__")
    rets = shape.returns_of(f.node)
    ck.check(bool(rets) and all(shape.rnorm(r.value, f.node) == "self.Unit(item)" for r in rets), "G-PROV", "registry.__getattr__|unit-of-name", f.loc(), "attribute access builds Unit(name)", "registry attribute access no longer returns self.Unit(item)")
    f = ix.func(PR, "GenericPlainRegistry.__contains__")
    ck.analysed(f)
    hs = [h for t in walk_local(f.node) if isinstance(t, ast.Try) for h in t.handlers]
    ok = len(hs) == 1 and hs[0].type is not None and norm(hs[0].type) == "UndefinedUnitError" and any(isinstance(r, ast.Return) and norm(r.value) == "False" for r in ast.walk(hs[0]))
    ck.check(ok, "G-ERR", "registry.__contains__|only-UndefinedUnitError-means-absent", f.loc(), "exactly UndefinedUnitError maps to False", "__contains__ no longer maps exactly UndefinedUnitError to False")
    private_name_rule(ck, ix)
    ck.rule("G-DET", "an iteration whose order reaches the result runs over an ordered collection")
    ordered_candidates_rule(ck, ix)
    return EXPLANATION
