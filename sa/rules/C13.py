"""C13 — answers do not depend on query history: caches are transparent (G-MEMO family)."""
from __future__ import annotations

import ast

from .. import memo
from ..flow import call_name, norm
from ..index import walk_local
from ..lib import find_memo_sites

EXPLANATION = (
    "Static analysis of /repo/pint sources (no execution): the G-MEMO rule family over every memo site of the "
    "registry and its objects. KEY: lookup key == store key == compute argument (root_units, conversion_factor incl. "
    "orientation src/dst, base units, dimensionality, overlay keyed by ContextChain.hashable() which must cover every "
    "field). GUARD: condition under which a slot is written implies the condition under which it is read (parse_unit "
    "as_delta, _base_units_cache check_nonmult/default system). HIT: a loaded/stored value is what is installed/returned "
    "(disk cache). INV: every post-construction writer of a dependency resets or swaps the memo on all normal paths "
    "(default_system setter, context switch swapping self._cache, identity-validated memos _base_units_cache and "
    "Quantity._dimensionality, Group/System members incl. propagation, ContextChain._graph, adders vs parse cache, "
    "lru_caches vs the process-wide format table), FILL (dimensional_equivalents) and who-may-write for process-wide "
    "tables. Decides these structural clauses for all paths; does not compare any answer with a fresh registry.")
EXPLANATION += ' Also decided (rules added after the second round of seeded changes): lazily registered prefixed units stay out of the defined-spelling index and prefixes apply to defined spellings only; every storing path of the adder indexes the spelling.'
EXPLANATION += ' Also decided (round 8): the conversion-factor memo is filled only under the key that was looked up.'


def run(ck, ix, tier):
    ck.rule("G-MEMO-KEY", "lookup key, store key and compute argument agree")
    ck.rule("G-MEMO-GUARD", "write guard implies read guard")
    ck.rule("G-MEMO-HIT", "a stored/loaded value is what is returned/installed")
    ck.rule("G-MEMO-INV", "every writer of a dependency resets/swaps/validates the memo on all normal paths")
    ck.rule("G-MEMO-FILL", "a table filled at build time is refreshed by later writers of its dependencies")
    ck.rule("G-OWN", "process-wide / foreign state is written only by confirmed writers")
    memo.rule_root_units_memo(ck, ix)
    memo.rule_conversion_factor_memo(ck, ix)
    memo.rule_parse_unit_memo(ck, ix)
    memo.rule_dimensional_equivalents(ck, ix)
    memo.rule_disk_cache_hit(ck, ix)
    memo.rule_context_overlay(ck, ix)
    memo.rule_overlay_not_reused(ck, ix)
    memo.rule_base_units_cache(ck, ix)
    memo.rule_group_members(ck, ix)
    memo.rule_system_members(ck, ix)
    memo.rule_context_chain_graph(ck, ix)
    memo.rule_quantity_dimensionality_memo(ck, ix)
    memo.rule_unit_dimensionality_memo(ck, ix)
    memo.rule_lazy_prefixed_units(ck, ix)
    memo.rule_lru_purity(ck, ix)
    memo.rule_shared_mutable_state(ck, ix)
    inventory(ck, ix)
    from .C08 import casei_writers_rule
    casei_writers_rule(ck, ix)  # the 'defined spelling' index does not depend on lookup history
    return EXPLANATION


KNOWN_TABLES = (
    "self._cache.dimensionality", "self._cache.root_units", "self._cache.conversion_factor", "self._cache.parse_unit",
    "self._base_units_cache", "self._caches", "self._context_units", "cls._param_names_to_subclass", "self._units",
    "self._adders", "self._dimensions", "self._systems", "self._groups", "target_dict", "self._contexts",
)


def inventory(ck, ix):
    """Discover dict-memo idioms in the whole package; anything outside the triaged inventory is reported in evidence."""
    found = {}
    for f in ix.all_functions():
        if not isinstance(f.node, (ast.FunctionDef, ast.AsyncFunctionDef)):
            continue
        for s in find_memo_sites(f):
            if s.stores:
                found.setdefault(s.table, []).append(f.qualname)
    attr_memos = {}
    for f in ix.all_functions():
        if not isinstance(f.node, (ast.FunctionDef, ast.AsyncFunctionDef)):
            continue
        for n in walk_local(f.node):
            if isinstance(n, ast.If):
                t = norm(n.test)
                if t.startswith("self.") and t.endswith(" is None") and any(
                        isinstance(a, ast.Assign) and any(norm(x) == t[:-8] for x in a.targets) for a in ast.walk(n)):
                    attr_memos.setdefault(t[:-8], []).append(f.qualname)
    ck.extra["memo_inventory"] = {"dict_memos": found, "attribute_memos": attr_memos}
    untriaged = [t for t in found if t not in KNOWN_TABLES]
    for t in untriaged:
        ck.note(f"untriaged dict memo `{t}` in {found[t]} (not covered by an INV rule)")
    ck.floor("G-MEMO-INV", len(found), 3, "dict memo sites discovered by idiom")
    known_attr = {"self._computed_members", "self._graph", "self._hash", "self._dimensionality"}
    for t in attr_memos:
        if t not in known_attr:
            ck.note(f"untriaged attribute memo `{t}` in {attr_memos[t]}")
