"""C12 — context activation is scoped, stack-like, atomic and leaves no residue."""
from __future__ import annotations

import ast

from .. import memo
from .. import shape as _sh
from ..flow import call_name, dotted, norm, writes_in
from ..index import AnalysisError, Resolver, walk_local
from ..lib import cfg_of, defs_of, live, node_has, nodes_calling, nodes_with, witness

CR = "pint.facets.context.registry"
CO = "pint.facets.context.objects"

EXPLANATION = (
    "Static analysis (no execution) of the context machinery: G-PAIR exception safety on the CFG of enable_contexts "
    "(after insert_contexts every exceptional exit passes remove_contexts of the same count and a cache/overlay switch, "
    "and re-raises), of context() (yield inside try/finally whose finally disables len(names) contexts; enable outside "
    "the try) and of with_context; disable_contexts = remove then switch; _switch_context_cache_and_units drops the "
    "overlay on every path, installs the cache of the active combination, restores _on_redefinition in finally, keys "
    "overlays by ContextChain.hashable() covering every Context field; the base-units memo is validated against the "
    "switched cache; Context.from_context writes only the fresh copy. Decides these clauses for all paths, not the "
    "equality of observable answers before/after a sequence of operations.")
EXPLANATION += ' Also decided (rules added after the second round of seeded changes): Context.from_context carries every field of the original.'
EXPLANATION += " Also decided (round 5): every inserted context contributes exactly one rule map (contexts and maps stay in step with remove_contexts); with_context's arguments are decided by scope."


def run(ck, ix, tier):
    rs = Resolver(ix)
    ck.rule("G-PAIR", "after an acquire, every normal and exceptional exit passes the matching release")
    ck.rule("G-OWN", "only fresh objects are written")
    # ------------------------------------------------------------ (a) enable_contexts
    fi = ix.func(CR, "GenericContextRegistry.enable_contexts")
    ck.analysed(fi)
    cfg = cfg_of(fi)
    ins = nodes_with(cfg, lambda x: isinstance(x, ast.Call) and call_name(x) == "insert_contexts")
    if len(ins) != 1:
        raise AnalysisError(f"enable_contexts: expected one insert_contexts call, found {len(ins)}")
    ins = ins[0]
    ins_call = [c for c in ast.walk(cfg.nodes[ins].ast) if isinstance(c, ast.Call) and call_name(c) == "insert_contexts"][0]
    inserted = norm(ins_call.args[0].value) if ins_call.args and isinstance(ins_call.args[0], ast.Starred) else None
    inserted_r = _sh.rnorm(ins_call.args[0].value, fi.node) if inserted is not None else None
    removes = nodes_with(cfg, lambda x: isinstance(x, ast.Call) and call_name(x) == "remove_contexts" and "_active_ctx" in norm(x.func))
    switches = nodes_calling(cfg, "_switch_context_cache_and_units")
    ck.check(bool(switches), "G-PAIR", "enable_contexts|switch-after-insert", fi.loc(),
             "cache/overlay switched after inserting", "enable_contexts never switches the cache and unit overlay")
    after = [v for (v, lab) in cfg.succ[ins] if lab != "exc"]
    # every exceptional exit reachable after the insert passes a remove
    bad = None
    for s in after:
        p = cfg.path(s, [cfg.rexit], avoid=set(removes))
        if p:
            bad = [ins] + p
    ck.check(bad is None, "G-PAIR", "enable_contexts|rollback-on-failure", fi.loc(cfg.nodes[ins].ast),
             "a failure after insert_contexts removes the inserted contexts before propagating",
             "an exception raised after insert_contexts (e.g. by an invalid redefinition in _switch_context_cache_and_units) leaves the contexts active",
             witness(cfg, bad))
    for r in live(cfg, removes):
        c = [c for c in ast.walk(cfg.nodes[r].ast) if isinstance(c, ast.Call) and call_name(c) == "remove_contexts"][0]
        arg = norm(c.args[0]) if c.args else "None"
        same = inserted is not None and (arg == f"len({inserted})" or (bool(c.args) and _sh.rnorm(c.args[0], fi.node) == f"len({inserted_r})"))   # the count may be held in a temporary
        ck.check(same, "G-PAIR", "enable_contexts|rollback-removes-what-was-inserted", fi.loc(c),
                 f"rollback removes len({inserted}) contexts", f"rollback removes `{arg}` contexts but `*{inserted}` were inserted")
        # after the removal the overlay/cache must be restored and the exception re-raised
        nxt = [v for (v, lab) in cfg.succ[r] if lab != "exc"]
        p = None
        for s in nxt:
            if s in switches:
                continue
            p = p or cfg.path(s, [cfg.rexit, cfg.exit], avoid=set(switches))
        ck.check(p is None, "G-PAIR", "enable_contexts|rollback-restores-cache-and-overlay", fi.loc(c),
                 "rollback re-switches cache and overlay", "rollback removes the contexts but does not restore the cache / unit overlay", witness(cfg, p))
        p = None
        for s in nxt:
            p = p or cfg.path(s, [cfg.exit])
        ck.check(p is None, "G-PAIR", "enable_contexts|rollback-reraises", fi.loc(c),
                 "the failure is re-raised after rollback", "a failed activation returns normally (exception swallowed)", witness(cfg, p))
    # may-raise fact used above: the switch can raise (transitively through _redefine)
    from ..flow import MayRaise
    mr = MayRaise(ix, rs)
    sw = ix.func(CR, "GenericContextRegistry._switch_context_cache_and_units")
    raised = mr.func_raises(sw)
    ck.extra["may_raise__switch_context_cache_and_units"] = sorted(raised)
    ck.check(bool(raised), "G-PAIR", "enable_contexts|switch-may-raise(fact)", sw.loc(),
             f"_switch_context_cache_and_units may raise {sorted(raised)} (via _redefine)", "may-raise analysis found no raise (analysis degraded)")

    # ------------------------------------------------------------ (b) context()
    fi = ix.func(CR, "GenericContextRegistry.context")
    ck.analysed(fi)
    cfg = cfg_of(fi)
    en = nodes_calling(cfg, "enable_contexts")
    dis = nodes_calling(cfg, "disable_contexts")
    ys = nodes_with(cfg, lambda x: isinstance(x, ast.Yield))
    if len(en) != 1 or not ys:
        raise AnalysisError("context(): enable_contexts/yield not found")
    en_call = [c for c in ast.walk(cfg.nodes[en[0]].ast) if isinstance(c, ast.Call) and call_name(c) == "enable_contexts"][0]
    star = [norm(a.value) for a in en_call.args if isinstance(a, ast.Starred)]
    for y in ys:
        for goal, nm in ((cfg.exit, "normal"), (cfg.rexit, "exceptional")):
            p = cfg.path(y, [goal], avoid=set(dis))
            ck.check(p is None, "G-PAIR", f"context|{nm}-exit-disables", fi.loc(cfg.nodes[y].ast),
                     f"every {nm} exit of the with-block disables the contexts",
                     f"the with-block can be left ({nm} exit) without disabling the contexts it enabled", witness(cfg, p))
    for d in live(cfg, dis):
        c = [c for c in ast.walk(cfg.nodes[d].ast) if isinstance(c, ast.Call) and call_name(c) == "disable_contexts"][0]
        from .. import shape as _sh12
        arg = norm(_sh12.unalias(c.args[0], fi.node)) if c.args else "None"     # `n = len(names)` may be taken before the with-block is entered
        ck.check(len(star) == 1 and arg == f"len({star[0]})", "G-PAIR", "context|disables-as-many-as-enabled", fi.loc(c),
                 f"disables len({star[0] if star else '?'})", f"`disable_contexts({arg})` does not match `enable_contexts(*{star[0] if star else '?'})`")
    # a failing enable must not run the disable (it already rolled back)
    exc_succ = [v for (v, lab) in cfg.succ[en[0]] if lab == "exc"]
    reach = cfg.reach(exc_succ)
    ck.check(not (set(dis) & reach), "G-PAIR", "context|failed-enable-not-disabled-twice", fi.loc(cfg.nodes[en[0]].ast),
             "enable_contexts is outside the try: a failed activation is not followed by disable_contexts",
             "enable_contexts is protected by the finally that disables: a failed (already rolled back) activation would pop contexts it never pushed")
    ck.check(any("contextmanager" in norm(d) for d in fi.node.decorator_list), "G-PAIR", "context|is-contextmanager", fi.loc(),
             "@contextmanager", "context() is no longer a @contextmanager")

    with_context_rule(ck, ix)

    # ------------------------------------------------------------ (d) disable_contexts
    fi = ix.func(CR, "GenericContextRegistry.disable_contexts")
    ck.analysed(fi)
    cfg = cfg_of(fi)
    rem = nodes_with(cfg, lambda x: isinstance(x, ast.Call) and call_name(x) == "remove_contexts")
    sw = nodes_calling(cfg, "_switch_context_cache_and_units")
    ck.check(bool(rem), "G-PAIR", "disable_contexts|removes", fi.loc(), "removes contexts from the chain", "disable_contexts no longer removes contexts from the active chain")
    for r in rem:
        c = [c for c in ast.walk(cfg.nodes[r].ast) if isinstance(c, ast.Call) and call_name(c) == "remove_contexts"][0]
        ck.check(c.args and norm(c.args[0]) == "n", "G-PAIR", "disable_contexts|removes-n", fi.loc(c), "removes the requested number", f"`{norm(c)}` ignores the requested count n")
        memo.after_nodes_must_pass(ck, fi, cfg, [r], sw, "G-PAIR", "disable_contexts|switch-after-remove",
                                   "cache and overlay are switched after removal", "contexts are removed without switching cache and overlay back")

    # remove_contexts removes exactly the n newest entries (n is the caller's count, None = all)
    fi = ix.func(CO, "ContextChain.remove_contexts")
    ck.analysed(fi)
    rebound = [a for a in walk_local(fi.node) if isinstance(a, (ast.Assign, ast.AugAssign, ast.AnnAssign)) and any(norm(t) == "n" for t in (a.targets if isinstance(a, ast.Assign) else [a.target]))]
    ck.check(not rebound, "G-PROV", "ContextChain.remove_contexts|count-used-as-given", fi.loc(rebound[0]) if rebound else fi.loc(),
             "the count is used as given (n=0 removes nothing, None removes all)",
             f"`{norm(rebound[0]) if rebound else ''}` rewrites the requested count before slicing (a falsy 0 must not become 'all')")

    memo.rule_overlay_not_reused(ck, ix)

    # ------------------------------------------------------------ (c) the switch + overlays, (d) memos depending on them
    memo.rule_context_overlay(ck, ix)
    memo.rule_base_units_cache(ck, ix)
    memo.rule_context_chain_graph(ck, ix)

    # ------------------------------------------------------------ (e) from_context writes only the fresh copy
    fi = ix.func(CO, "Context.from_context")
    ck.analysed(fi)
    # every object written is (part of) the context constructed here: the access path of the written object, with local
    # aliases resolved, starts at a `cls(...)` call
    n = 0
    for (p, kind, node) in writes_in(fi.node):
        n += 1
        recv = memo.written_receivers(node)
        bases = [memo.base_of(_sh.resolve(r, fi.node)) for r in recv]
        fresh = bool(bases) and all(isinstance(b, ast.Call) and isinstance(b.func, ast.Name) and b.func.id == "cls" for b in bases)
        ck.check(fresh, "G-OWN", f"Context.from_context|writes-only-fresh-copy|{p}", fi.loc(node),
                 f"`{p}` belongs to the new context", f"`{norm(node)}` writes `{p}`, which belongs to the context being parameterised (shared object mutated)")
    ck.floor("G-OWN", n, 2, "writes in Context.from_context")
    rets = [r for r in walk_local(fi.node) if isinstance(r, ast.Return)]
    nd = [c_ for c_ in walk_local(fi.node) if isinstance(c_, ast.Call) and call_name(c_) == "dict" and "defaults" in norm(c_)]
    ck.floor("G-PROV", len(nd), 1, "merge of declared defaults and passed values in Context.from_context")
    for a in nd:
        c = a
        ok = len(c.args) == 1 and norm(c.args[0]) == "context.defaults" and any(k.arg is None and norm(k.value) == "defaults" for k in c.keywords)
        ck.check(ok, "G-PROV", "Context.from_context|passed-defaults-override-declared", fi.loc(a),
                 "dict(context.defaults, **defaults): passed values override declared defaults",
                 f"`{norm(c)}` does not let the passed defaults override the context's declared defaults")
    from .C11 import context_copy_rule
    context_copy_rule(ck, ix)
    return EXPLANATION


def with_context_rule(ck, ix):
    """with_context: the decorated function runs inside `with self.context(<decorator's name>, **<decorator's kwargs>)`
    and receives the wrapper's own arguments (shared by C11 and C12)."""
    # with_context
    fi = ix.func(CR, "GenericContextRegistry.with_context")
    ck.analysed(fi)
    # the wrapper, by role: a function nested in with_context that calls the decorated function, i.e. a parameter of
    # the function it is nested in (the decorator)
    def decorated_calls(f):
        outer = getattr(f, "parent", None)
        if outer is None or outer is fi or not isinstance(getattr(outer, "node", None), (ast.FunctionDef, ast.AsyncFunctionDef)):
            return []
        ps = {a.arg for a in outer.node.args.args + outer.node.args.posonlyargs + outer.node.args.kwonlyargs}
        return [c for c in walk_local(f.node) if isinstance(c, ast.Call) and isinstance(c.func, ast.Name) and c.func.id in ps]
    wr = [f for f in fi.module.all_functions if f.qualname.startswith(fi.qualname) and f is not fi and isinstance(f.node, (ast.FunctionDef, ast.AsyncFunctionDef)) and decorated_calls(f)]
    ck.floor("G-PAIR", len(wr), 1, "wrapper in with_context")
    for w in wr:
        withs = [x for x in walk_local(w.node) if isinstance(x, ast.With) and any(isinstance(i.context_expr, ast.Call) and call_name(i.context_expr) == "context" for i in x.items)]
        calls = decorated_calls(w)
        inside = all(any(c is y for x in withs for y in ast.walk(x)) for c in calls)
        ck.check(bool(withs) and bool(calls) and inside, "G-PAIR", "with_context|call-inside-with-context", w.loc(),
                 "the decorated function runs inside `with self.context(...)`", "the decorated function is called outside the `with self.context(...)` block")
        for x in withs:
            c = x.items[0].context_expr
            # by scope: the name and the ** mapping handed to self.context(...) are the parameters of with_context itself,
            # i.e. free in the wrapper and in the decorator (a wrapper parameter of the same name would shadow them)
            dn, dk = fi.node.args.args[1].arg, (fi.node.args.kwarg.arg if fi.node.args.kwarg else None)
            shadow = set()
            f_ = w
            while f_ is not None and f_ is not fi:
                a_ = f_.node.args
                shadow |= {x.arg for x in a_.args + a_.posonlyargs + a_.kwonlyargs} | ({a_.vararg.arg} if a_.vararg else set()) | ({a_.kwarg.arg} if a_.kwarg else set())
                shadow |= {x.id for x in walk_local(f_.node) if isinstance(x, ast.Name) and isinstance(x.ctx, ast.Store)}
                f_ = getattr(f_, "parent", None)
            okd = dk is not None and len(c.args) >= 1 and norm(c.args[0]) == dn and any(k.arg is None and norm(k.value) == dk for k in c.keywords) and dn not in shadow and dk not in shadow
            ck.check(okd, "G-PROV", "with_context|decorator-arguments-forwarded", w.loc(c),
                     "context name and parameters of the decorator are used", f"`{norm(c)}` does not activate the decorator's context name with the decorator's own parameters (a name bound in the wrapper shadows them?)")
        wa = w.node.args
        for c in calls:
            okc = (wa.vararg is None or any(isinstance(a_, ast.Starred) and norm(a_.value) == wa.vararg.arg for a_ in c.args)) and (wa.kwarg is None or any(k.arg is None and norm(k.value) == wa.kwarg.arg for k in c.keywords))
            ck.check(okc, "G-PROV", "with_context|call-arguments-forwarded", w.loc(c), "the decorated function receives the wrapper's own arguments",
                     f"`{norm(c)}` does not forward the wrapper's own positional and keyword arguments")
