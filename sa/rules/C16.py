"""C16 — NumPy functions on quantity arrays respect units."""
from __future__ import annotations

import ast
import json
import os

from .. import tables
from ..flow import call_name, dotted, norm, writes_in
from ..index import AnalysisError, walk_local
from ..lib import cfg_of, defs_of, live, nodes_with, undominated, witness

NF = "pint.facets.numpy.numpy_func"
NQ = "pint.facets.numpy.quantity"
PQ = "pint.facets.plain.quantity"
VERIF = os.path.dirname(os.path.dirname(os.path.dirname(os.path.abspath(__file__))))
REG = {"implement_func", "implement_consistent_units_by_argument", "implement_prod_func", "implement_mul_func", "implement_close",
       "implement_atleast_nd", "implement_single_dimensionless_argument_func"}

EXPLANATION = (
    "Static analysis (no execution, numpy is not imported): G-TABLE — the complete registration table of "
    "numpy_func.py ((kind, NumPy name) -> input policy, output policy, mechanism) is extracted by abstract evaluation of "
    "the module-level literal tables and registration loops and compared with /verif/spec/numpy_semantics.json, an "
    "independent assignment of each NumPy name to a dimensional class with all acceptable policies (names absent from "
    "the spec are listed as unspecified, not as violations); sibling tables agree (operation strings understood by "
    "get_op_output_unit == those dispatched by implement_func ⊇ those used; no name registered twice with different "
    "behaviour; _numpy_method_wrap consults the same tables); G-PROV role agreement in the hand-written "
    "implementations (destructuring of order-preserving helpers keeps the order, NumPy keyword = wrapper parameter of "
    "the same name); G-ERR(d) no pure conversion whose result is discarded; ordering rule: an operand is read "
    "(units, magnitude) only after its offset-unit conversion; G-OWN: no in-place conversion of arguments in "
    "implementations, method wrappers and functional operator forms; unit handling of clip/put/searchsorted/copyto/where. "
    "Does not decide NumPy results, broadcasting or the exponent arithmetic of prod.")
EXPLANATION += " Also decided (rules added after the second round of seeded changes): package-wide who-may-call of the in-place primitives (_convert_magnitude, ito*: only in-place forms, on their own target, or the ireduce_dimensions wrapper on the fresh result); a local alias of an operand's magnitude is not used after the operand name is rebound to a converted quantity."
EXPLANATION += ' Also decided (round 5): who may strip a parameter of its units without converting it - a reasoned table of the (implementation, parameter) pairs of numpy_func.py whose magnitude may be read raw; any other raw read (e.g. `period` of np.interp) is a violation.'
EXPLANATION += ' Also decided (round 8): the *_if_needed helpers of NumpyQuantity leave the quantity unconverted only where it is unitless and radian is asked for; np.isclose/allclose take a bare atol in the units of `a`.'
EXPLANATION += " Also decided (round 10): the arguments np.interp reads on one axis (x, xp, period; fp, left, right) reach the NumPy call only out of ONE consistent-units conversion statement shared with the axis' required members (reaching definitions on the CFG); a member converted on its own is a number in another unit than its siblings."



def _is(pattern: str, e: ast.AST, fn: ast.AST = None) -> bool:
    """`e` matches the pattern (shape.match syntax) as written or, inside `fn`, after resolving local temporaries"""
    from .. import shape
    if shape.match(pattern, e) is not None:
        return True
    return fn is not None and shape.match(pattern, shape.resolve(e, fn)) is not None


def _under(ix, fi, pattern: str, *conditions) -> list:
    """Live nodes of `fi` (private helpers inlined, temporaries resolved: lib.find) that match `pattern` and execute
    only where every (atom pattern, truth) of `conditions` is known to hold - whatever the shape of the tests."""
    from .. import shape
    from ..lib import find
    out = []
    for node, b, fn in find(ix, fi, pattern):
        if all(shape.holds_at(node, fn, lambda a_, pt=pt: _is(pt, a_, fn), truth) for pt, truth in conditions):
            out.append(node)
    return out


def _refuted(node, fn, pattern: str) -> bool:
    """The condition P = `pattern` is known to be false where `node` executes: directly (shape.holds_at), or by unit
    resolution on a compound fact: `A and P` is known false while A is known true (the `else` of `elif not q(x) and P:`
    below an earlier `if q(x): return`), or `A or not P` is known true while A is known false (the same test flipped)."""
    from .. import shape
    is_p = lambda a_: _is(pattern, a_, fn)
    if shape.holds_at(node, fn, is_p, False):
        return True
    facts = shape.facts_at(node, fn)

    def literal(e):
        """(positive atom, sign): e is true exactly when the atom has truth value `sign`; None for a compound"""
        lits = list(shape.atoms(e))
        return (lits[0][0], lits[0][1] == "t") if len(lits) == 1 and not isinstance(lits[0][0], ast.BoolOp) else None

    def known(e, value: bool):
        lit = literal(e)
        return lit is not None and any(norm(a_) == norm(lit[0]) and t_ == (lit[1] == value) for a_, t_ in facts)
    for a_, t_ in facts:
        if not isinstance(a_, ast.BoolOp):
            continue
        conj = isinstance(a_.op, ast.And)
        if t_ is not (not conj):            # `... and ...` known false / `... or ...` known true
            continue
        # the member that is P (in a conjunction) / not P (in a disjunction)
        mine = [v for v in a_.values if literal(v) is not None and is_p(literal(v)[0]) and literal(v)[1] == conj]
        rest = [v for v in a_.values if v not in mine]
        if mine and all(known(v, conj) for v in rest):
            return True
    return False


def _reachable(node, fn) -> bool:
    """the conditions known where `node` executes do not contradict each other (the same atom true and false)"""
    from .. import shape
    seen = {}
    for a_, t_ in shape.facts_at(node, fn):
        if seen.setdefault(norm(a_), t_) != t_:
            return False
    return True


def _decorated_with(node, name: str) -> bool:
    return any((isinstance(d, ast.Call) and isinstance(d.func, ast.Name) and d.func.id == name) or (isinstance(d, ast.Name) and d.id == name) for d in getattr(node, "decorator_list", []))


def registered_by(m, factory: str) -> list:
    """The functions defined inside the module-level factory `factory` that it registers with `@implements(...)`: the
    NumPy implementation the factory installs, whatever it is called."""
    return [f for f in m.all_functions if f.parent is not None and f.parent.name == factory and f.parent.parent is None and isinstance(f.node, ast.FunctionDef) and _decorated_with(f.node, "implements")]


def role_qualname(f) -> str:
    """Qualified name of a function in which a *nested* function is named by its role instead of its (local) name:
    `<outer>.<locals>.<registered>` for the function the outer one registers with @implements(...),
    `<outer>.<locals>.<returned>` for the one it returns, `<outer>.<locals>.<nested>` otherwise."""
    if f.parent is None or not isinstance(f.node, (ast.FunctionDef, ast.AsyncFunctionDef)):
        return f.qualname.split("::")[1]
    if _decorated_with(f.node, "implements"):
        role = "<registered>"
    elif any(isinstance(r, ast.Return) and isinstance(r.value, ast.Name) and r.value.id == f.name for r in walk_local(f.parent.node)):
        role = "<returned>"
    else:
        role = "<nested>"
    return f"{role_qualname(f.parent)}.<locals>.{role}"


def wrapped_operation_param(f):
    """For a wrapper function nested in the decorator `ireduce_dimensions(<op>)`: the name of the decorator's parameter,
    i.e. the wrapped operation.  None for any other function."""
    p = getattr(f, "parent", None)
    if p is None or p.name != "ireduce_dimensions" or not isinstance(p.node, ast.FunctionDef) or not p.node.args.args:
        return None
    return p.node.args.args[0].arg


def is_result_of_wrapped_operation(f, recv) -> bool:
    """`recv` (an expression inside the ireduce_dimensions wrapper `f`) is the value returned by the wrapped operation:
    the call `<op>(...)` itself or a local bound to it (whatever the local is called)."""
    from .. import shape
    op = wrapped_operation_param(f)
    if op is None:
        return False
    v = shape.unalias(recv, f.node)
    return isinstance(v, ast.Call) and isinstance(v.func, ast.Name) and v.func.id == op


def inplace_primitives_rule(ck, ix):
    """Who may call the in-place conversion primitives.  `X._convert_magnitude(...)` rescales an ndarray magnitude in
    place and `X.ito*(...)` rebinds magnitude and units of X: both may only be applied to the target of an operation
    whose contract is in-place (ito*, __i<op>__, _iadd_sub, _imul_div) or to the freshly computed result inside the
    ireduce_dimensions wrapper.  Everything else (comparisons, hashing, formatting, to_*, functional operators, NumPy
    implementations) must leave its operands untouched."""
    n = 0
    funcs = [f for f in ix.all_functions() if isinstance(f.node, (ast.FunctionDef, ast.AsyncFunctionDef)) and f.module.name.startswith("pint.") and ".testsuite" not in f.module.name]
    named_fam = lambda nm: nm.startswith("ito") or nm.startswith("__i") or nm in ("_iadd_sub", "_imul_div")
    # a private helper that is only ever called on `self` from in-place forms is an in-place form itself (extracted helper)
    callers = {}
    for f in funcs:
        for c in walk_local(f.node):
            if isinstance(c, ast.Call) and isinstance(c.func, ast.Attribute) and c.func.attr.startswith("_") and not c.func.attr.startswith("__"):
                callers.setdefault(c.func.attr, []).append((f.name, norm(c.func.value)))
    family = {f.name for f in funcs if named_fam(f.name)}
    grew = True
    while grew:
        grew = False
        for nm, cs in callers.items():
            if nm not in family and nm != "_convert_magnitude" and cs and all(fn in family and recv == "self" for fn, recv in cs):
                family.add(nm)
                grew = True
    for f in funcs:
        for c in walk_local(f.node):
            if not (isinstance(c, ast.Call) and isinstance(c.func, ast.Attribute)):
                continue
            a = c.func.attr
            if not (a == "_convert_magnitude" or a.startswith("ito")):
                continue
            if a.startswith("ito") and not a in ("ito", "ito_root_units", "ito_base_units", "ito_reduced_units", "ito_preferred"):
                continue
            recv = norm(c.func.value)
            fam = f.name in family
            params = [x.arg for x in f.node.args.args]
            target = params[0] if params else "self"
            n += 1
            qn = f.qualname.split("::")[1]
            if fam:
                ck.check(recv == target, "G-OWN", f"in-place-primitive|{qn}|{norm(c)[:40]}", f.loc(c), f"in-place conversion of the target `{target}` of an in-place operation",
                         f"`{norm(c)}` converts `{recv}` in place inside {qn}: only the target `{target}` of an in-place operation may be modified")
            elif is_result_of_wrapped_operation(f, c.func.value):
                ck.ok("G-OWN", f"in-place-primitive|{qn}|{norm(c)[:40]}", f.loc(c), "the freshly computed result is reduced in place")
            else:
                ck.fail("G-OWN", f"in-place-primitive|{qn}|{norm(c)[:40]}", f.loc(c),
                        f"`{norm(c)}` inside {qn}: this operation is not an in-place form, yet it rescales/rebinds `{recv}` in place (array magnitudes are modified while the units stay); use the non-in-place twin")
    ck.floor("G-OWN", n, 6, "call sites of in-place conversion primitives")


def stale_alias_rule(ck, ix, modules=("pint.facets.numpy.numpy_func", "pint.facets.numpy.quantity", "pint.facets.plain.quantity", "pint.facets.plain.qto")):
    """A local alias of an operand's magnitude (`m = a._magnitude`) must not be used after the operand name is rebound
    to a converted quantity (`a = a.to(...)`): the alias still holds the numbers in the old units while the unit that
    is attached to the result comes from the new binding."""
    MAG = ("_magnitude", "magnitude", "m")
    n = 0
    for mod in modules:
        m = ix.module(mod)
        for f in m.all_functions:
            if not isinstance(f.node, (ast.FunctionDef, ast.AsyncFunctionDef)):
                continue
            aliases = []
            for a in walk_local(f.node):
                if isinstance(a, ast.Assign) and len(a.targets) == 1 and isinstance(a.targets[0], ast.Name) and isinstance(a.value, ast.Attribute) \
                        and a.value.attr in MAG and isinstance(a.value.value, ast.Name) and a.value.value.id not in ("self", "cls"):
                    aliases.append((a.targets[0].id, a.value.value.id, a))
            if not aliases:
                continue
            cfg = cfg_of(f)
            for (al, src, adef) in aliases:
                n += 1
                rebinds = [x for x in walk_local(f.node) if isinstance(x, (ast.Assign, ast.AugAssign, ast.AnnAssign)) and x is not adef
                           and any(isinstance(t, ast.Name) and t.id == src for t in (x.targets if isinstance(x, ast.Assign) else [x.target]))]
                redefs = [x for x in walk_local(f.node) if isinstance(x, ast.Assign) and x is not adef and any(isinstance(t, ast.Name) and t.id == al for t in x.targets)]
                uses = [x for x in walk_local(f.node) if isinstance(x, ast.Name) and x.id == al and isinstance(x.ctx, ast.Load)]
                dn = cfg.nodes_for_ast(adef)
                rdn = [i for r in redefs for i in cfg.nodes_for_ast(r)]
                bad = None
                for r in rebinds:
                    rn = cfg.nodes_for_ast(r)
                    if not rn or not dn:
                        continue
                    if not cfg.path(dn[0], rn, avoid=rdn):
                        continue
                    for u in uses:
                        st = u
                        while st is not None and not cfg.nodes_for_ast(st):
                            st = getattr(st, "_parent", None)
                        un = cfg.nodes_for_ast(st) if st is not None else []
                        if un and any(cfg.path(x, un, avoid=rdn) or x in un for x in rn) and not all(x in rn for x in un):
                            bad = (r, u)
                            break
                    if bad:
                        break
                qn = f.qualname.split("::")[1]
                ck.check(bad is None, "G-TAG", f"stale-magnitude-alias|{qn}|{al}={src}.{adef.value.attr}", f.loc(bad[1]) if bad else f.loc(adef), f"`{al}` is not used after `{src}` is rebound",
                         f"`{al} = {src}.{adef.value.attr}` is used at line {bad[1].lineno if bad else 0} after `{norm(bad[0]) if bad else ''}` rebinds `{src}`: the numbers are still in the old units while units are taken from the converted `{src}`")
    ck.note(f"stale-alias scan: {n} magnitude aliases")

def run(ck, ix, tier):
    ck.rule("G-TABLE", "extracted behaviour table agrees with the independent dimensional-semantics spec")
    m = ix.module(NF)
    regs, env = tables.registrations(m.tree, REG)
    ck.floor("G-TABLE", len(regs), 80, "registration calls extracted from numpy_func.py")
    spec = json.load(open(os.path.join(VERIF, "spec", "numpy_semantics.json")))
    classes = spec["classes"]
    table = {}
    dup = []
    for (fn, args, kw, line) in regs:
        if fn == "implement_func":
            kind, name = args[0], args[1]
            pol = [kw.get("input_units", args[2] if len(args) > 2 else None), kw.get("output_unit", args[3] if len(args) > 3 else None)]
            pol = [None if isinstance(x, tables.Unknown) else x for x in pol]
            key = (kind, name)
            if key in table and table[key] != ("generic", pol):
                dup.append((key, table[key], pol))
            table[key] = ("generic", pol)
        elif fn == "implement_consistent_units_by_argument":
            name, ua, wrap = args[0], args[1], args[2]
            ua = [ua] if isinstance(ua, str) else list(ua)
            key = ("function", name)
            if key in table and table[key] != ("by_argument", {"args": ua, "wrap": wrap}):
                dup.append((key, table[key], ua))
            table[key] = ("by_argument", {"args": ua, "wrap": wrap})
        else:
            table[("function", args[0])] = (fn, None)
    ck.check(not dup, "G-TABLE", "registration|no-name-registered-twice-differently", m.relpath, "no (kind, name) is registered with two different behaviours", f"registered twice with different behaviour: {dup[:3]}")
    unspecified = []
    n_cmp = 0
    for (kind, name), (mech, pol) in sorted(table.items()):
        where = f"{m.relpath}"
        if mech == "generic":
            cls = spec[kind].get(name) if kind in spec else None
            if cls is None:
                unspecified.append(f"{kind}:{name}")
                continue
            n_cmp += 1
            ok = pol in classes[cls]
            ck.check(ok, "G-TABLE", f"{kind}:{name}|policy", where, f"{name}: {cls} {pol}",
                     f"np.{name} ({kind}) is wrapped with input policy {pol[0]!r} / output policy {pol[1]!r}; its dimensional class {cls} requires one of {classes[cls]}")
        elif mech == "by_argument":
            want = spec["by_argument"].get(name)
            if want is None:
                unspecified.append(f"function:{name}")
                continue
            n_cmp += 1
            ck.check(pol["args"] == want["args"] and pol["wrap"] == want["wrap"], "G-TABLE", f"function:{name}|unit-arguments", where, f"{name}: unit arguments {pol['args']}, output {'wrapped' if pol['wrap'] else 'bare'}",
                     f"np.{name}: unit-carrying arguments {pol['args']} / output wrapped={pol['wrap']}; expected {want['args']} / wrapped={want['wrap']}")
    ck.extra["numpy_table_entries"] = len(table)
    ck.extra["numpy_names_unspecified"] = unspecified
    ck.floor("G-TABLE", n_cmp, 80, "table entries compared with the spec")
    # names that must be handled with a specific mechanism
    for name, mech in (("prod", "implement_prod_func"), ("nanprod", "implement_prod_func"), ("cross", "implement_mul_func"), ("dot", "implement_mul_func"), ("isclose", "implement_close"), ("allclose", "implement_close"),
                       ("cumprod", "implement_single_dimensionless_argument_func"), ("nancumprod", "implement_single_dimensionless_argument_func")):
        got = table.get(("function", name), (None,))[0]
        ck.check(got == mech, "G-TABLE", f"function:{name}|mechanism", m.relpath, f"{name} handled by {mech}", f"np.{name} is handled by {got}, expected the special mechanism {mech}")

    # sibling tables: op strings
    gop = ix.func(NF, "get_op_output_unit")
    ck.analysed(gop)
    understood = set()
    for t in walk_local(gop.node):
        if isinstance(t, ast.Compare) and norm(t.left) == "unit_op" and isinstance(t.ops[0], ast.Eq) and isinstance(t.comparators[0], ast.Constant):
            understood.add(t.comparators[0].value)
    impl = registered_by(m, "implement_func")        # by role: the function implement_func registers with @implements(...)
    if not impl:
        raise AnalysisError("the implementation registered by implement_func not found")
    dispatched = set()
    for t in walk_local(impl[0].node):
        if isinstance(t, ast.Compare) and norm(t.left) == "output_unit" and isinstance(t.ops[0], ast.In) and isinstance(t.comparators[0], (ast.Tuple, ast.List)):
            dispatched |= {e.value for e in t.comparators[0].elts if isinstance(e, ast.Constant)}
    used = {pol[1] for (mech, pol) in table.values() if mech == "generic" and isinstance(pol[1], str)}
    used_ops = {u for u in used if u in understood or u in dispatched}
    ck.check(dispatched == understood, "G-TABLE", "op-strings|dispatched==understood", gop.loc(), f"{sorted(understood)}",
             f"implement_func dispatches {sorted(dispatched - understood)} that get_op_output_unit does not understand / get_op_output_unit understands {sorted(understood - dispatched)} that are never dispatched (treated as unit strings)")
    odd = sorted(u for u in used if u not in dispatched and u not in ("match_input", "", "radian", "degree", "dimensionless"))
    ck.check(not odd, "G-TABLE", "op-strings|every-used-output-policy-known", m.relpath, "every output policy in the tables is an operation, match_input or a unit string of the spec",
             f"output policies {odd} are neither operations understood by get_op_output_unit nor known unit strings")
    # semantic spot checks of get_op_output_unit, by role: the expression that gives the unit for operation <op> is
    # evaluated where `unit_op == '<op>'` is known to hold (if/elif chain, guard clauses, flipped tests alike)
    from .. import shape as _shg
    gfn = gop.node
    for op, frag in (("square", "first_input_units ** 2"), ("sqrt", "first_input_units ** 0.5"), ("reciprocal", "first_input_units ** (-1)"), ("cbrt", "first_input_units ** (1 / 3)"),
                     ("sum", "(1 * first_input_units + 1 * first_input_units).units"), ("delta", "(1 * first_input_units - 1 * first_input_units).units"),
                     ("variance", "((1 * first_input_units + 1 * first_input_units) ** 2).units")):
        ok = bool(_under(ix, gop, frag, (f"unit_op == '{op}'", True)))
        ck.check(ok, "G-TABLE", f"get_op_output_unit|{op}", gop.loc(), f"{op}: {frag}", f"get_op_output_unit no longer computes `{op}` as {frag}")
    # mul multiplies, div divides all following units

    def unit_accumulations(op):
        """(#statements executed under unit_op == op, operators with which `<arg>.units` is accumulated there or in the
        private module-level helpers called from there, transitively)"""
        is_op = lambda a_: _is(f"unit_op == '{op}'", a_, gfn)
        under = [x for x in walk_local(gfn) if isinstance(x, (ast.stmt, ast.Call)) and _shg.holds_at(x, gfn, is_op, True)]
        out, seen = [], set()

        def scan(nodes, depth):
            for a in nodes:
                if isinstance(a, ast.AugAssign) and isinstance(a.value, ast.Attribute) and a.value.attr == "units":
                    out.append(type(a.op))
                if isinstance(a, ast.Assign) and isinstance(a.value, ast.BinOp) and isinstance(a.value.right, ast.Attribute) and a.value.right.attr == "units" and norm(a.targets[0]) == norm(a.value.left):
                    out.append(type(a.value.op))        # acc = acc OP x.units
                if depth and isinstance(a, ast.Call) and isinstance(a.func, ast.Name) and a.func.id.startswith("_") and a.func.id in m.functions and a.func.id not in seen:
                    seen.add(a.func.id)
                    scan(list(walk_local(m.functions[a.func.id].node)), depth - 1)
        scan(under, 3)
        return len(under), out
    for op, aug in (("mul", ast.Mult), ("div", ast.Div), ("delta,div", ast.Div), ("invdiv", ast.Div)):
        n_under, ops_ = unit_accumulations(op)
        ck.floor("G-TABLE", n_under, 1, f"statements of get_op_output_unit executed for unit_op == '{op}'")
        ok = bool(ops_) and all(o is aug for o in ops_)
        ck.check(ok, "G-TABLE", f"get_op_output_unit|{op}-accumulates", gop.loc(), f"{op} accumulates x.units with {'*' if aug is ast.Mult else '/'}", f"get_op_output_unit: `{op}` no longer accumulates the argument units with {'*=' if aug is ast.Mult else '/='}")

    # _numpy_method_wrap consults the same tables
    mw = ix.func(NQ, "NumpyQuantity._numpy_method_wrap")
    ck.analysed(mw)
    src = norm(mw.node)
    for tname in ("matching_input_copy_units_output_ufuncs", "copy_units_output_ufuncs", "set_units_ufuncs", "matching_input_set_units_output_ufuncs", "op_units_output_ufuncs"):
        ck.check(tname in src and tname in env, "G-TABLE", f"_numpy_method_wrap|consults-{tname}", mw.loc(), "method wrapper and ufunc dispatch share one table", f"_numpy_method_wrap no longer consults {tname}")
    # D23 / seed: conversion of self happens on a copy and the method is looked up on that copy
    defs = defs_of(mw)
    conv = [nm for nm, ds in defs.defs.items() if any(v is not None and isinstance(v, ast.Call) and "to_if_needed" in call_name(v) for v, k, s in ds)]
    itos = [c for c in walk_local(mw.node) if isinstance(c, ast.Call) and (call_name(c).startswith("ito") or "ito_if_needed" in call_name(c))]
    for helper in [f for f in ix.cls(NQ, "NumpyQuantity").methods.values() if "_if_needed" in f.name]:
        ck.analysed(helper)
        itos += [c for c in walk_local(helper.node) if isinstance(c, ast.Call) and call_name(c).startswith("ito")]
    ck.check(not itos, "G-OWN", "_numpy_method_wrap|no-inplace-conversion-of-self", mw.loc(itos[0]) if itos else mw.loc(), "the wrapped quantity is not converted in place",
             f"`{norm(itos[0]) if itos else ''}` converts the quantity in place inside a read-only ndarray method (q.cumprod() would rewrite q)")
    # by role: the conversion is whatever calls a *to_if_needed helper; when the method is converted at all, the
    # callable (2nd parameter) must be re-bound to an attribute of the converted copy's magnitude
    from .. import shape as _sh16
    fpar = mw.node.args.args[1].arg if len(mw.node.args.args) > 1 else "func"
    tocalls = [c for c in walk_local(mw.node) if isinstance(c, ast.Call) and "to_if_needed" in call_name(c)]
    if tocalls:
        rebind = [a for a in walk_local(mw.node) if isinstance(a, ast.Assign) and norm(a.targets[0]) == fpar]
        ok = bool(rebind)
        for a in rebind:
            rv = _sh16.resolve(a.value, mw.node)
            mm = _sh16.match("getattr(_M, _N)", rv)
            ok = ok and mm is not None and mm["_N"] == f"{fpar}.__name__" and "to_if_needed(" in mm["_M"] and "._magnitude" in mm["_M"]
        ck.check(ok, "G-PROV", "_numpy_method_wrap|method-looked-up-on-converted-copy", mw.loc(rebind[0]) if rebind else mw.loc(), "the ndarray method is re-bound to the converted copy's magnitude",
                 "after converting a copy to the required input units the ndarray method is not looked up on that copy's magnitude (the unconverted data would be used)")

    raw_magnitude_rule(ck, ix)
    no_conversion_rule(ck, ix)
    bare_tolerance_rule(ck, ix)
    same_axis_rule(ck, ix)
    # ------------------------------------------------------------ (b) role agreement in hand-written implementations
    n_roles = 0
    for f in m.all_functions:
        if not isinstance(f.node, ast.FunctionDef):
            continue
        for a in walk_local(f.node):
            if isinstance(a, ast.Assign) and isinstance(a.value, ast.Call) and call_name(a.value) in ("unwrap_and_wrap_consistent_units", "convert_to_consistent_units") and isinstance(a.targets[0], ast.Tuple):
                first = a.targets[0].elts[0]
                if isinstance(first, ast.Tuple) and all(isinstance(x, ast.Name) for x in first.elts) and all(isinstance(x, ast.Name) for x in a.value.args):
                    lhs = [x.id for x in first.elts]
                    rhs = [x.id for x in a.value.args]
                    if len(lhs) == len(rhs) and sorted(lhs) == sorted(rhs):
                        n_roles += 1
                        ck.check(lhs == rhs, "G-PROV", f"{f.name}|order-preserving-destructuring|{','.join(rhs)}", f.loc(a), f"({', '.join(lhs)}) = helper({', '.join(rhs)})",
                                 f"`{norm(a)[:100]}`: the helper returns its arguments in order, but they are unpacked as ({', '.join(lhs)}) from ({', '.join(rhs)}) — roles swapped")
        for c in walk_local(f.node):
            if isinstance(c, ast.Call) and dotted(c.func) and dotted(c.func).startswith("np.") and ((f.parent is None and f.name.startswith("_")) or _decorated_with(f.node, "implements")):
                for kwd in c.keywords:
                    if kwd.arg and isinstance(kwd.value, ast.Name) and kwd.value.id in [x.arg for x in f.node.args.args + f.node.args.kwonlyargs]:
                        n_roles += 1
                        ck.check(kwd.arg == kwd.value.id, "G-PROV", f"{f.name}|keyword-role|{kwd.arg}", f.loc(c), f"{kwd.arg}={kwd.value.id}",
                                 f"`{norm(c)[:90]}` passes the wrapper's `{kwd.value.id}` as NumPy's `{kwd.arg}`")
    ck.floor("G-PROV", n_roles, 3, "role-agreement instances in hand-written implementations")

    # ------------------------------------------------------------ (c) discarded conversions; conversion before reading
    PURE = {"to", "m_as", "to_base_units", "to_root_units", "_convert_magnitude_not_inplace", "convert", "to_reduced_units"}
    n_disc = 0
    # package-wide: a conversion whose value is dropped is either a deliberate probe (the statement sits in a try body
    # whose handler catches the conversion error: is_compatible_with) or a forgotten assignment
    for f in ix.all_functions():
        if not isinstance(f.node, ast.FunctionDef) or ".testsuite" in f.module.name:
            continue
        for st in walk_local(f.node):
            if isinstance(st, ast.Expr) and isinstance(st.value, ast.Call) and call_name(st.value) in PURE and isinstance(st.value.func, ast.Attribute):
                par = getattr(st, "_parent", None)
                probe = isinstance(par, ast.Try) and st in par.body and any(h.type is not None and "DimensionalityError" in norm(h.type) for h in par.handlers)
                n_disc += 1
                if probe:
                    ck.ok("G-ERR-d", f"{f.qualname}|conversion-used-as-probe", f.loc(st), "conversion used as a compatibility probe inside try/except DimensionalityError")
                else:
                    ck.fail("G-ERR-d", f"{f.qualname}|discarded-conversion", f.loc(st), f"`{norm(st)[:90]}` computes a conversion and discards the result (the unconverted value is used afterwards)")
    ck.ok("G-ERR-d", "numpy-implementations|scan", NF, f"scanned the whole package for discarded pure conversions ({n_disc} found, probes inside try/except DimensionalityError are accepted)")
    # operands converted by _base_unit_if_needed must be read only afterwards
    for f in m.all_functions:
        if not isinstance(f.node, ast.FunctionDef):
            continue
        convs = [a for a in walk_local(f.node) if isinstance(a, ast.Assign) and isinstance(a.value, ast.Call) and call_name(a.value) == "_base_unit_if_needed" and isinstance(a.targets[0], ast.Name)]
        # converting an operand inline only for its magnitude/units leaves the other half unconverted
        inline = [c for c in walk_local(f.node) if isinstance(c, ast.Call) and call_name(c) == "_base_unit_if_needed" and isinstance(getattr(c, "_parent", None), ast.Attribute)]
        for c in inline:
            ck.fail("G-TAG", f"{f.name}|converted-operand-bound-before-use", f.loc(c), f"`{norm(getattr(c, '_parent', c))[:90]}` converts the operand only for one attribute; units and magnitude are then taken from different (unconverted/converted) objects")
        if not convs:
            continue
        ck.analysed(f)
        cfg = cfg_of(f)
        for a in convs:
            var = a.targets[0].id
            if norm(a.value.args[0]) != var:
                continue
            cnodes = cfg.nodes_for_ast(a)
            reads = nodes_with(cfg, lambda x: isinstance(x, ast.Attribute) and x.attr in ("units", "_units", "_magnitude", "magnitude", "m") and dotted(x.value) == var)
            for r in live(cfg, reads):
                if r in cnodes:
                    continue
                p = undominated(cfg, [r], cnodes)
                # reads that precede any conversion on a path where a conversion follows
                if p is not None and any(cn in cfg.reach([r]) for cn in cnodes):
                    ck.fail("G-TAG", f"{f.name}|{var}-read-before-offset-conversion", f.loc(cfg.nodes[r].ast),
                            f"`{cfg.nodes[r].text()}` reads `{var}` before `{var} = _base_unit_if_needed({var})`: units and magnitude are taken from different (unconverted/converted) objects", witness(cfg, p))
                else:
                    ck.ok("G-TAG", f"{f.name}|{var}-read-after-offset-conversion", f.loc(cfg.nodes[r].ast), f"{var} read after its conversion")

    # ------------------------------------------------------------ (d) no in-place conversion of arguments
    n_own = 0
    for mod in (NF,):
        for f in ix.module(mod).all_functions:
            if not isinstance(f.node, ast.FunctionDef):
                continue
            for c in walk_local(f.node):
                if isinstance(c, ast.Call) and isinstance(c.func, ast.Attribute) and c.func.attr.startswith("ito"):
                    n_own += 1
                    ck.fail("G-OWN", f"{f.name}|in-place-conversion-of-argument|{norm(c)[:40]}", f.loc(c), f"`{norm(c)}` converts an argument of a NumPy function in place")
    from .C03 import ARITH
    for name, inplace in ARITH:
        fi = ix.func(PQ, f"PlainQuantity.{name}")
        if inplace:
            continue
        for c in walk_local(fi.node):
            if isinstance(c, ast.Call) and call_name(c) == "_convert_magnitude" and norm(c.func.value) in ("self", "other"):
                ck.fail("G-OWN", f"PlainQuantity.{name}|functional-form-uses-inplace-conversion|{norm(c)[:50]}", fi.loc(c),
                        f"`{norm(c)}`: _convert_magnitude rescales array magnitudes in place; a non-in-place operator must use _convert_magnitude_not_inplace")
    ck.ok("G-OWN", "numpy|in-place-scan", NF, f"implementations and functional operator forms scanned for in-place conversions ({n_own} in numpy_func)")
    # _convert_magnitude is in-place only for duck arrays; the not_inplace twin never passes inplace
    cm = ix.func(PQ, "PlainQuantity._convert_magnitude_not_inplace")
    ck.check(not any(isinstance(c, ast.Call) and (any(k.arg == "inplace" for k in c.keywords) or len(c.args) > 3) for c in walk_local(cm.node)), "G-OWN", "_convert_magnitude_not_inplace|never-inplace", cm.loc(), "never converts in place", "_convert_magnitude_not_inplace passes an inplace flag")
    cm = ix.func(PQ, "PlainQuantity._convert_magnitude")
    from ..lib import has
    ck.check(has(ix, cm, "_F(*_R, inplace=is_duck_array_type(type(self._magnitude)), **_K)"), "G-OWN", "_convert_magnitude|inplace-only-for-duck-arrays", cm.loc(), "in place only for duck arrays", "_convert_magnitude no longer restricts in-place conversion to duck arrays")

    # ------------------------------------------------------------ unit handling of selected methods / implementations
    for q, var in (("NumpyQuantity.clip", "min"), ("NumpyQuantity.clip", "max"), ("NumpyQuantity.put", "values"), ("NumpyQuantity.searchsorted", "v")):
        f = ix.func(NQ, q)
        ck.analysed(f)
        from .. import shape as _shc
        # the method itself and the private helpers it hands `var` to (an extracted `_clip_bound_magnitude(bound)`)
        scope = [(f.node, var)]
        for c_ in walk_local(f.node):
            if isinstance(c_, ast.Call) and isinstance(c_.func, ast.Attribute) and norm(c_.func.value) == "self" and c_.func.attr.startswith("_") and any(norm(a_) == var for a_ in c_.args):
                g_ = f.cls.methods.get(c_.func.attr) if f.cls is not None else None
                if g_ is not None:
                    ps_ = [a_.arg for a_ in g_.node.args.args][1:]
                    idx_ = [i for i, a_ in enumerate(c_.args) if norm(a_) == var][0]
                    if idx_ < len(ps_):
                        scope.append((g_.node, ps_[idx_]))
        # ... and the functions defined inside the method that it hands `var` to (an `as_bound(limit)` applied to both bounds)
        for g_ in [g_ for g_ in f.module.all_functions if g_.parent is f and isinstance(g_.node, ast.FunctionDef)]:
            for c_ in walk_local(f.node):
                if isinstance(c_, ast.Call) and isinstance(c_.func, ast.Name) and c_.func.id == g_.name and not c_.keywords:
                    ps_ = [a_.arg for a_ in g_.node.args.args]
                    for i_, a_ in enumerate(c_.args):
                        if norm(a_) == var and i_ < len(ps_):
                            scope.append((g_.node, ps_[i_]))
        conv, guard = False, False
        for fn_, v_ in scope:
            is_q = lambda a_, v_=v_: isinstance(a_, ast.Call) and call_name(a_) == "isinstance" and a_.args and norm(a_.args[0]) == v_ and "self.__class__" in norm(a_.args[1])
            dimless = lambda a_: norm(a_) == "self.dimensionless"
            for x in ast.walk(fn_):
                if isinstance(x, ast.Attribute) and x.attr == "magnitude" and norm(x.value) == f"{v_}.to(self)" and _shc.holds_at(x, fn_, is_q, True):
                    conv = True
                if isinstance(x, ast.Raise) and "DimensionalityError('dimensionless', self._units)" in norm(x) and _shc.holds_at(x, fn_, is_q, False) and _shc.holds_at(x, fn_, dimless, False):
                    guard = True
        ck.check(conv, "G-TAG", f"{q}|{var}-converted-to-own-units", f.loc(), f"{var} is converted to the array's units", f"{q}: a Quantity `{var}` is no longer converted to the units of the array (`{var}.to(self).magnitude`) before use")
        ck.check(guard, "G-DOM", f"{q}|bare-{var}-needs-dimensionless", f.loc(), "a bare number is only accepted for dimensionless arrays", f"{q}: a bare `{var}` is accepted for dimensional arrays (no DimensionalityError for a non-Quantity bound of a dimensional array)")
    from .. import shape as _shw
    from ..lib import inlined
    MAGS = ("magnitude", "_magnitude", "m")
    ANCHORS = ("_is_quantity", "_is_sequence_with_quantity_elements", "_get_first_input_units")      # helpers the rules name: not looked through
    f = ix.func(NF, "_copyto")
    # the source (2nd parameter) is re-bound to its magnitude in the destination's units where both are quantities
    dst_, src_ = [a_.arg for a_ in f.node.args.args][:2]
    conv_ = [a_ for a_ in walk_local(f.node) if isinstance(a_, ast.Assign) and norm(a_.targets[0]) == src_ and any(_is(f"{src_}.m_as({dst_}.{u_})", a_.value, f.node) for u_ in ("units", "_units"))
             and _shw.holds_at(a_, f.node, lambda t_: _is(f"_is_quantity({src_})", t_, f.node), True) and _shw.holds_at(a_, f.node, lambda t_: _is(f"_is_quantity({dst_})", t_, f.node), True)]
    ck.check(bool(conv_), "G-TAG", "_copyto|source-converted-to-destination-units", f.loc(), "source converted to destination units", "_copyto no longer converts the source to the destination's units")
    f = ix.func(NF, "_where")
    # what is returned: WRAP(np.where(<bare condition>, *CHOICES)) with (CHOICES, WRAP) = unwrap_and_wrap_consistent_units(*args)
    cond_, rest_ = f.node.args.args[0].arg, (f.node.args.vararg.arg if f.node.args.vararg else "args")
    fw = inlined(ix, f, skip=ANCHORS).node
    rets_ = [_shw.resolve(r.value, fw) for r in _shw.returns_of(fw)]
    both_ = f"unwrap_and_wrap_consistent_units(*{rest_})"
    ok = bool(rets_) and all(any(_shw.match(f"{both_}[1](np.where(getattr({cond_}, '{a_}', {cond_}), *{both_}[0]))", v) is not None for a_ in MAGS) for v in rets_)
    ck.check(ok, "G-TAG", "_where|choices-consistent-condition-bare", f.loc(), "choices made consistent; condition stripped", "_where no longer makes the choices consistent / strips the condition")
    f = ix.func(NF, "unwrap_and_wrap_consistent_units")
    # some exit returns (ARGS converted to U, lambda v: Quantity(v, U)) with U = the units of the first quantity argument
    rest_ = f.node.args.vararg.arg if f.node.args.vararg else "args"
    U_ = f"_get_first_input_units({rest_})"
    # the wrapper may be a lambda or a one-expression function defined inside (whatever it is called); the unit it closes
    # over may be the call itself or a local of the enclosing function bound to it
    nested_ = {g.name: g.node for g in f.module.all_functions if g.parent is f and isinstance(g.node, ast.FunctionDef)}

    def wrapper_(e):
        """(parameter, expression with closure locals of the enclosing function resolved) of a one-argument wrapper"""
        if isinstance(e, ast.Lambda) and len(e.args.args) == 1:
            return e.args.args[0].arg, e.body
        if isinstance(e, ast.Name) and e.id in nested_ and len(nested_[e.id].args.args) == 1:
            body_ = _shw.single_return(nested_[e.id])
            if body_ is not None:
                sub_ = {n_.id: defs_of(f).single(n_.id) for n_ in ast.walk(body_) if isinstance(n_, ast.Name) and defs_of(f).single(n_.id) is not None and n_.id != nested_[e.id].args.args[0].arg}
                return nested_[e.id].args.args[0].arg, _shw._subst(_shw.clone(body_), sub_)
        return None
    ok = False
    for r in _shw.returns_of(f.node):
        v = _shw.resolve(r.value, f.node)
        w_ = wrapper_(v.elts[1]) if isinstance(v, ast.Tuple) and len(v.elts) == 2 else None
        if w_ is not None:
            ok = ok or (_shw.match(f"convert_to_consistent_units(*{rest_}, pre_calc_units={U_})[0]", v.elts[0]) is not None and _shw.match(f"_R.Quantity({w_[0]}, {U_})", w_[1]) is not None)
    ck.check(ok, "G-TAG",
             "unwrap_and_wrap_consistent_units|first-unit-in-first-unit-out", f.loc(), "arguments converted to the first unit; output wrapped with it", "unwrap_and_wrap_consistent_units no longer converts to and wraps with the first input's units")
    f = ix.func(NF, "convert_arg")
    # a quantity is returned as its magnitude in the target units; for a dimensional target a bare number that is not
    # zero/NaN ends in DimensionalityError
    arg_, tgt_ = [a_.arg for a_ in f.node.args.args][:2]
    fc = inlined(ix, f, skip=ANCHORS).node
    conv_ = [r for r in _shw.returns_of(fc) if _is(f"{arg_}.m_as({tgt_})", r.value, fc) and _shw.holds_at(r, fc, lambda t_: _is(f"_is_quantity({arg_})", t_, fc), True)]
    rej_ = [x for x in ast.walk(fc) if isinstance(x, ast.Raise) and x.exc is not None and _is(f"DimensionalityError('dimensionless', {tgt_})", x.exc, fc)
            and _refuted(x, fc, f"zero_or_nan({arg_}, True)") and _refuted(x, fc, f"{tgt_}.dimensionless") and _reachable(x, fc)]
    ck.check(bool(conv_) and bool(rej_), "G-TAG", "convert_arg|quantities-converted-bare-numbers-rejected", f.loc(),
             "quantities are converted; bare non-zero numbers are rejected for dimensional targets", "convert_arg no longer converts quantities / rejects bare numbers for dimensional targets")
    inplace_primitives_rule(ck, ix)
    stale_alias_rule(ck, ix)
    return EXPLANATION



# (implementation, parameter) pairs whose magnitude may be read RAW (no conversion): the parameter carries no units
# role, or the implementation accounts for its units separately.  Confirmed one by one on the pinned tree.
RAW_MAGNITUDE_OK = {
    ("convert_arg", "arg"): "the helper that performs the conversion itself (m_as of the target units)",
    ("_full_like", "fill_value"): "units re-applied by multiplying with ones_like(a) * fill_value.units",
    ("_where", "condition"): "boolean selector: no units role (offset units rejected before)",
    ("_copyto", "src"): "converted with src.m_as(dst.units) / only read raw when dst is not a quantity and src is dimensionless",
    ("_copyto", "dst"): "destination buffer: written in its own units",
    ("_isin", "element"): "test elements are converted to element's units; element itself is the reference",
    ("_pad", "array"): "pad values are converted to array's units; array itself is the reference",
    ("_any", "a"): "truth value: offset units rejected, zero is zero in every multiplicative unit",
    ("_all", "a"): "truth value: offset units rejected, zero is zero in every multiplicative unit",
    ("implement_prod_func.<locals>.<registered>", "a"): "units raised to the number of factors separately",
    ("_trapz", "y"): "units of y and x/dx multiplied into the result separately",
    ("_trapz", "x"): "units of y and x/dx multiplied into the result separately",
    ("_trapz", "dx"): "units of y and x/dx multiplied into the result separately",
    ("_correlate", "a"): "units multiplied into the result separately",
    ("_correlate", "v"): "units multiplied into the result separately",
    ("implement_mul_func.<locals>.<registered>", "a"): "units multiplied into the result separately (after _base_unit_if_needed)",
    ("implement_mul_func.<locals>.<registered>", "b"): "units multiplied into the result separately (after _base_unit_if_needed)",
}


def raw_magnitude_rule(ck, ix):
    """Who may strip a parameter of its units without converting it: in pint/facets/numpy/numpy_func.py a parameter of
    an implementation may be read as `.m` / `.magnitude` / `._magnitude` / getattr(p, 'magnitude', p) only for the
    confirmed (implementation, parameter) pairs of RAW_MAGNITUDE_OK; every other quantity-valued argument has to go
    through convert_to_consistent_units / unwrap_and_wrap_consistent_units / m_as / to (so that, e.g., the `period` of
    np.interp is expressed in the units of x before NumPy sees the number)."""
    m = ix.module(NF)
    seen = set()
    for f in m.all_functions:
        if not isinstance(f.node, ast.FunctionDef):
            continue
        a = f.node.args
        ps = {x.arg for x in a.args + a.kwonlyargs + a.posonlyargs}
        q = f.qualname.split("::")[1]
        role = role_qualname(f)          # nested implementations are looked up by role (factory + what it does with them)
        for n in walk_local(f.node):
            p_ = None
            if isinstance(n, ast.Call) and isinstance(n.func, ast.Name) and n.func.id == "getattr" and len(n.args) >= 2 and isinstance(n.args[1], ast.Constant) \
                    and n.args[1].value in ("magnitude", "m", "_magnitude") and isinstance(n.args[0], ast.Name) and n.args[0].id in ps:
                p_ = n.args[0].id
            elif isinstance(n, ast.Attribute) and n.attr in ("magnitude", "m", "_magnitude") and isinstance(n.value, ast.Name) and n.value.id in ps:
                p_ = n.value.id
            if p_ is None or (q, p_) in seen:
                continue
            seen.add((q, p_))
            ck.check((role, p_) in RAW_MAGNITUDE_OK, "G-OWN", f"raw-magnitude|{q}|{p_}", f.loc(n), RAW_MAGNITUDE_OK.get((role, p_), ""),
                     f"`{norm(n)}` in {q} reads the magnitude of parameter `{p_}` without converting it to the units NumPy will assume for it (not one of the confirmed unit-free roles): a quantity in other units - or of another dimension - is accepted as a bare number")
    ck.floor("G-OWN", len(seen), 10, "raw magnitude reads of parameters in numpy_func implementations")



SAME_AXIS = {
    # NumPy name -> (positional signature, [(members that must be there, optional members)]): arguments NumPy reads as numbers
    # on ONE axis, so they have to be expressed in one common unit by ONE consistent-units conversion
    "interp": (["x", "xp", "fp", "left", "right", "period"], [(("x", "xp"), ("period",)), (("fp",), ("left", "right"))]),
}


def same_axis_rule(ck, ix):
    """np.interp(x, xp, fp, left, right, period): x, xp and period are numbers on the abscissa, fp, left and right on the
    ordinate. Every member of one axis that reaches the NumPy call has to come out of the SAME consistent-units
    conversion statement as the axis' required members (reaching definitions on the CFG): a member converted on its
    own - to whatever unit - is a number in another unit than its siblings."""
    from .C01 import reaching_defs
    m = ix.module(NF)
    HELPERS = ("unwrap_and_wrap_consistent_units", "convert_to_consistent_units")
    n = 0
    for f in m.all_functions:
        if not isinstance(f.node, ast.FunctionDef):
            continue
        names = [d.args[0].value for d in f.node.decorator_list if isinstance(d, ast.Call) and isinstance(d.func, ast.Name) and d.func.id == "implements"
                 and d.args and isinstance(d.args[0], ast.Constant)]
        for np_name in [x for x in names if x in SAME_AXIS]:
            sig, axes = SAME_AXIS[np_name]
            cfg = cfg_of(f)
            for c in [c for c in walk_local(f.node) if isinstance(c, ast.Call) and dotted(c.func) == f"np.{np_name}"]:
                argmap = {sig[i]: a for i, a in enumerate(c.args) if i < len(sig) and not isinstance(a, ast.Starred)}
                argmap.update({k.arg: k.value for k in c.keywords if k.arg})
                for required, optional in axes:
                    stmts = {}
                    for role in required + optional:
                        e = argmap.get(role)
                        if e is None or (isinstance(e, ast.Constant) and e.value is None):
                            continue
                        key = f"{f.name}|same-axis-one-conversion|{role}"
                        if not isinstance(e, ast.Name):
                            ck.fail("G-PROV", key, f.loc(c), f"`{role}={norm(e)[:60]}` of np.{np_name} is computed in place instead of coming out of the consistent-units conversion of its axis ({', '.join(required + optional)})")
                            continue
                        ds = reaching_defs(f, e.id, c)
                        alld = set()
                        for _, k_, st in defs_of(f).defs.get(e.id, []):
                            if k_ != "fill":
                                alld |= set(cfg.nodes_for_ast(st))
                        goal = cfg.nodes_for_ast(c)
                        raw = e.id in defs_of(f).params and cfg.path(cfg.entry, goal, avoid=alld - set(goal)) is not None
                        bad = [st for v, k_, st in ds if not (isinstance(st, ast.Assign) and isinstance(st.value, ast.Call) and call_name(st.value) in HELPERS)]
                        n += 1
                        if bad:
                            ck.fail("G-PROV", key, f.loc(bad[0]), f"`{norm(bad[0])[:80]}` gives np.{np_name} its `{role}` from something else than a consistent-units conversion of its axis ({', '.join(required + optional)}): the number is not in the unit of its siblings")
                            continue
                        if raw and role in required:
                            ck.fail("G-PROV", key, f.loc(c), f"the parameter `{e.id}` can reach np.{np_name} as `{role}` without any conversion")
                            continue
                        stmts[role] = {id(st): st for _, _, st in ds}
                        ck.ok("G-PROV", key, f.loc(c), f"`{role}` comes from {len(ds)} consistent-units conversion statement(s)")
                    anchor_sets = [set(stmts[r]) for r in required if r in stmts]
                    common = set.intersection(*anchor_sets) if anchor_sets else set()
                    for role, sts in stmts.items():
                        off = [st for i_, st in sts.items() if i_ not in common]
                        ck.check(not off, "G-PROV", f"{f.name}|same-axis-same-statement|{role}", f.loc(off[0]) if off else f.loc(c), f"`{role}` is converted together with {', '.join(required)}",
                                 f"`{norm(off[0])[:80]}`: `{role}` of np.{np_name} is converted by another statement than {', '.join(required)} - the members of one axis ({', '.join(required + optional)}) must be brought to ONE common unit by one conversion" if off else "")
    ck.floor("G-PROV", n, 5, "same-axis arguments of np.interp traced to their consistent-units conversion")


def no_conversion_rule(ck, ix):
    """NumpyQuantity.__to_if_needed / __ito_if_needed (input conversion of the set_units ndarray methods): the ONLY case
    in which the quantity is used as it is, is a unitless quantity asked for radian; every other request converts (a
    dimensionless quantity in percent or km/m asked for '' must be scaled).  Decided by facts: a `return self` /
    fall-through without conversion executes only where `self.unitless` and `to_units == 'radian'` are both known."""
    from .. import shape as _s
    ci = ix.cls(NQ, "NumpyQuantity")
    n = 0
    for name, mi in ci.methods.items():
        if "_if_needed" not in name or not isinstance(mi.node, ast.FunctionDef):
            continue
        fn = mi.node
        par = fn.args.args[1].arg if len(fn.args.args) > 1 else "to_units"
        unitless = lambda a_: _s.match("self.unitless", a_) is not None
        radian = lambda a_, par=par: _s.match(f"{par} == 'radian'", a_) is not None or _s.match(f"'radian' == {par}", a_) is not None
        skips = [r for r in _s.returns_of(fn) if norm(r.value) == "self"] + [r for r in walk_local(fn) if isinstance(r, ast.Return) and r.value is None]
        for r in skips:
            n += 1
            ok = _s.holds_at(r, fn, unitless, True) and _s.holds_at(r, fn, radian, True)
            ck.check(ok, "G-DOM", f"NumpyQuantity.{name.lstrip('_')}|unconverted-only-for-unitless-radian", mi.loc(r), "the quantity is left as it is only when it is unitless and radian is asked for",
                     f"`{norm(r)}` leaves the quantity unconverted where `self.unitless and {par} == 'radian'` is not established: a dimensionless quantity in scaled units (percent, km/m) reaches the ndarray method unscaled (q.cumprod() computed from raw magnitudes)")
        convs = [c for c in walk_local(fn) if isinstance(c, ast.Call) and isinstance(c.func, ast.Attribute) and c.func.attr in ("to", "ito") and norm(c.func.value) == "self"]
        ck.check(bool(convs), "G-DOM", f"NumpyQuantity.{name.lstrip('_')}|converts-otherwise", mi.loc(), "every other request converts", f"{name} no longer converts the quantity to the requested units")
    ck.floor("G-DOM", n, 1, "no-conversion exits of the *_if_needed helpers of NumpyQuantity")


def bare_tolerance_rule(ck, ix):
    """np.isclose / np.allclose(a, b, atol=...): both operands are expressed in the units of the FIRST one (`a`), so a
    bare numeric `atol` has to be taken in the units of `a` as well - whatever wraps it as a quantity must use
    `<argument 'a'>.units`."""
    from .. import shape as _s
    m = ix.module(NF)
    fac = next((f for f in m.all_functions if f.name == "implement_close" and f.parent is None), None)
    if fac is None:
        raise AnalysisError("implement_close not found in numpy_func")
    impls = [f for f in m.all_functions if f.parent is fac and isinstance(f.node, ast.FunctionDef)]
    n = 0
    for f in impls:
        fn = f.node
        for c in [c for c in walk_local(fn) if isinstance(c, ast.Call) and isinstance(c.func, ast.Attribute) and c.func.attr == "Quantity" and len(c.args) == 2]:
            val, units = _s.rnorm(c.args[0], fn), _s.rnorm(c.args[1], fn)
            if "atol" not in val:
                continue
            n += 1
            ru = _s.resolve(c.args[1], fn)
            ok = isinstance(ru, ast.Attribute) and ru.attr in ("units", "_units") and isinstance(ru.value, ast.Subscript) and isinstance(ru.value.slice, ast.Constant) and ru.value.slice.value == "a"
            ck.check(ok, "G-PROV", "implement_close|bare-atol-in-units-of-a", f.loc(c), "a bare atol is taken in the units of `a`",
                     f"`{norm(c)}` wraps the bare tolerance in `{units}`: both operands are converted to the units of `a`, so the tolerance must be in the units of `a` too (otherwise the verdict changes when `b` is re-expressed)")
    ck.floor("G-PROV", n, 1, "wrapping of a bare atol in implement_close")
