"""C04 — units form a commutative group with a canonical representation."""
from __future__ import annotations

import ast

from ..flow import call_name, dotted, norm, writes_in
from ..index import AnalysisError, walk_local
from ..lib import cfg_of, defs_of, has, live, nodes_with, return_nodes, witness
from ..memo import _normal_path, excluded_conjunctions as _excluded_conjunctions
from .. import shape as _sh

U = "pint.util"
REPR_FIELDS = ("_d", "_hash", "_one", "_non_int_type", "scale")

EXPLANATION = (
    "Static analysis (no execution) of pint/util.py::UnitsContainer/ParserHelper and the Unit operators: G-OWN "
    "copy-on-write (the representation fields _d/_hash/_one/_non_int_type/scale are written only inside those classes, "
    "only on receivers that are fresh in the same function, and nothing else in the package writes them; __copy__ "
    "copies the dict instead of sharing it), G-PAIR hash invalidation (after `new = self.copy()` every normal path from "
    "a write of new._d to `return new` passes `new._hash = None`), G-CANON canonical form (every additive exponent "
    "update is followed by removal of a zero entry, multiplicative updates are excluded for a zero factor, add() stores "
    "only non-zero sums and removes with a default, operate() cleans zeros and no caller disables it), eq/hash field "
    "agreement, delegation of the Unit operators to the container operator of the same name, and exactness of the "
    "pi-theorem arithmetic (no flooring/rounding of rational exponents). Does not decide the algebraic laws "
    "themselves nor the nullspace computation.")
EXPLANATION += ' Also decided: the dimensionality recursion carries the combined exponent (shared with C01).'

FRESH_CALLS = {"copy", "__copy__", "__new__", "__pow__", "operate", "add", "cls", "__class__", "udict", "remove", "rename"}


def _fresh_vars(fi):
    defs = defs_of(fi)
    out = set()
    for nm, ds in defs.defs.items():
        vals = [v for v, k, s in ds if k == "assign"]
        if vals and all(isinstance(v, ast.Call) and (call_name(v) in FRESH_CALLS) for v in vals) and len(vals) == len(ds):
            out.add(nm)
    return out


def run(ck, ix, tier):
    ck.rule("G-OWN", "representation fields are written only by the owning class on fresh receivers")
    ck.rule("G-PAIR", "every write of a copied container's dict is followed by a hash reset before it escapes")
    ck.rule("G-CANON", "no zero exponent survives an operation")
    uc = ix.cls(U, "UnitsContainer")
    ph = ix.cls(U, "ParserHelper")
    owners = {uc, ph}
    # ------------------------------------------------------------ (a) who may write
    n_writes = 0
    for f in ix.all_functions():
        if not isinstance(f.node, (ast.FunctionDef, ast.AsyncFunctionDef)):
            continue
        for (p, kind, node) in writes_in(f.node):
            parts = p.split(".")
            fld = None
            # attribute store X.<field> = ...   or   item/mutator write on X.<field>
            if kind.endswith("attr-store") or kind == "attr-del":
                if parts[-1] in REPR_FIELDS:
                    fld, recv = parts[-1], ".".join(parts[:-1])
            else:
                if parts[-1] in ("_d",):
                    fld, recv = parts[-1], ".".join(parts[:-1])
            if fld is None:
                continue
            if f.cls not in owners and fld not in ("_d", "_hash"):
                # `scale`, `_one`, `_non_int_type` are also attribute names of converters / registries:
                # outside the owning classes only the distinctive fields are attributed to containers
                continue
            n_writes += 1
            key = f"{f.qualname.split('::')[1]}|{recv}.{fld}"
            if f.cls not in owners:
                ck.fail("G-OWN", f"repr-field-written-outside-owner|{key}", f.loc(node),
                        f"`{norm(node).splitlines()[0]}` writes the representation field `{fld}` of a units container outside UnitsContainer/ParserHelper")
                continue
            fresh = _fresh_vars(f)
            ok = False
            why = ""
            if recv == "self":
                ok = f.name in ("__init__", "__setstate__") or (f.name == "__hash__" and fld == "_hash")
                why = "constructor/state restore/memo fill"
            elif recv in fresh:
                ok, why = True, "receiver is fresh in this function"
            elif f.name == "from_string" and recv in {norm(r.value) for r in walk_local(f.node) if isinstance(r, ast.Return) and isinstance(r.value, ast.Name)} \
                    and all(isinstance(v, ast.Call) and call_name(v) in ("evaluate", "cls") for v, k, s_ in defs_of(f).defs.get(recv, []) if v is not None):
                # the name that is returned and that only ever holds the fresh result of the evaluation / a fresh cls(...)
                ok, why = True, "frozen exception: from_string edits the private result of the evaluation before returning it"
            ck.check(ok, "G-OWN", f"copy-on-write|{key}", f.loc(node), why,
                     f"`{norm(node).splitlines()[0]}` writes `{recv}.{fld}`, and `{recv}` is not an object created in this function (operand mutated / shared storage)")
    ck.floor("G-OWN", n_writes, 10, "writes of representation fields in UnitsContainer/ParserHelper")
    # __copy__ must not share the dict
    for ci in (uc,):
        f = ci.methods["__copy__"]
        ck.analysed(f)
        for a in walk_local(f.node):
            if isinstance(a, ast.Assign) and any(dotted(t) and dotted(t).endswith("._d") for t in a.targets):
                v = a.value
                ok = isinstance(v, ast.Call) and call_name(v) in ("copy", "udict", "dict")
                ck.check(ok, "G-OWN", "UnitsContainer.__copy__|dict-copied-not-shared", f.loc(a), "the exponent dict is copied",
                         f"`{norm(a)}` shares the exponent dict between the copy and the original")
    # from_string is lru_cached: callers must not mutate what it returns
    for f in ix.all_functions():
        if not isinstance(f.node, (ast.FunctionDef, ast.AsyncFunctionDef)) or f.name == "from_string":
            continue
        defs = defs_of(f)
        shared = {nm for nm, ds in defs.defs.items() if any(v is not None and isinstance(v, ast.Call) and call_name(v) == "from_string" and "ParserHelper" in norm(v.func) for v, k, s in ds)}
        for (p, kind, node) in writes_in(f.node):
            if p.split(".")[0] in shared:
                ck.fail("G-OWN", f"from_string-result-mutated|{f.qualname}", f.loc(node), f"`{norm(node)}` mutates the shared (lru_cached) result of ParserHelper.from_string")

    # ------------------------------------------------------------ (b) hash invalidation
    n_inv = 0
    for ci in (uc, ph):
        for m in ci.methods.values():
            if not isinstance(m.node, ast.FunctionDef):
                continue
            defs = defs_of(m)
            copies = {nm for nm, ds in defs.defs.items() if any(v is not None and isinstance(v, ast.Call) and call_name(v) in ("copy", "__copy__") for v, k, s in ds)}
            if not copies:
                continue
            cfg = cfg_of(m)
            for var in sorted(copies):
                wnodes = []
                for (p, kind, node) in writes_in(m.node):
                    if p == f"{var}._d":
                        wnodes += cfg.nodes_for_ast(node)
                if not wnodes:
                    continue
                ck.analysed(m)
                gates = [n.id for n in cfg.nodes if n.kind == "stmt" and isinstance(n.ast, ast.Assign) and any(dotted(t) == f"{var}._hash" for t in n.ast.targets) and norm(n.ast.value) == "None"]
                rets = [r for r in return_nodes(cfg) if cfg.nodes[r].ast.value is not None and var in {x.id for x in ast.walk(cfg.nodes[r].ast.value) if isinstance(x, ast.Name)}]
                for w in live(cfg, sorted(set(wnodes))):
                    n_inv += 1
                    bad = None
                    if w not in gates:
                        for r in rets:
                            p = _path_normal(cfg, w, r, gates)
                            if p:
                                bad = p
                    ck.check(bad is None, "G-PAIR", f"{ci.name}.{m.name}|hash-reset-after-write-of-{var}._d", m.loc(cfg.nodes[w].ast),
                             "the copied hash is reset before the modified copy is returned",
                             f"`{cfg.nodes[w].text()}` modifies the copy's exponents and a path returns it with the original's cached hash (== and hash would disagree with the contents)",
                             witness(cfg, bad))
    ck.floor("G-PAIR", n_inv, 3, "writes of a copied container's dict")
    f = uc.methods["__setstate__"]
    ck.check(any(isinstance(a, ast.Assign) and any(dotted(t) == "self._hash" for t in a.targets) and norm(a.value) == "None" for a in walk_local(f.node)),
             "G-PAIR", "UnitsContainer.__setstate__|hash-reset", f.loc(), "restored state starts without a cached hash", "__setstate__ no longer resets the cached hash")
    f = uc.methods["__init__"]
    ck.check(any(isinstance(a, ast.Assign) and any(dotted(t) == "self._hash" for t in a.targets) and norm(a.value) == "None" for a in walk_local(f.node)),
             "G-PAIR", "UnitsContainer.__init__|hash-unset", f.loc(), "new containers start without a cached hash", "__init__ no longer initialises _hash to None")
    # hash memo: computed from the items
    f = uc.methods["__hash__"]
    ck.analysed(f)
    hs = [c for c in walk_local(f.node) if isinstance(c, ast.Call) and isinstance(c.func, ast.Name) and c.func.id == "hash"]
    stores = [a for a in walk_local(f.node) if isinstance(a, ast.Assign) and any(norm(t) == "self._hash" for t in a.targets)]
    # the one memo fill stores hash(frozenset(items)) (possibly through a temporary) and happens only while the memo is unset
    okh = len(hs) == 1 and len(stores) == 1 and _sh.rnorm(stores[0].value, f.node) == "hash(frozenset(self._d.items()))" \
        and _sh.holds_at(stores[0], f.node, lambda at: "self._hash is None" in _texts(at, f.node), True)
    ck.check(okh, "G-PROV", "UnitsContainer.__hash__|over-items", f.loc(),
             "hash over the (name, exponent) items, memoised", "the container hash is no longer hash(frozenset(items))")

    # ------------------------------------------------------------ (c) canonical form
    n_can = 0
    for ci in (uc, ph):
        for m in ci.methods.values():
            if not isinstance(m.node, ast.FunctionDef):
                continue
            for a in walk_local(m.node):
                if not (isinstance(a, ast.AugAssign) and isinstance(a.target, ast.Subscript) and _is_exponent_table(a.target.value, m.node)):
                    continue
                n_can += 1
                ck.analysed(m)
                key = f"{ci.name}.{m.name}|{norm(a.target)}"
                entry = _texts(a.target, m.node)
                if isinstance(a.op, (ast.Add, ast.Sub)):
                    # some later statement of the same block removes this very entry where it is known to be zero
                    ok = any(_follows(a, x) and _known_zero(x, m.node, entry)
                             for x in _removals(m.node, a.target))
                    ck.check(ok, "G-CANON", f"additive-update-removes-zero|{key}", m.loc(a), "a zero sum is removed after the update",
                             f"`{norm(a)}` is not followed by the removal of a zero exponent (a zero-exponent entry survives: u/u would not be dimensionless)")
                elif isinstance(a.op, ast.Mult):
                    # the update runs only where "factor == 0 (and ...)" is known not to hold, and where it does hold the
                    # table is cleared - whichever branch is written first
                    factor = _texts(a.value, m.node)
                    guarded = False
                    for excl in _excluded_conjunctions(a, m.node):
                        if not any(_is_zero_atom(at, m.node, factor) and tr for at, tr in excl):
                            continue
                        clears = [c for c in walk_local(m.node) if isinstance(c, ast.Call) and call_name(c) == "clear" and isinstance(c.func, ast.Attribute) and _texts(c.func.value, m.node) & _texts(a.target.value, m.node)]
                        guarded = guarded or any(all(_sh.holds_at(c, m.node, lambda x, at=at: norm(x) == norm(at), tr) for at, tr in excl) for c in clears)
                    ck.check(guarded, "G-CANON", f"multiplicative-update-excludes-zero-factor|{key}", m.loc(a),
                             "exponents are only scaled by a non-zero factor; a zero factor clears the container",
                             f"`{norm(a)}` can scale exponents by 0 and keep the zero entries (u ** 0 would not be dimensionless)")
                else:
                    ck.check(False, "G-CANON", f"exponent-update-kind|{key}", m.loc(a), "", f"unrecognised exponent update `{norm(a)}`")
    ck.floor("G-CANON", n_can, 2, "in-place exponent updates")
    # add(): store only non-zero, remove with default
    f = uc.methods["add"]
    ck.analysed(f)
    stores = [a for a in walk_local(f.node) if isinstance(a, ast.Assign) and any(isinstance(t, ast.Subscript) and _is_exponent_table(t.value, f.node) for t in a.targets)]
    ck.floor("G-CANON", len(stores), 1, "exponent store in UnitsContainer.add")
    for a in stores:
        tgt = [t for t in a.targets if isinstance(t, ast.Subscript)][0]
        stored = _texts(a.value, f.node)
        ck.check(_known_nonzero(a, f.node, stored), "G-CANON", "UnitsContainer.add|stores-only-nonzero", f.loc(a), "the sum is stored only when non-zero", f"`{norm(a)}` can store a zero exponent")
        # where the sum is known to be zero the entry is removed, tolerating an absent key
        rem = [x for x in _removals(f.node, tgt) if _known_zero(x, f.node, stored)]
        ck.check(bool(rem), "G-CANON", "UnitsContainer.add|zero-sum-removes-entry", f.loc(a), "a zero sum removes the entry", "a zero sum leaves the old entry in place")
        for c in [x for x in rem if isinstance(x, ast.Call)]:
            ck.check(len(c.args) == 2, "G-CANON", "UnitsContainer.add|removal-tolerates-absent-key", f.loc(c), "pop with a default: the key may be absent",
                     f"`{norm(c)}` raises KeyError when the key is absent (adding exponent 0 of a new unit, e.g. parse_units('m**0'))")
        dels = [x for x in rem if isinstance(x, ast.Delete)]
        ck.check(not dels, "G-CANON", "UnitsContainer.add|removal-tolerates-absent-key(del)", f.loc(dels[0]) if dels else f.loc(a), "no bare del", "a bare `del` raises KeyError when the key is absent")
        # the stored value is the old exponent of that key plus the (normalised) summand
        v = _sh.resolve(a.value, f.node)
        key_txt = norm(tgt.slice)
        ck.check(isinstance(v, ast.BinOp) and isinstance(v.op, ast.Add) and f"self._d[{key_txt}]" in norm(v) and "value" in {n_.id for n_ in ast.walk(v) if isinstance(n_, ast.Name)}, "G-PROV", "UnitsContainer.add|sum-of-old-and-new", f.loc(a),
                 "new exponent = old + value", f"`{norm(a)}` (= `{norm(v)}`) is not old exponent + value")
    # operate(): cleanup
    f = ph.methods["operate"]
    ck.analysed(f)
    from ..memo import looked_through
    fnx = looked_through(ix, f).node
    zero_dels = [x for x in ast.walk(fnx) if isinstance(x, ast.Delete) and any(isinstance(t, ast.Subscript) and _is_exponent_table(t.value, fnx) for t in x.targets)]
    zero_dels = [x for x in zero_dels if _sh.holds_at(x, fnx, lambda at: norm(at) == "cleanup", True) and _selected_zero(x, fnx) and not _sh.dead(x, fnx)]
    ck.check(bool(zero_dels), "G-CANON", "ParserHelper.operate|zero-cleanup", f.loc(),
             "zero exponents are deleted after operating", "ParserHelper.operate no longer deletes zero exponents")
    dflt = f.node.args.defaults
    ck.check(any(isinstance(d, ast.Constant) and d.value is True for d in dflt), "G-CANON", "ParserHelper.operate|cleanup-default-true", f.loc(), "cleanup defaults to True", "cleanup no longer defaults to True")
    for g in ix.all_functions():
        for c in walk_local(g.node) if isinstance(g.node, (ast.FunctionDef, ast.AsyncFunctionDef)) else []:
            if isinstance(c, ast.Call) and call_name(c) == "operate" and any(k.arg == "cleanup" and norm(k.value) != "True" for k in c.keywords):
                ck.fail("G-CANON", f"ParserHelper.operate|caller-disables-cleanup|{g.qualname}", g.loc(c), f"`{norm(c)}` disables the zero-exponent cleanup")
    # __init__ does not filter zeros by itself: constructors from computed dicts must filter (infer_base_unit, registry accumulators)
    for mod, qual in (("pint.util", "infer_base_unit"),):
        g = ix.func(mod, qual)
        ck.analysed(g)
        # what reaches the container constructor is a copy of the accumulated table from which zero powers are filtered
        built = [c for c in walk_local(g.node) if isinstance(c, ast.Call) and call_name(c) == "UnitsContainer" and c.args]
        ck.floor("G-CANON", len(built), 1, f"UnitsContainer construction in {qual}")
        for c in built:
            ef = _sh.entry_facts(g.node, c.args[0])
            ok = ef is not None and (("V == 0", False) in ef[0] or ("V", True) in ef[0])
            ck.check(ok, "G-CANON", f"{qual}|zero-exponents-filtered", g.loc(c), "zero powers are filtered before building the container", f"{qual} can build a container with zero exponents")

    # ------------------------------------------------------------ (d) eq/hash agreement, delegation
    def self_attrs(fn):
        return {n.attr for n in walk_local(fn.node) if isinstance(n, ast.Attribute) and dotted(n.value) in ("self",)}
    for ci in (uc, ph):
        h, e = ci.methods.get("__hash__"), ci.methods.get("__eq__")
        if h is None or e is None:
            continue
        ha = self_attrs(h) - {"_hash"}
        ea = self_attrs(e) | ({"_d"} if "__hash__" in norm(e.node) or "super().__eq__" in norm(e.node) else set())
        if ci is ph:
            ea |= self_attrs(uc.methods["__eq__"]) | {"_d"}
            ha |= set()
        ck.check(ha <= ea, "G-PROV", f"{ci.name}|hash-fields-subset-of-eq-fields", h.loc(), f"hash reads {sorted(ha)}, eq reads {sorted(ea)}",
                 f"{ci.name}.__hash__ depends on {sorted(ha - ea)}, which __eq__ ignores: equal containers could hash differently")
    e = uc.methods["__eq__"]
    ck.analysed(e)
    ck.check(has(ix, e, "dict.__eq__(self._d, _O)"), "G-PROV", "UnitsContainer.__eq__|compares-all-items", e.loc(), "equality compares the exponent dicts", "__eq__ no longer compares the full exponent dicts")
    pu = ix.cls("pint.facets.plain.unit", "PlainUnit")
    for name, op in (("__mul__", ast.Mult), ("__truediv__", ast.Div), ("__pow__", ast.Pow)):
        f = pu.methods[name]
        ck.analysed(f)
        found = False
        for c in walk_local(f.node):
            if isinstance(c, ast.Call) and norm(c.func) == "self.__class__" and c.args and isinstance(c.args[0], ast.BinOp):
                b = c.args[0]
                if norm(b.left) == "self._units":
                    found = True
                    right_ok = norm(b.right) in ("other._units", "other")
                    ck.check(isinstance(b.op, op) and right_ok, "G-TWIN", f"PlainUnit.{name}|delegates-to-container-operator", f.loc(c),
                             f"Unit.{name} is the container's {name}", f"`{norm(c)}` does not apply the container's `{name}` to (self._units, other)")
        ck.check(found, "G-TWIN", f"PlainUnit.{name}|delegation-present", f.loc(), "delegates to the container", f"PlainUnit.{name} no longer builds its result from self._units <op> other")
    f = pu.methods["__hash__"]
    ck.check(has(ix, f, "self._units.__hash__()") or has(ix, f, "hash(self._units)"), "G-TWIN", "PlainUnit.__hash__|delegates", f.loc(), "hash of the container", "PlainUnit.__hash__ no longer hashes self._units")
    f = pu.methods["__eq__"]
    ck.check(has(ix, f, "self._units == other._units"), "G-TWIN", "PlainUnit.__eq__|delegates", f.loc(), "units compared by container equality", "PlainUnit.__eq__ no longer compares the containers")
    f = pu.methods["__rtruediv__"]
    ck.check(has(ix, f, "1 / self._units") and has(ix, f, "other / self._units"), "G-TWIN", "PlainUnit.__rtruediv__|reciprocal", f.loc(), "reflected division inverts the container", "PlainUnit.__rtruediv__ no longer inverts self._units")
    f = uc.methods["__rtruediv__"]
    ck.check(has(ix, f, "self ** (-1)"), "G-TWIN", "UnitsContainer.__rtruediv__|reciprocal", f.loc(), "1/u == u**-1", "UnitsContainer.__rtruediv__ is no longer u ** -1")
    # multiplication adds, division subtracts
    for name, op in (("__mul__", ast.Add), ("__truediv__", ast.Sub)):
        f = uc.methods[name]
        augs = [a for a in walk_local(f.node) if isinstance(a, ast.AugAssign) and isinstance(a.target, ast.Subscript)]
        for a in augs:
            ck.check(isinstance(a.op, op), "G-TWIN", f"UnitsContainer.{name}|exponent-arithmetic", f.loc(a), f"{name} {'adds' if op is ast.Add else 'subtracts'} exponents",
                     f"`{norm(a)}`: {name} must {'add' if op is ast.Add else 'subtract'} exponents")
        loops = [l for l in walk_local(f.node) if isinstance(l, ast.For)]
        for l in loops:
            ck.check("other.items()" in norm(l.iter), "G-TWIN", f"UnitsContainer.{name}|iterates-other", f.loc(l), "iterates over the other operand's items", f"`{norm(l.iter)}` is not the other operand's items")

    # ------------------------------------------------------------ exact arithmetic in the pi theorem
    for q in ("pi_theorem", "column_echelon_form"):
        f = ix.func(U, q)
        ck.analysed(f)
        bad = [n for n in walk_local(f.node) if (isinstance(n, ast.BinOp) and isinstance(n.op, ast.FloorDiv)) or
               (isinstance(n, ast.AugAssign) and isinstance(n.op, ast.FloorDiv)) or
               (isinstance(n, ast.Call) and call_name(n) in ("int", "round", "floor", "ceil", "trunc", "float") and n.args)]
        ck.check(not bad, "G-PROV", f"{q}|exact-rational-arithmetic", f.loc(bad[0]) if bad else f.loc(), "only exact rational operations on exponents",
                 f"`{norm(bad[0]) if bad else ''}` floors/rounds a rational exponent: the returned monomials need no longer be dimensionless")
    f = ix.func(U, "pi_theorem")
    src = norm(f.node)
    # a row contributes a monomial only if every element of its echelon part is 0: the `any(el != 0 ...)` test excludes the
    # row - as a `continue` guard in the loop or as a (negated) filter of a comprehension
    from .. import shape as _sh4
    anys = [c for c in ast.walk(f.node) if isinstance(c, ast.Call) and isinstance(c.func, ast.Name) and c.func.id == "any" and c.args and isinstance(c.args[0], ast.GeneratorExp)
            and isinstance(c.args[0].elt, ast.Compare) and isinstance(c.args[0].elt.ops[0], ast.NotEq) and norm(c.args[0].elt.comparators[0]) == "0"]
    okn = False
    for c in anys:
        par = getattr(c, "_parent", None)
        neg = isinstance(par, ast.UnaryOp) and isinstance(par.op, ast.Not)
        holder = getattr(par, "_parent", None) if neg else par
        if isinstance(holder, ast.comprehension):
            okn = okn or neg                                   # [... if not any(el != 0 ...)]
        elif isinstance(holder, ast.If):
            side = holder.orelse if neg else holder.body       # statements executed when some element is non-zero
            okn = okn or any(isinstance(x, ast.Continue) for st in side for x in ast.walk(st))
    ck.check(okn, "G-PROV", "pi_theorem|only-null-rows", f.loc(), "only rows whose echelon part vanishes are returned", "pi_theorem no longer selects exactly the null rows")
    from .. import memo as _memo
    _memo.rule_quantity_dimensionality_memo(ck, ix)
    _memo.rule_unit_dimensionality_memo(ck, ix)
    from .C01 import recursion_exponent_rule as _rer4
    _rer4(ck, ix, "GenericPlainRegistry._get_dimensionality_recurse")  # dimensionality of a product/power: combined exponents carried through
    return EXPLANATION


# ---------------------------------------------------------------- role-based helpers (no local names of pint are mentioned)
def _is_exponent_table(e, fn) -> bool:
    """`e` denotes an exponent table: `<obj>._d`, or a local name for it, or a local copy of one
    (`<obj>._d.copy()`, `udict(<obj>._d)`, `dict(<obj>._d)`) that the function edits before building its result."""
    v = _sh.unalias(e, fn)
    if isinstance(v, ast.Attribute):
        return v.attr == "_d"
    if isinstance(v, ast.Call):
        if call_name(v) == "copy" and isinstance(v.func, ast.Attribute) and isinstance(v.func.value, ast.Attribute) and v.func.value.attr == "_d" and not v.args:
            return True
        if call_name(v) in ("udict", "dict") and len(v.args) == 1 and isinstance(v.args[0], ast.Attribute) and v.args[0].attr == "_d":
            return True
    return False


def _texts(e, fn) -> set:
    """the spellings under which expression `e` may appear: as written and with local aliases/temporaries resolved"""
    return {norm(e), _sh.rnorm(e, fn)}


def _removals(fn, sub):
    """Nodes of `fn` that remove the entry `sub` (= T[K]) from its table: `del T[K]` or `T.pop(K, ...)` (T possibly
    through a local alias)."""
    T, K = _texts(sub.value, fn), norm(sub.slice)
    out = []
    for x in walk_local(fn):
        if isinstance(x, ast.Delete) and any(isinstance(t, ast.Subscript) and _texts(t.value, fn) & T and norm(t.slice) == K for t in x.targets):
            out.append(x)
        elif isinstance(x, ast.Call) and call_name(x) == "pop" and isinstance(x.func, ast.Attribute) and _texts(x.func.value, fn) & T and x.args and norm(x.args[0]) == K:
            out.append(x)
    return out


def _follows(a, x) -> bool:
    """`x` lies in a statement that comes after statement `a` in the same block."""
    loc = _sh._block_and_index(a)
    if loc is None:
        return False
    _, lst, idx = loc
    cur = x
    while cur is not None:
        for j, st in enumerate(lst):
            if st is cur:
                return j > idx
        cur = getattr(cur, "_parent", None)
    return False


def _is_zero_atom(at, fn=None, texts=None) -> bool:
    """`at` is the positive comparison `<e> == 0` (either order), with <e> one of `texts` (any expression if None)."""
    if not (isinstance(at, ast.Compare) and len(at.ops) == 1 and isinstance(at.ops[0], ast.Eq)):
        return False
    l, r = at.left, at.comparators[0]
    for a_, b_ in ((l, r), (r, l)):
        if isinstance(b_, ast.Constant) and b_.value == 0 and not isinstance(b_.value, bool):
            if texts is None or (_texts(a_, fn) & texts):
                return True
    return False


def _known_zero(x, fn, texts) -> bool:
    """where `x` executes, the expression written as one of `texts` is known to be zero (`e == 0` holds / `e` is falsy)"""
    return any((_is_zero_atom(at, fn, texts) and tr) or (bool(_texts(at, fn) & texts) and not tr) for at, tr in _sh.facts_at(x, fn))


def _known_nonzero(x, fn, texts) -> bool:
    """where `x` executes, the expression written as one of `texts` is known not to be zero (`e` truthy / `e == 0` false)"""
    return any((_is_zero_atom(at, fn, texts) and not tr) or (bool(_texts(at, fn) & texts) and tr) for at, tr in _sh.facts_at(x, fn))


def _selected_zero(x, fn) -> bool:
    """The entry removed by `x` is one whose value is zero: `x` runs under `<value> == 0`, or in a loop over a
    comprehension that selects the keys with `<value> == 0`."""
    if _sh.holds_at(x, fn, lambda at: _is_zero_atom(at), True):
        return True
    cur = x
    while cur is not None and cur is not fn:
        cur = getattr(cur, "_parent", None)
        if isinstance(cur, ast.For):
            for comp in ast.walk(_sh.resolve(cur.iter, fn)):
                if isinstance(comp, (ast.ListComp, ast.SetComp, ast.GeneratorExp)):
                    if any(_is_zero_atom(at) and tr for g in comp.generators for i in g.ifs for at, tr in _sh.conjuncts(i, "t")):
                        return True
    return False


def _path_normal(cfg, start, goal, gates):
    """normal-edge path start -> goal avoiding gates"""
    from collections import deque
    gates = set(gates)
    prev = {start: None}
    dq = deque([start])
    while dq:
        u = dq.popleft()
        if u == goal and u != start:
            out = []
            while u is not None:
                out.append(u)
                u = prev[u]
            return out[::-1]
        for (v, lab) in cfg.succ[u]:
            if lab == "exc" or v in prev or v in gates:
                continue
            prev[v] = u
            dq.append(v)
    return None
