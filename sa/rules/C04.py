"""C04 — units form a commutative group with a canonical representation."""
from __future__ import annotations

import ast

from ..flow import call_name, dotted, norm, writes_in
from ..index import AnalysisError, walk_local
from ..lib import cfg_of, defs_of, live, nodes_with, return_nodes, witness
from ..memo import _normal_path

U = "pint.util"
REPR_FIELDS = ("_d", "_hash", "_one", "_non_int_type", "scale")

EXPLANATION = (
    "Static analysis (no execution) of pint/util.py::UnitsContainer/ParserHelper and the Unit operators: G-OWN "
    "copy-on-write (the representation fields _d/_hash/_one/_non_int_type/scale are written only inside those classes, "
    "only on receivers that are fresh in the same function, and nothing else in the package writes them; __copy__ "
    "copies the dict instead of sharing it), G-PAIR hash invalidation (after `new = self.copy()` every normal path from "
    "a write of new._d to `return new` passes `new._hash = None`), G-CANON canonical form (every additive exponent "
    "update is followed by removal of a zero entry, multiplicative updates are excluded for a zero factor, add() stores "
    "only non-zero sums and removes with a default, operate() cleans zeros and no caller disables it), eq/hash field "
    "agreement, delegation of the Unit operators to the container operator of the same name, and exactness of the "
    "pi-theorem arithmetic (no flooring/rounding of rational exponents). Does not decide the algebraic laws "
    "themselves nor the nullspace computation.")

FRESH_CALLS = {"copy", "__copy__", "__new__", "__pow__", "operate", "add", "cls", "__class__", "udict", "remove", "rename"}


def _fresh_vars(fi):
    defs = defs_of(fi)
    out = set()
    for nm, ds in defs.defs.items():
        vals = [v for v, k, s in ds if k == "assign"]
        if vals and all(isinstance(v, ast.Call) and (call_name(v) in FRESH_CALLS) for v in vals) and len(vals) == len(ds):
            out.add(nm)
    return out


def run(ck, ix, tier):
    ck.rule("G-OWN", "representation fields are written only by the owning class on fresh receivers")
    ck.rule("G-PAIR", "every write of a copied container's dict is followed by a hash reset before it escapes")
    ck.rule("G-CANON", "no zero exponent survives an operation")
    uc = ix.cls(U, "UnitsContainer")
    ph = ix.cls(U, "ParserHelper")
    owners = {uc, ph}
    # ------------------------------------------------------------ (a) who may write
    n_writes = 0
    for f in ix.all_functions():
        if not isinstance(f.node, (ast.FunctionDef, ast.AsyncFunctionDef)):
            continue
        for (p, kind, node) in writes_in(f.node):
            parts = p.split(".")
            fld = None
            # attribute store X.<field> = ...   or   item/mutator write on X.<field>
            if kind.endswith("attr-store") or kind == "attr-del":
                if parts[-1] in REPR_FIELDS:
                    fld, recv = parts[-1], ".".join(parts[:-1])
            else:
                if parts[-1] in ("_d",):
                    fld, recv = parts[-1], ".".join(parts[:-1])
            if fld is None:
                continue
            if f.cls not in owners and fld not in ("_d", "_hash"):
                # `scale`, `_one`, `_non_int_type` are also attribute names of converters / registries:
                # outside the owning classes only the distinctive fields are attributed to containers
                continue
            n_writes += 1
            key = f"{f.qualname.split('::')[1]}|{recv}.{fld}"
            if f.cls not in owners:
                ck.fail("G-OWN", f"repr-field-written-outside-owner|{key}", f.loc(node),
                        f"`{norm(node).splitlines()[0]}` writes the representation field `{fld}` of a units container outside UnitsContainer/ParserHelper")
                continue
            fresh = _fresh_vars(f)
            ok = False
            why = ""
            if recv == "self":
                ok = f.name in ("__init__", "__setstate__") or (f.name == "__hash__" and fld == "_hash")
                why = "constructor/state restore/memo fill"
            elif recv in fresh:
                ok, why = True, "receiver is fresh in this function"
            elif f.name == "from_string" and recv in {norm(r.value) for r in walk_local(f.node) if isinstance(r, ast.Return) and isinstance(r.value, ast.Name)} \
                    and all(isinstance(v, ast.Call) and call_name(v) in ("evaluate", "cls") for v, k, s_ in defs_of(f).defs.get(recv, []) if v is not None):
                # the name that is returned and that only ever holds the fresh result of the evaluation / a fresh cls(...)
                ok, why = True, "frozen exception: from_string edits the private result of the evaluation before returning it"
            ck.check(ok, "G-OWN", f"copy-on-write|{key}", f.loc(node), why,
                     f"`{norm(node).splitlines()[0]}` writes `{recv}.{fld}`, and `{recv}` is not an object created in this function (operand mutated / shared storage)")
    ck.floor("G-OWN", n_writes, 10, "writes of representation fields in UnitsContainer/ParserHelper")
    # __copy__ must not share the dict
    for ci in (uc,):
        f = ci.methods["__copy__"]
        ck.analysed(f)
        for a in walk_local(f.node):
            if isinstance(a, ast.Assign) and any(dotted(t) and dotted(t).endswith("._d") for t in a.targets):
                v = a.value
                ok = isinstance(v, ast.Call) and call_name(v) in ("copy", "udict", "dict")
                ck.check(ok, "G-OWN", "UnitsContainer.__copy__|dict-copied-not-shared", f.loc(a), "the exponent dict is copied",
                         f"`{norm(a)}` shares the exponent dict between the copy and the original")
    # from_string is lru_cached: callers must not mutate what it returns
    for f in ix.all_functions():
        if not isinstance(f.node, (ast.FunctionDef, ast.AsyncFunctionDef)) or f.name == "from_string":
            continue
        defs = defs_of(f)
        shared = {nm for nm, ds in defs.defs.items() if any(v is not None and isinstance(v, ast.Call) and call_name(v) == "from_string" and "ParserHelper" in norm(v.func) for v, k, s in ds)}
        for (p, kind, node) in writes_in(f.node):
            if p.split(".")[0] in shared:
                ck.fail("G-OWN", f"from_string-result-mutated|{f.qualname}", f.loc(node), f"`{norm(node)}` mutates the shared (lru_cached) result of ParserHelper.from_string")

    # ------------------------------------------------------------ (b) hash invalidation
    n_inv = 0
    for ci in (uc, ph):
        for m in ci.methods.values():
            if not isinstance(m.node, ast.FunctionDef):
                continue
            defs = defs_of(m)
            copies = {nm for nm, ds in defs.defs.items() if any(v is not None and isinstance(v, ast.Call) and call_name(v) in ("copy", "__copy__") for v, k, s in ds)}
            if not copies:
                continue
            cfg = cfg_of(m)
            for var in sorted(copies):
                wnodes = []
                for (p, kind, node) in writes_in(m.node):
                    if p == f"{var}._d":
                        wnodes += cfg.nodes_for_ast(node)
                if not wnodes:
                    continue
                ck.analysed(m)
                gates = [n.id for n in cfg.nodes if n.kind == "stmt" and isinstance(n.ast, ast.Assign) and any(dotted(t) == f"{var}._hash" for t in n.ast.targets) and norm(n.ast.value) == "None"]
                rets = [r for r in return_nodes(cfg) if cfg.nodes[r].ast.value is not None and var in {x.id for x in ast.walk(cfg.nodes[r].ast.value) if isinstance(x, ast.Name)}]
                for w in live(cfg, sorted(set(wnodes))):
                    n_inv += 1
                    bad = None
                    if w not in gates:
                        for r in rets:
                            p = _path_normal(cfg, w, r, gates)
                            if p:
                                bad = p
                    ck.check(bad is None, "G-PAIR", f"{ci.name}.{m.name}|hash-reset-after-write-of-{var}._d", m.loc(cfg.nodes[w].ast),
                             "the copied hash is reset before the modified copy is returned",
                             f"`{cfg.nodes[w].text()}` modifies the copy's exponents and a path returns it with the original's cached hash (== and hash would disagree with the contents)",
                             witness(cfg, bad))
    ck.floor("G-PAIR", n_inv, 3, "writes of a copied container's dict")
    f = uc.methods["__setstate__"]
    ck.check(any(isinstance(a, ast.Assign) and any(dotted(t) == "self._hash" for t in a.targets) and norm(a.value) == "None" for a in walk_local(f.node)),
             "G-PAIR", "UnitsContainer.__setstate__|hash-reset", f.loc(), "restored state starts without a cached hash", "__setstate__ no longer resets the cached hash")
    f = uc.methods["__init__"]
    ck.check(any(isinstance(a, ast.Assign) and any(dotted(t) == "self._hash" for t in a.targets) and norm(a.value) == "None" for a in walk_local(f.node)),
             "G-PAIR", "UnitsContainer.__init__|hash-unset", f.loc(), "new containers start without a cached hash", "__init__ no longer initialises _hash to None")
    # hash memo: computed from the items
    f = uc.methods["__hash__"]
    ck.analysed(f)
    src = norm(f.node)
    hs = [c for c in walk_local(f.node) if isinstance(c, ast.Call) and isinstance(c.func, ast.Name) and c.func.id == "hash"]
    stores = [a for a in walk_local(f.node) if isinstance(a, ast.Assign) and any(norm(t) == "self._hash" for t in a.targets)]
    okh = len(hs) == 1 and norm(hs[0]) == "hash(frozenset(self._d.items()))" and len(stores) == 1 and stores[0].value is hs[0] and "is None" in src
    ck.check(okh, "G-PROV", "UnitsContainer.__hash__|over-items", f.loc(),
             "hash over the (name, exponent) items, memoised", "the container hash is no longer hash(frozenset(items))")

    # ------------------------------------------------------------ (c) canonical form
    n_can = 0
    for ci in (uc, ph):
        for m in ci.methods.values():
            if not isinstance(m.node, ast.FunctionDef):
                continue
            for a in walk_local(m.node):
                if not (isinstance(a, ast.AugAssign) and isinstance(a.target, ast.Subscript)):
                    continue
                tv = a.target.value
                if isinstance(tv, ast.Name) and defs_of(m).single(tv.id) is not None:
                    tv = defs_of(m).single(tv.id)                       # `exponents = new._d` is an alias of the table
                tgt = dotted(tv) or dotted(a.target.value)
                if tgt is None or not (tgt.endswith("._d") or tgt == "d"):
                    continue
                n_can += 1
                ck.analysed(m)
                key = f"{ci.name}.{m.name}|{norm(a.target)}"
                if isinstance(a.op, (ast.Add, ast.Sub)):
                    par = getattr(a, "_parent", None)
                    body = None
                    for fld in ("body", "orelse", "finalbody"):
                        b = getattr(par, fld, None)
                        if isinstance(b, list) and a in b:
                            body = b
                    nxt = body[body.index(a) + 1] if body and body.index(a) + 1 < len(body) else None
                    ok = isinstance(nxt, ast.If) and norm(nxt.test).replace(" ", "") in (f"{norm(a.target)}==0".replace(" ", ""), f"not{norm(a.target)}".replace(" ", "")) \
                        and any(isinstance(d, ast.Delete) and norm(d.targets[0]) == norm(a.target) for d in nxt.body) or \
                        (isinstance(nxt, ast.If) and any(isinstance(c, ast.Call) and call_name(c) == "pop" and norm(c.func.value) == norm(a.target.value) for c in ast.walk(nxt)))
                    ck.check(ok, "G-CANON", f"additive-update-removes-zero|{key}", m.loc(a), "a zero sum is removed right after the update",
                             f"`{norm(a)}` is not followed by the removal of a zero exponent (a zero-exponent entry survives: u/u would not be dimensionless)")
                elif isinstance(a.op, ast.Mult):
                    # must be on the not-zero edge of a test of the factor against 0
                    factor = norm(a.value)
                    guarded = False
                    p = getattr(a, "_parent", None)
                    child = a
                    while p is not None and not isinstance(p, ast.FunctionDef):
                        if isinstance(p, ast.If) and child in p.orelse and f"{factor} == 0" in norm(p.test):
                            clears = any(isinstance(c, ast.Call) and call_name(c) == "clear" for s_ in p.body for c in ast.walk(s_))
                            guarded = clears
                        if isinstance(p, ast.If) and child in p.body and f"{factor} != 0" in norm(p.test):
                            guarded = True
                        child, p = p, getattr(p, "_parent", None)
                    ck.check(guarded, "G-CANON", f"multiplicative-update-excludes-zero-factor|{key}", m.loc(a),
                             "exponents are only scaled by a non-zero factor; a zero factor clears the container",
                             f"`{norm(a)}` can scale exponents by 0 and keep the zero entries (u ** 0 would not be dimensionless)")
                else:
                    ck.check(False, "G-CANON", f"exponent-update-kind|{key}", m.loc(a), "", f"unrecognised exponent update `{norm(a)}`")
    ck.floor("G-CANON", n_can, 2, "in-place exponent updates")
    # add(): store only non-zero, remove with default
    f = uc.methods["add"]
    ck.analysed(f)
    stores = [a for a in walk_local(f.node) if isinstance(a, ast.Assign) and any(isinstance(t, ast.Subscript) and (dotted(t.value) or "").endswith("._d") for t in a.targets)]
    ck.floor("G-CANON", len(stores), 1, "exponent store in UnitsContainer.add")
    for a in stores:
        par = getattr(a, "_parent", None)
        ok = isinstance(par, ast.If) and a in par.body and norm(par.test) in (norm(a.value), f"{norm(a.value)} != 0")
        ck.check(ok, "G-CANON", "UnitsContainer.add|stores-only-nonzero", f.loc(a), "the sum is stored only when non-zero", f"`{norm(a)}` can store a zero exponent")
        if isinstance(par, ast.If):
            pops = [c for s_ in par.orelse for c in ast.walk(s_) if isinstance(c, ast.Call) and call_name(c) == "pop"]
            dels = [d for s_ in par.orelse for d in ast.walk(s_) if isinstance(d, ast.Delete)]
            ck.check(bool(pops) or bool(dels), "G-CANON", "UnitsContainer.add|zero-sum-removes-entry", f.loc(par), "a zero sum removes the entry", "a zero sum leaves the old entry in place")
            for c in pops:
                ck.check(len(c.args) == 2, "G-CANON", "UnitsContainer.add|removal-tolerates-absent-key", f.loc(c), "pop with a default: the key may be absent",
                         f"`{norm(c)}` raises KeyError when the key is absent (adding exponent 0 of a new unit, e.g. parse_units('m**0'))")
            ck.check(not dels, "G-CANON", "UnitsContainer.add|removal-tolerates-absent-key(del)", f.loc(par), "no bare del", "a bare `del` raises KeyError when the key is absent")
    # the summand is normalised to the container's numeric type
    nv = [a for a in walk_local(f.node) if isinstance(a, ast.Assign) and norm(a.targets[0]) == "newval"]
    for a in nv:
        ck.check("self._d[key]" in norm(a.value) and "value" in norm(a.value) and isinstance(a.value, ast.BinOp) and isinstance(a.value.op, ast.Add), "G-PROV", "UnitsContainer.add|sum-of-old-and-new", f.loc(a),
                 "new exponent = old + value", f"`{norm(a)}` is not old exponent + value")
    # operate(): cleanup
    f = ph.methods["operate"]
    ck.analysed(f)
    src = norm(f.node)
    ck.check("if cleanup:" in src and "value == 0" in src and "del d[key]" in src, "G-CANON", "ParserHelper.operate|zero-cleanup", f.loc(),
             "zero exponents are deleted after operating", "ParserHelper.operate no longer deletes zero exponents")
    dflt = f.node.args.defaults
    ck.check(any(isinstance(d, ast.Constant) and d.value is True for d in dflt), "G-CANON", "ParserHelper.operate|cleanup-default-true", f.loc(), "cleanup defaults to True", "cleanup no longer defaults to True")
    for g in ix.all_functions():
        for c in walk_local(g.node) if isinstance(g.node, (ast.FunctionDef, ast.AsyncFunctionDef)) else []:
            if isinstance(c, ast.Call) and call_name(c) == "operate" and any(k.arg == "cleanup" and norm(k.value) != "True" for k in c.keywords):
                ck.fail("G-CANON", f"ParserHelper.operate|caller-disables-cleanup|{g.qualname}", g.loc(c), f"`{norm(c)}` disables the zero-exponent cleanup")
    # __init__ does not filter zeros by itself: constructors from computed dicts must filter (infer_base_unit, registry accumulators)
    for mod, qual, what in (("pint.util", "infer_base_unit", "nonzero_dict"),):
        g = ix.func(mod, qual)
        ck.analysed(g)
        comps = [c for c in walk_local(g.node) if isinstance(c, ast.DictComp)]
        ok = any(any("!= 0" in norm(i) for i in gen.ifs) for c in comps for gen in c.generators)
        ck.check(ok, "G-CANON", f"{qual}|zero-exponents-filtered", g.loc(), "zero powers are filtered before building the container", f"{qual} can build a container with zero exponents")

    # ------------------------------------------------------------ (d) eq/hash agreement, delegation
    def self_attrs(fn):
        return {n.attr for n in walk_local(fn.node) if isinstance(n, ast.Attribute) and dotted(n.value) in ("self",)}
    for ci in (uc, ph):
        h, e = ci.methods.get("__hash__"), ci.methods.get("__eq__")
        if h is None or e is None:
            continue
        ha = self_attrs(h) - {"_hash"}
        ea = self_attrs(e) | ({"_d"} if "__hash__" in norm(e.node) or "super().__eq__" in norm(e.node) else set())
        if ci is ph:
            ea |= self_attrs(uc.methods["__eq__"]) | {"_d"}
            ha |= set()
        ck.check(ha <= ea, "G-PROV", f"{ci.name}|hash-fields-subset-of-eq-fields", h.loc(), f"hash reads {sorted(ha)}, eq reads {sorted(ea)}",
                 f"{ci.name}.__hash__ depends on {sorted(ha - ea)}, which __eq__ ignores: equal containers could hash differently")
    e = uc.methods["__eq__"]
    ck.analysed(e)
    ck.check("dict.__eq__(self._d, other)" in norm(e.node), "G-PROV", "UnitsContainer.__eq__|compares-all-items", e.loc(), "equality compares the exponent dicts", "__eq__ no longer compares the full exponent dicts")
    pu = ix.cls("pint.facets.plain.unit", "PlainUnit")
    for name, op in (("__mul__", ast.Mult), ("__truediv__", ast.Div), ("__pow__", ast.Pow)):
        f = pu.methods[name]
        ck.analysed(f)
        found = False
        for c in walk_local(f.node):
            if isinstance(c, ast.Call) and norm(c.func) == "self.__class__" and c.args and isinstance(c.args[0], ast.BinOp):
                b = c.args[0]
                if norm(b.left) == "self._units":
                    found = True
                    right_ok = norm(b.right) in ("other._units", "other")
                    ck.check(isinstance(b.op, op) and right_ok, "G-TWIN", f"PlainUnit.{name}|delegates-to-container-operator", f.loc(c),
                             f"Unit.{name} is the container's {name}", f"`{norm(c)}` does not apply the container's `{name}` to (self._units, other)")
        ck.check(found, "G-TWIN", f"PlainUnit.{name}|delegation-present", f.loc(), "delegates to the container", f"PlainUnit.{name} no longer builds its result from self._units <op> other")
    f = pu.methods["__hash__"]
    ck.check("self._units.__hash__()" in norm(f.node) or "hash(self._units)" in norm(f.node), "G-TWIN", "PlainUnit.__hash__|delegates", f.loc(), "hash of the container", "PlainUnit.__hash__ no longer hashes self._units")
    f = pu.methods["__eq__"]
    ck.check("self._units == other._units" in norm(f.node), "G-TWIN", "PlainUnit.__eq__|delegates", f.loc(), "units compared by container equality", "PlainUnit.__eq__ no longer compares the containers")
    f = pu.methods["__rtruediv__"]
    ck.check("1 / self._units" in norm(f.node) and "other / self._units" in norm(f.node), "G-TWIN", "PlainUnit.__rtruediv__|reciprocal", f.loc(), "reflected division inverts the container", "PlainUnit.__rtruediv__ no longer inverts self._units")
    f = uc.methods["__rtruediv__"]
    ck.check("self ** (-1)" in norm(f.node) or "self ** -1" in norm(f.node), "G-TWIN", "UnitsContainer.__rtruediv__|reciprocal", f.loc(), "1/u == u**-1", "UnitsContainer.__rtruediv__ is no longer u ** -1")
    # multiplication adds, division subtracts
    for name, op in (("__mul__", ast.Add), ("__truediv__", ast.Sub)):
        f = uc.methods[name]
        augs = [a for a in walk_local(f.node) if isinstance(a, ast.AugAssign) and isinstance(a.target, ast.Subscript)]
        for a in augs:
            ck.check(isinstance(a.op, op), "G-TWIN", f"UnitsContainer.{name}|exponent-arithmetic", f.loc(a), f"{name} {'adds' if op is ast.Add else 'subtracts'} exponents",
                     f"`{norm(a)}`: {name} must {'add' if op is ast.Add else 'subtract'} exponents")
        loops = [l for l in walk_local(f.node) if isinstance(l, ast.For)]
        for l in loops:
            ck.check("other.items()" in norm(l.iter), "G-TWIN", f"UnitsContainer.{name}|iterates-other", f.loc(l), "iterates over the other operand's items", f"`{norm(l.iter)}` is not the other operand's items")

    # ------------------------------------------------------------ exact arithmetic in the pi theorem
    for q in ("pi_theorem", "column_echelon_form"):
        f = ix.func(U, q)
        ck.analysed(f)
        bad = [n for n in walk_local(f.node) if (isinstance(n, ast.BinOp) and isinstance(n.op, ast.FloorDiv)) or
               (isinstance(n, ast.AugAssign) and isinstance(n.op, ast.FloorDiv)) or
               (isinstance(n, ast.Call) and call_name(n) in ("int", "round", "floor", "ceil", "trunc", "float") and n.args)]
        ck.check(not bad, "G-PROV", f"{q}|exact-rational-arithmetic", f.loc(bad[0]) if bad else f.loc(), "only exact rational operations on exponents",
                 f"`{norm(bad[0]) if bad else ''}` floors/rounds a rational exponent: the returned monomials need no longer be dimensionless")
    f = ix.func(U, "pi_theorem")
    src = norm(f.node)
    # a row contributes a monomial only if every element of its echelon part is 0: the `any(el != 0 ...)` test excludes the
    # row - as a `continue` guard in the loop or as a (negated) filter of a comprehension
    from .. import shape as _sh4
    anys = [c for c in ast.walk(f.node) if isinstance(c, ast.Call) and isinstance(c.func, ast.Name) and c.func.id == "any" and c.args and isinstance(c.args[0], ast.GeneratorExp)
            and isinstance(c.args[0].elt, ast.Compare) and isinstance(c.args[0].elt.ops[0], ast.NotEq) and norm(c.args[0].elt.comparators[0]) == "0"]
    okn = False
    for c in anys:
        par = getattr(c, "_parent", None)
        neg = isinstance(par, ast.UnaryOp) and isinstance(par.op, ast.Not)
        holder = getattr(par, "_parent", None) if neg else par
        if isinstance(holder, ast.comprehension):
            okn = okn or neg                                   # [... if not any(el != 0 ...)]
        elif isinstance(holder, ast.If):
            side = holder.orelse if neg else holder.body       # statements executed when some element is non-zero
            okn = okn or any(isinstance(x, ast.Continue) for st in side for x in ast.walk(st))
    ck.check(okn, "G-PROV", "pi_theorem|only-null-rows", f.loc(), "only rows whose echelon part vanishes are returned", "pi_theorem no longer selects exactly the null rows")
    from .. import memo as _memo
    _memo.rule_quantity_dimensionality_memo(ck, ix)
    _memo.rule_unit_dimensionality_memo(ck, ix)
    return EXPLANATION


def _path_normal(cfg, start, goal, gates):
    """normal-edge path start -> goal avoiding gates"""
    from collections import deque
    gates = set(gates)
    prev = {start: None}
    dq = deque([start])
    while dq:
        u = dq.popleft()
        if u == goal and u != start:
            out = []
            while u is not None:
                out.append(u)
                u = prev[u]
            return out[::-1]
        for (v, lab) in cfg.succ[u]:
            if lab == "exc" or v in prev or v in gates:
                continue
            prev[v] = u
            dq.append(v)
    return None
