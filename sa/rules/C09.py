"""C09 — every textual format denotes the unit exactly; plain-text formats round-trip."""
from __future__ import annotations

import ast

from .. import shape
from ..flow import call_name, dotted, norm, writes_in
from ..index import AnalysisError, walk_local
from ..lib import cfg_of, defs_of, nodes_with, witness
from .C07 import _alternatives, _flow_into, _m, _reaches, _rm, _selected_by

FP = "pint.delegates.formatter.plain"
FL = "pint.delegates.formatter.latex"
FH = "pint.delegates.formatter.html"
FF = "pint.delegates.formatter.full"
FHELP = "pint.delegates.formatter._format_helpers"

EXPLANATION = (
    "Static analysis (no execution): G-TABLE writer/reader agreement — the layout parameters each built-in formatter "
    "class passes to the term joiner (product, division, power, parentheses, single denominator, exponent renderer) "
    "are extracted and compared with the documented spelling of that format, the plain-text spellings are operators of "
    "the expression parser (after string_preprocessor), the pretty exponent alphabet written by pretty_fmt_exponent is "
    "exactly the one translated back by util._pretty_table/_pretty_exp_re, a \\frac layout always collects a single "
    "denominator; the term joiner renders |exponent| in ratios, omits exponent 1, puts negative exponents in the "
    "denominator and writes '1' for an empty numerator, and join_mu drops it again; G-EXH dispatch order (no format "
    "key precedes a key containing it; flags sorted longest first) and interface completeness (the seven built-in "
    "formatter classes each define format_magnitude/unit/quantity/uncertainty/measurement); G-OWN purity (nothing in the "
    "formatter package or in __format__/__str__/__repr__ writes the magnitude or units of its argument); memo "
    "discipline of the format helpers (the set of lru_cached helpers is the triaged one). Does not decide any rendered "
    "string or round-trip equality.")
EXPLANATION += " Also decided (rules added after the second round of seeded changes): the sort functions' keys are total (no raise for a resolvable unit) and dim_order is a well-formed table containing the '[]' sentinel."
EXPLANATION += " Also decided (round 5): the compact modifier '#' is looked for in the defaulted spec (`spec or default_format`) of FullFormatter.format_quantity / format_measurement; the `~` formats take each symbol from the canonical unit's own definition (registry._get_symbol == _units[name].symbol), never by re-parsing the name."
EXPLANATION += " Also decided (round 8): on the CFG of every 'n'-format site of an exponent, no path carries an unmapped Fraction (every Fraction, integral or not, is mapped to int/float first)."

# documented layouts (docs/user/formatting.rst and the docstrings of the format classes)
LAYOUT = {
    "DefaultFormatter": dict(as_ratio="True", single_denominator="False", product_fmt="'{} * {}'", power_fmt="'{} ** {}'", parentheses_fmt="'({})'", division="'{} / {}'"),
    "CompactFormatter": dict(as_ratio="True", single_denominator="False", product_fmt="'*'", power_fmt="'{}**{}'", parentheses_fmt="'({})'", division="'{}/{}'"),
    "PrettyFormatter": dict(as_ratio="True", single_denominator="False", product_fmt="'·'", power_fmt="'{}{}'", parentheses_fmt="'({})'", division="'{}/{}'", exp_call="pretty_fmt_exponent"),
    "HTMLFormatter": dict(as_ratio="True", single_denominator="True", product_fmt="' '", power_fmt="'{}<sup>{}</sup>'", parentheses_fmt="'({})'", division="'{}/{}'"),
    "LatexFormatter": dict(as_ratio="True", single_denominator="True", product_fmt="' \\\\cdot '", power_fmt="'{}^[{}]'", parentheses_fmt="'\\\\left({}\\\\right)'", division="'\\\\frac[{}][{}]'"),
}
MODS = {"DefaultFormatter": FP, "CompactFormatter": FP, "PrettyFormatter": FP, "RawFormatter": FP, "HTMLFormatter": FH, "LatexFormatter": FL, "SIunitxFormatter": FL}
IFACE = ("format_magnitude", "format_unit", "format_quantity", "format_uncertainty", "format_measurement")



def _digit_to_superscript_patterns(loop):
    """For a loop that pairs every decimal digit with its entry of _PRETTY_EXPONENTS - `for d in range(10)` (or
    range(len(table))) with table[d], `for d, p in enumerate(table)`, `for ch, p in zip('0123456789', table)` - the
    patterns of the rewrite `_S.replace(<digit text>, <superscript>)` in terms of the loop's own variables; [] otherwise."""
    t, it = loop.target, loop.iter
    names = [e.id for e in t.elts] if isinstance(t, ast.Tuple) and all(isinstance(e, ast.Name) for e in t.elts) else None
    if isinstance(t, ast.Name) and norm(it) in ("range(10)", "range(len(_PRETTY_EXPONENTS))"):
        return [f"_S.replace(str({t.id}), _PRETTY_EXPONENTS[{t.id}])"]
    if names and len(names) == 2 and _m(it, "enumerate(_PRETTY_EXPONENTS)") is not None:
        return [f"_S.replace(str({names[0]}), {names[1]})", f"_S.replace(str({names[0]}), _PRETTY_EXPONENTS[{names[0]}])"]
    if names and len(names) == 2 and _m(it, "zip('0123456789', _PRETTY_EXPONENTS)") is not None:
        return [f"_S.replace({names[0]}, {names[1]})"]
    return []


def _formatter_operands(call):
    """(numerator, denominator) operands of a formatter(...) call, positional or by keyword."""
    kw = {k.arg: k.value for k in call.keywords}
    out = list(call.args[:2])
    for name in ("numerator", "denominator")[len(out):]:
        if name in kw:
            out.append(kw[name])
    return out


def _split_half(e, fn):
    """Which elements of the pair returned by prepare_compount_unit(...) the expression `e` derives from (after
    resolving local names, including re-bound ones and generator expressions over them): {0}, {1}, ..."""
    r = shape.resolve(e, fn, depth=8)
    out = set()
    for x in ast.walk(r):
        if isinstance(x, ast.Subscript) and isinstance(x.value, ast.Call) and call_name(x.value) == "prepare_compount_unit" and isinstance(x.slice, ast.Constant):
            out.add(x.slice.value)
    return out


def sort_functions_total_rule(ck, ix):
    """'Formatting never fails on a valid object', for every sort function: the sort keys are total (no explicit raise
    for a unit the registry can resolve) and the dimension-order table is a duplicate-free tuple of [dimension] names
    that contains the '[]' sentinel the key uses for dimensionless units."""
    CU = "pint.delegates.formatter._compound_unit_helpers"
    m = ix.module(CU)
    n = 0
    SORTS = ("sort_by_unit_name", "sort_by_display_name", "sort_by_dimensionality")
    for f in m.all_functions:
        # the sort functions and the key functions defined inside them (found as "nested in a sort function and passed as
        # key=": their names are local names; reported under the canonical label sort_key)
        par = getattr(f, "parent", None)
        is_key = par is not None and par.name in SORTS and isinstance(f.node, ast.FunctionDef) and any(isinstance(k.value, ast.Name) and k.value.id == f.name for c in walk_local(par.node) if isinstance(c, ast.Call) for k in c.keywords if k.arg == "key")
        if f.name in SORTS or is_key:
            n += 1
            ck.analysed(f)
            raises = [r for r in walk_local(f.node) if isinstance(r, ast.Raise)]
            label = f"{par.name}.<locals>.sort_key" if is_key else f.qualname.split('::')[1]
            ck.check(not raises, "G-EXH", f"{label}|total", f.loc(raises[0]) if raises else f.loc(), "the sort key is defined for every unit",
                     f"`{norm(raises[0]) if raises else ''}`: a sort key that raises makes formatting fail for valid units (e.g. units of a dimension the order table does not list)")
    ck.floor("G-EXH", n, 3, "sort functions")
    ff = ix.cls("pint.delegates.formatter.full", "FullFormatter")
    tbl = None
    for a in ff.node.body:
        if isinstance(a, (ast.Assign, ast.AnnAssign)) and norm(a.targets[0] if isinstance(a, ast.Assign) else a.target) == "dim_order":
            tbl = a.value
    ok = isinstance(tbl, (ast.Tuple, ast.List)) and all(isinstance(e, ast.Constant) and isinstance(e.value, str) for e in tbl.elts)
    ck.check(ok, "G-TABLE", "FullFormatter.dim_order|literal-table", ff.module.relpath, "a literal table of dimension names", "dim_order is no longer a literal tuple of strings")
    if ok:
        vals = [e.value for e in tbl.elts]
        ck.check(len(set(vals)) == len(vals) and all(v.startswith("[") and v.endswith("]") for v in vals), "G-TABLE", "FullFormatter.dim_order|well-formed", ff.module.relpath, "no duplicates, only [dimension] names", f"dim_order is malformed: {vals}")
        ck.check("[]" in vals, "G-TABLE", "FullFormatter.dim_order|dimensionless-sentinel", ff.module.relpath, "contains the '[]' entry used for dimensionless units", "dim_order lost its '[]' entry: dimensionless units (radian, count, percent) have no position in the dimensional order")


def exponent_renderer_rule(ck, ix):
    """'Formatting never fails ... for float, Decimal and Fraction registries alike': exponents are Fractions in a
    Fraction registry and Fraction has no 'n' presentation type.  Every place that renders an exponent with the 'n'
    format goes through a function that first maps a Fraction to int/float; the default exponent renderer of the term
    joiner and the pretty renderer use it."""
    FHm = "pint.delegates.formatter._format_helpers"
    n = 0
    for mod in (FHm, "pint.formatting", "pint.delegates.formatter.plain", "pint.delegates.formatter.html", "pint.delegates.formatter.latex", "pint.delegates.formatter.full"):
        m = ix.module(mod)
        # (a) defaults of exp_call parameters
        for f in m.all_functions:
            if not isinstance(f.node, (ast.FunctionDef, ast.AsyncFunctionDef)):
                continue
            args = f.node.args
            allargs = args.args + args.kwonlyargs
            defaults = [None] * (len(args.args) - len(args.defaults)) + list(args.defaults) + list(args.kw_defaults)
            for a, dflt in zip(allargs, defaults):
                if a.arg == "exp_call" and dflt is not None:
                    n += 1
                    ck.check("{:n}" not in norm(dflt), "G-EXH", f"exponent-renderer|{mod.split('.')[-1]}.{f.name}|default-accepts-every-exponent-type", f.loc(dflt), f"default exponent renderer `{norm(dflt)}`",
                             f"the default exponent renderer `{norm(dflt)}` applies the 'n' format directly: a Fraction exponent (non_int_type=Fraction registries) raises ValueError, so str(unit) fails")
            # (b) f-strings with :n applied to a parameter named like an exponent
            for js in walk_local(f.node):
                if isinstance(js, ast.FormattedValue) and js.format_spec is not None and norm(js.format_spec) in ("f'n'", "'n'") and isinstance(js.value, ast.Name):
                    guard = any(isinstance(c, ast.Call) and call_name(c) == "isinstance" and len(c.args) == 2 and norm(c.args[0]) == js.value.id and "Fraction" in norm(c.args[1]) for c in walk_local(f.node))
                    if f.name in ("format_number",):
                        continue  # magnitudes: dispatched on type before formatting
                    n += 1
                    ck.check(guard, "G-EXH", f"exponent-renderer|{mod.split('.')[-1]}.{f.name}|n-format-guarded-for-Fraction", f.loc(js), "a Fraction is mapped to int/float before the 'n' format",
                             f"`{{{js.value.id}:n}}` in {f.name} is applied without mapping a Fraction first: exponents of Fraction registries cannot be rendered")
                    if guard:
                        # on the CFG: EVERY Fraction is mapped - a path from the entry to the format site that neither
                        # re-binds the name nor takes an edge on which `isinstance(name, Fraction)` is known false
                        # carries an unmapped Fraction into the 'n' format (e.g. only non-integral ones are converted)
                        from .. import shape as _shf
                        cfgf = cfg_of(f)
                        nm = js.value.id
                        is_frac = lambda a_, nm=nm: isinstance(a_, ast.Call) and call_name(a_) == "isinstance" and len(a_.args) == 2 and norm(a_.args[0]) == nm and "Fraction" in norm(a_.args[1])
                        safe = _shf.guard_edges(cfgf, is_frac, want=False)
                        rebinds = [x.id for x in cfgf.nodes if x.kind == "stmt" and isinstance(x.ast, (ast.Assign, ast.AugAssign, ast.AnnAssign))
                                   and any(isinstance(t_, ast.Name) and t_.id == nm for t_ in (x.ast.targets if isinstance(x.ast, ast.Assign) else [x.ast.target]))]
                        sites = nodes_with(cfgf, lambda x, js=js: x is js)
                        pth = cfgf.path(cfgf.entry, sites, avoid=set(rebinds), avoid_edges=set(safe)) if sites else None
                        ck.check(pth is None, "G-EXH", f"exponent-renderer|{mod.split('.')[-1]}.{f.name}|every-Fraction-is-mapped", f.loc(js), "no unmapped Fraction reaches the 'n' format",
                                 f"a Fraction `{nm}` can reach `{{{nm}:n}}` without being mapped to int/float (only some Fractions are converted): Fraction.__format__ rejects 'n', so integral exponents such as m**2 of a Fraction registry cannot be formatted", witness(cfgf, pth))
    ck.floor("G-EXH", n, 2, "exponent render sites")

def run(ck, ix, tier):
    ck.rule("G-TABLE", "layout tables of the writers agree with the documented format and with the reader's alphabet")
    # ------------------------------------------------------------ (c) interface completeness
    interface_rule(ck, ix)

    # ------------------------------------------------------------ layouts
    pe = ix.module("pint.pint_eval")
    prio = pe.assigns.get("_OP_PRIORITY")
    ops = {k.value for k in prio.keys if isinstance(k, ast.Constant)} if isinstance(prio, ast.Dict) else set()
    for cn, want in LAYOUT.items():
        ci = ix.cls(MODS[cn], cn)
        fu = ci.methods.get("format_unit")
        if fu is None:
            raise AnalysisError(f"{cn}.format_unit not found")
        ck.analysed(fu)
        defs = defs_of(fu)
        calls = [c for c in walk_local(fu.node) if isinstance(c, ast.Call) and call_name(c) == "formatter" and isinstance(c.func, ast.Name)]
        if len(calls) != 1:
            raise AnalysisError(f"{cn}.format_unit: expected one formatter(...) call, found {len(calls)}")
        kw = {k.arg: k.value for k in calls[0].keywords}
        for key, val in want.items():
            if key == "division":
                got = kw.get("division_fmt")
                # default (no locale) value of the division format
                cands = [norm(got)] if got is not None else []
                if isinstance(got, ast.Name):
                    cands = [norm(v) for v, k_, s_ in defs.defs.get(got.id, []) if v is not None and isinstance(v, ast.Constant)]
                ck.check(val in cands, "G-TABLE", f"{cn}|division_fmt", fu.loc(calls[0]), f"division written as {val}", f"{cn} writes division as {cands}, documented {val}")
            else:
                got = kw.get(key)
                ck.check(got is not None and norm(got) == val, "G-TABLE", f"{cn}|{key}", fu.loc(calls[0]), f"{key}={val}", f"{cn}.format_unit passes {key}={norm(got) if got is not None else 'default'}; the documented layout needs {val}")
        div = want["division"]
        if "frac" in div:
            ck.check(norm(kw.get("single_denominator")) == "True", "G-TABLE", f"{cn}|frac-needs-single-denominator", fu.loc(calls[0]), "\\frac takes exactly two groups: the denominator is collected",
                     f"{cn} lays the ratio out with \\frac but single_denominator is not True: with two or more denominator units the terms nest as \\frac[a][\\frac[b][c]] = a*c/b")
        # prepare_compount_unit returns (numerator, denominator); the joiner takes (numerator, denominator, ...): its first
        # argument must derive from element 0 of the split and its second from element 1, whatever the locals are called
        halves = [_split_half(a, fu.node) for a in _formatter_operands(calls[0])]
        prep = [c for c in walk_local(fu.node) if isinstance(c, ast.Call) and call_name(c) == "prepare_compount_unit"]
        ck.check(halves[:2] == [{0}, {1}], "G-PROV", f"{cn}|numerator-denominator-order", fu.loc(calls[0]), "formatter(numerator, denominator, ...)",
                 f"{cn}.format_unit passes elements {[sorted(h) for h in halves[:2]]} of the (numerator, denominator) split as (numerator, denominator)")
        ck.check(len(prep) == 1 and len(halves) >= 2 and (halves[0] | halves[1]) == {0, 1}, "G-PROV", f"{cn}|split-unpacked-in-order", fu.loc(), "numerator, denominator = prepare_compount_unit(...)", f"{cn}.format_unit unpacks the numerator/denominator split in the wrong order")
    # plain-text spellings are parser operators
    for cn in ("DefaultFormatter", "CompactFormatter"):
        w = LAYOUT[cn]
        for key in ("product_fmt", "power_fmt", "division"):
            sym = w[key].strip("'").replace("{}", "").strip()
            ck.check(sym in ops, "G-TABLE", f"{cn}|{key}-is-parser-operator", MODS[cn], f"`{sym}` is an operator of the expression parser", f"{cn} writes `{sym}` for {key}, which the expression parser does not know")
    # pretty alphabet
    fh = ix.module(FHELP)
    pex = fh.assigns.get("_PRETTY_EXPONENTS")
    ck.check(isinstance(pex, ast.Constant) and pex.value == "⁰¹²³⁴⁵⁶⁷⁸⁹", "G-TABLE", "_PRETTY_EXPONENTS|digits-in-order", fh.relpath, "superscript digits 0-9 in order", f"_PRETTY_EXPONENTS is {getattr(pex, 'value', None)!r}")
    f = ix.func(FHELP, "pretty_fmt_exponent")
    ck.analysed(f)
    # both rewrites must reach the returned string: '-' -> '⁻', and, in a loop over the ten digits, str(d) -> table[d]
    sinks = [r.value for r in shape.returns_of(f.node)]
    flow = _flow_into(f.node, sinks)
    minus = any(_reaches(c, f.node, sinks, flow) for c in walk_local(f.node) if isinstance(c, ast.Call) and _m(c, "_S.replace('-', '⁻')") is not None)
    digits = False
    for loop in [l for l in walk_local(f.node) if isinstance(l, ast.For)]:
        pats = _digit_to_superscript_patterns(loop)
        for a in [a for st in loop.body for a in ast.walk(st) if isinstance(a, ast.Assign) and len(a.targets) == 1 and isinstance(a.targets[0], ast.Name)]:
            b = _m(a.value, *pats) if pats else None
            digits = digits or (b is not None and b["_S"] == a.targets[0].id and a.targets[0].id in flow)
    ck.check(minus and digits, "G-TABLE", "pretty_fmt_exponent|minus-and-digits", f.loc(),
             "minus -> ⁻, digit n -> n-th superscript, for all ten digits", "pretty_fmt_exponent no longer maps '-' to '⁻' and each of the ten digits to its superscript")
    subs = [s_ for s_ in walk_local(f.node) if isinstance(s_, ast.Subscript) and norm(s_.value) == "_PRETTY_EXPONENTS"]
    for s_ in subs:
        # index must be the loop variable of a range(10) loop (in bounds for every exponent)
        par = s_
        loop = None
        while par is not None:
            par = getattr(par, "_parent", None)
            if isinstance(par, ast.For):
                loop = par
                break
        ok = loop is not None and norm(loop.iter) in ("range(10)", "range(len(_PRETTY_EXPONENTS))") and norm(s_.slice) == norm(loop.target)
        ck.check(ok, "G-DOM", "pretty_fmt_exponent|table-index-in-bounds", f.loc(s_), "the table is only indexed by a digit 0..9",
                 f"`{norm(s_)}` indexes the ten-entry superscript table with a value that is not a single digit (formatting an exponent >= 10 would fail)")
    u = ix.module("pint.util")
    pt = u.assigns.get("_pretty_table")
    if isinstance(pt, ast.Call) and len(pt.args) == 2 and all(isinstance(a, ast.Constant) for a in pt.args):
        back = dict(zip(pt.args[0].value, pt.args[1].value))
        ok = all(back.get(ch) == str(i) for i, ch in enumerate("⁰¹²³⁴⁵⁶⁷⁸⁹")) and back.get("⁻") == "-" and back.get("·") == "*"
        ck.check(ok, "G-TABLE", "_pretty_table|inverts-the-pretty-writer", u.relpath, "reader alphabet inverts the writer alphabet (digits, ⁻, ·)", "util._pretty_table does not invert the characters the pretty formatter writes")
    pr = u.assigns.get("_pretty_exp_re")
    ck.check(pr is not None and "⁻?[⁰¹²³⁴⁵⁶⁷⁸⁹]+" in norm(pr), "G-TABLE", "_pretty_exp_re|matches-written-exponents", u.relpath, "exponent regex matches optional ⁻ and superscript digits", "_pretty_exp_re no longer matches the exponents the pretty formatter writes")

    # ------------------------------------------------------------ the term joiner
    f = ix.func(FHELP, "formatter")
    ck.analysed(f)
    from ..lib import defs_of as _defs_of
    allnodes = list(ast.walk(f.node))          # includes nested defs/lambdas: the joiner may use local helpers
    is_name = lambda x, n: isinstance(x, ast.Name) and x.id == n
    is_const = lambda x, v: (isinstance(x, ast.Constant) and x.value == v) or (isinstance(x, ast.UnaryOp) and isinstance(x.op, ast.USub) and isinstance(x.operand, ast.Constant) and -x.operand.value == v)
    as_ratio = lambda a: is_name(a, "as_ratio")
    # (a) in ratio layout exponents are rendered through abs()
    absx = [c for c in allnodes if isinstance(c, ast.Call) and is_name(c.func, "exp_call") and c.args and isinstance(c.args[0], ast.Call) and is_name(c.args[0].func, "abs")]
    ck.check(bool(absx) and all(shape.holds_at(c, f.node, as_ratio, True) for c in absx), "G-PROV", "formatter|ratio-renders-absolute-exponents", f.loc(absx[0]) if absx else f.loc(),
             "in ratio layout exponents are rendered as |exponent|", "the ratio layout no longer renders the absolute value of the exponents (a denominator term would show its minus sign)")
    plain = [c for c in allnodes if isinstance(c, ast.Call) and is_name(c.func, "exp_call") and not (c.args and isinstance(c.args[0], ast.Call) and is_name(c.args[0].func, "abs"))]
    ck.check(all(shape.holds_at(c, f.node, as_ratio, False) for c in plain), "G-PROV", "formatter|signed-exponents-only-without-ratio", f.loc(plain[0]) if plain else f.loc(), "signed exponents only in the product layout", "a signed exponent is rendered in the ratio layout")
    # (b) exponent 1 in the numerator / exponent -1 in a ratio denominator are not written
    # role: a "bare term" = the name of a term collected on its own (appended / element of the comprehension, possibly as a
    # branch of a conditional expression, not as an argument of a formatting call) in the loop / comprehension over one side; it may only occur where the exponent of the term is known to be 1 (numerator) / -1 in ratio layout
    def bare_terms(side):
        out = []
        for x in allnodes:
            if isinstance(x, (ast.For, ast.comprehension)) and any(is_name(y, side) for y in ast.walk(x.iter)) and isinstance(x.target, ast.Tuple) and len(x.target.elts) == 2 and all(isinstance(e, ast.Name) for e in x.target.elts):
                k, v = (e.id for e in x.target.elts)
                comp = getattr(x, "_parent", None)
                scope = x.body if isinstance(x, ast.For) else [getattr(comp, fld) for fld in ("elt", "key", "value") if getattr(comp, fld, None) is not None]
                for n in [n for st in scope for n in ast.walk(st) if is_name(n, k) and isinstance(n.ctx, ast.Load)]:
                    cur, par = n, getattr(n, "_parent", None)
                    while isinstance(par, ast.IfExp) and cur is not par.test:      # a branch of a conditional expression
                        cur, par = par, getattr(par, "_parent", None)
                    collected = (isinstance(par, ast.Call) and isinstance(par.func, ast.Attribute) and par.func.attr == "append" and any(cur is a for a in par.args)) \
                        or (isinstance(par, (ast.ListComp, ast.GeneratorExp, ast.SetComp)) and cur is par.elt) or isinstance(par, ast.Yield)
                    if collected:
                        out.append((n, v))
        return out
    b1 = bare_terms("numerator")
    ck.check(bool(b1) and all(shape.holds_at(n, f.node, lambda a, v=v: _m(a, f"{v} == 1", f"1 == {v}") is not None, True) for n, v in b1), "G-PROV", "formatter|exponent-one-omitted", f.loc(b1[0][0]) if b1 else f.loc(),
             "numerator terms test `exponent == 1`", "exponent 1 is no longer omitted for numerator terms")
    bm1 = bare_terms("denominator")
    okm1 = bool(bm1) and all(shape.holds_at(n, f.node, lambda a, v=v: _m(a, f"{v} == -1", f"-1 == {v}") is not None, True) and shape.holds_at(n, f.node, as_ratio, True) for n, v in bm1)
    ck.check(okm1, "G-PROV", "formatter|denominator-exponent-minus-one-omitted", f.loc(bm1[0][0]) if bm1 else f.loc(), "`exponent == -1 and as_ratio` omits the exponent in a ratio denominator", "the -1 exponent handling in the denominator changed (it must apply only in ratio layout)")
    # (c) an empty numerator is written as '1'
    one = [b for b in allnodes if isinstance(b, ast.BoolOp) and isinstance(b.op, ast.Or) and is_const(b.values[-1], "1") and isinstance(b.values[0], ast.Call) and call_name(b.values[0]) == "join_u"]
    ck.check(len(one) == 1, "G-PROV", "formatter|empty-numerator-is-one", f.loc(), "an empty numerator is written as 1", "an empty numerator is no longer written as '1'")
    # (d) the final ratio is numerator over denominator
    dfs = _defs_of(f)
    finals = [r for r in shape.returns_of(f.node) if isinstance(r.value, ast.Call) and call_name(r.value) == "join_u" and len(r.value.args) == 2 and isinstance(r.value.args[1], (ast.List, ast.Tuple)) and len(r.value.args[1].elts) == 2]
    okf = False
    for r in finals:
        x, y = r.value.args[1].elts
        xv = shape.resolve(x, f.node)
        # the numerator is the part that is written '1' when empty; it comes first, the denominator second
        okf = okf or (isinstance(xv, ast.BoolOp) and isinstance(xv.op, ast.Or) and is_const(xv.values[-1], "1") and norm(x) != norm(y) and norm(r.value.args[0]) == "division_fmt")
    ck.check(okf, "G-PROV", "formatter|numerator-over-denominator", f.loc(finals[0]) if finals else f.loc(), "join_u(division_fmt, [numerator part, denominator part])", "the ratio is no longer joined as [numerator, denominator] with the division format")
    # (e) a collected denominator of several terms is parenthesised
    par = [c for c in allnodes if isinstance(c, ast.Call) and isinstance(c.func, ast.Attribute) and c.func.attr == "format" and is_name(c.func.value, "parentheses_fmt")]
    many = lambda a: isinstance(a, ast.Compare) and len(a.ops) == 1 and isinstance(a.ops[0], ast.Gt) and is_const(a.comparators[0], 1) and isinstance(a.left, ast.Call) and call_name(a.left) == "len"
    ck.check(bool(par) and all(shape.holds_at(c, f.node, many, True) and shape.holds_at(c, f.node, lambda a: is_name(a, "single_denominator"), True) for c in par), "G-PROV", "formatter|collected-denominator-parenthesised", f.loc(par[0]) if par else f.loc(),
             "a collected denominator of more than one term is parenthesised", "a collected denominator of several terms is no longer parenthesised (only when single_denominator and len > 1)")
    its = {n for x in allnodes if isinstance(x, (ast.For, ast.comprehension)) for n in ("numerator", "denominator") if any(is_name(y, n) for y in ast.walk(x.iter))}
    ck.check(its == {"numerator", "denominator"}, "G-PROV", "formatter|terms-from-both-sides", f.loc(), "walks numerator and denominator", "formatter no longer walks both numerator and denominator")
    f = ix.func(FHELP, "join_mu")
    # where the unit string is known to start with '1 / ', what is joined is the unit string without its first two characters;
    # elsewhere the unit string itself
    starts = lambda a: _m(a, "ustr.startswith('1 / ')") is not None
    # (the unit operand of every join, with the conditions under which each of its alternatives is taken)
    joins = [c for r in shape.returns_of(f.node) for c in [shape.unalias(r.value, f.node)] if isinstance(c, ast.Call) and _m(c, "joint_fstring.format(mstr, _U)") is not None]
    alts = [alt for c in joins for alt in _alternatives(c.args[1], f.node)]
    okj = bool(alts) and _selected_by(alts, starts, lambda x: _m(x, "ustr[2:]") is not None, lambda x: _m(x, "ustr") is not None)
    ck.check(okj, "G-TABLE", "join_mu|drops-placeholder-numerator", f.loc(), "`3` and `1 / m` become `3 / m`", "join_mu no longer drops the '1' placeholder of an empty numerator")
    pc = ix.func("pint.delegates.formatter._compound_unit_helpers", "prepare_compount_unit")
    ck.analysed(pc)
    # the split is partition(<predicate>, items) with predicate = `item[1] < 0` (element 1 of an item is its exponent)
    preds = [shape.unalias(c.args[0], pc.node) for c in walk_local(pc.node) if isinstance(c, ast.Call) and call_name(c) == "partition" and len(c.args) == 2]
    by_sign = lambda l: isinstance(l, ast.Lambda) and len(l.args.args) == 1 and _m(l.body, f"{l.args.args[0].arg}[1] < 0", f"0 > {l.args.args[0].arg}[1]") is not None
    ck.check(bool(preds) and all(by_sign(l) for l in preds), "G-PROV", "prepare_compount_unit|negative-exponents-in-denominator", pc.loc(), "negative exponents go to the denominator", "the numerator/denominator split is no longer by the sign of the exponent")

    # ------------------------------------------------------------ (b) dispatch order
    ff = ix.func(FF, "FullFormatter.__init__")
    ck.analysed(ff)
    keys = []
    for a in sorted([a for a in walk_local(ff.node) if isinstance(a, ast.Assign)], key=lambda a: a.lineno):
        for t in a.targets:
            if isinstance(t, ast.Subscript) and dotted(t.value) == "self._formatters" and isinstance(t.slice, ast.Constant):
                keys.append(t.slice.value)
    ck.check(len(keys) >= 6, "G-EXH", "FullFormatter|formatters-registered", ff.loc(), f"registered format keys {keys}", f"only {keys} registered")
    bad = [(a, b) for i, a in enumerate(keys) for b in keys[i + 1:] if a in b]
    ck.check(not bad, "G-EXH", "FullFormatter|no-key-shadows-a-longer-key", ff.loc(), "no format key precedes a key that contains it",
             f"get_formatter takes the first key that is a substring of the spec: {bad} means the longer key can never be selected")
    gf = ix.func(FF, "FullFormatter.get_formatter")
    # (1) where `spec == ''` holds the 'D' formatter is returned; (2) inside a loop over self._formatters.items() the value
    # of the entry is returned where its key is known to be contained in the spec (so the first such entry wins)
    empty = lambda a: _m(a, "spec == ''", "'' == spec") is not None
    dflt = [r for r in shape.returns_of(gf.node) if _rm(r.value, gf.node, "self._formatters['D']") is not None and shape.holds_at(r, gf.node, empty, True)]
    first = []
    for loop in [l for l in walk_local(gf.node) if isinstance(l, ast.For) and _rm(l.iter, gf.node, "self._formatters.items()") is not None and isinstance(l.target, ast.Tuple) and len(l.target.elts) == 2 and all(isinstance(e, ast.Name) for e in l.target.elts)]:
        k, v = (e.id for e in loop.target.elts)
        first += [r for st in loop.body for r in ast.walk(st) if isinstance(r, ast.Return) and isinstance(r.value, ast.Name) and r.value.id == v and shape.holds_at(r, gf.node, lambda a, k=k: _m(a, f"{k} in spec") is not None, True)]
    ck.check(bool(dflt) and bool(first), "G-EXH", "get_formatter|first-contained-key-wins", gf.loc(), "empty spec -> D; else first contained key", "get_formatter's selection rule changed")
    sh = ix.module("pint.delegates.formatter._spec_helpers")
    for q in ("extract_custom_flags", "remove_custom_flags"):
        f = sh.functions[q]
        srt = []
        for c in walk_local(f.node):
            if isinstance(c, ast.Call):
                ex = shape.expand(ix, f, c)   # sees through private single-return helpers and temporaries
                for x in ast.walk(ex):
                    if isinstance(x, ast.Call) and isinstance(x.func, ast.Name) and x.func.id == "sorted" and x.args and "REGISTERED_FORMATTERS" in norm(x.args[0]):
                        kw = {k.arg: norm(k.value) for k in x.keywords}
                        srt.append(kw.get("key") == "len" and kw.get("reverse") == "True")
        ck.check(bool(srt) and all(srt), "G-EXH", f"{q}|longest-flag-first", f.loc(), "flags tried longest first", f"{q} no longer tries the longest registered flag first (Lx would be read as L + x)")
    want_cls = {"raw": "RawFormatter", "D": "DefaultFormatter", "H": "HTMLFormatter", "P": "PrettyFormatter", "Lx": "SIunitxFormatter", "L": "LatexFormatter", "C": "CompactFormatter"}
    got_cls = {}
    for a in walk_local(ff.node):
        if isinstance(a, ast.Assign) and isinstance(a.targets[0], ast.Subscript) and dotted(a.targets[0].value) == "self._formatters" and isinstance(a.value, ast.Call):
            got_cls[a.targets[0].slice.value] = call_name(a.value)
    ck.check(got_cls == want_cls, "G-TABLE", "FullFormatter|key-to-class", ff.loc(), f"{got_cls}", f"format keys map to {got_cls}; documented {want_cls}")

    # ------------------------------------------------------------ (d) purity
    n = 0
    for m in ix.modules.values():
        if not (m.name.startswith("pint.delegates.formatter") or m.name == "pint.formatting"):
            continue
        for f in m.all_functions:
            if not isinstance(f.node, (ast.FunctionDef, ast.AsyncFunctionDef)):
                continue
            n += 1
            for (p, kind, node) in writes_in(f.node):
                if p.endswith("._magnitude") or p.endswith("._units") or p.endswith("._d"):
                    ck.fail("G-OWN", f"formatting-writes-object|{f.qualname.split('::')[1]}|{p}", f.loc(node), f"`{norm(node)[:70]}` modifies the object being formatted")
            for c in walk_local(f.node):
                if isinstance(c, ast.Call) and isinstance(c.func, ast.Attribute) and c.func.attr.startswith("ito"):
                    ck.fail("G-OWN", f"formatting-converts-in-place|{f.qualname.split('::')[1]}", f.loc(c), f"`{norm(c)}` converts the object being formatted in place")
    for mod, q in (("pint.facets.plain.quantity", "PlainQuantity.__format__"), ("pint.facets.plain.quantity", "PlainQuantity.__str__"), ("pint.facets.plain.quantity", "PlainQuantity.__repr__"),
                   ("pint.facets.plain.unit", "PlainUnit.__format__"), ("pint.facets.plain.unit", "PlainUnit.__str__"), ("pint.facets.plain.unit", "PlainUnit.__repr__")):
        f = ix.func(mod, q)
        ck.analysed(f)
        n += 1
        ws = [w for w in writes_in(f.node) if w[0].startswith("self.")]
        ck.check(not ws, "G-OWN", f"{q}|pure", f.loc(), "does not write self", f"{q} writes {ws[0][0] if ws else ''}")
    ck.ok("G-OWN", "formatting|purity-scan", "pint/delegates/formatter", f"{n} formatting functions scanned for writes to the formatted object")
    for mod, q, frag in (("pint.facets.plain.quantity", "PlainQuantity.__format__", "self._REGISTRY.formatter.format_quantity(self, spec)"), ("pint.facets.plain.quantity", "PlainQuantity.__str__", "self._REGISTRY.formatter.format_quantity(self)"),
                         ("pint.facets.plain.unit", "PlainUnit.__format__", "self._REGISTRY.formatter.format_unit(self, spec)"), ("pint.facets.plain.unit", "PlainUnit.__str__", "self._REGISTRY.formatter.format_unit(self)")):
        f = ix.func(mod, q)
        rets = shape.returns_of(f.node)
        ck.check(bool(rets) and all(_rm(r.value, f.node, frag) is not None for r in rets), "G-PROV", f"{q}|delegates-to-registry-formatter", f.loc(), frag, f"{q} no longer delegates to the registry's formatter")

    # ------------------------------------------------------------ memo discipline of the format helpers
    lru_inventory_rule(ck, ix)
    sort_functions_total_rule(ck, ix)
    exponent_renderer_rule(ck, ix)
    compact_flag_rule(ck, ix)
    display_symbol_rule(ck, ix)
    return EXPLANATION


def compact_flag_rule(ck, ix):
    """FullFormatter.format_quantity / format_measurement: the compact modifier '#' is looked for in the spec that is
    actually used - the given one or, when it is empty, the formatter's default_format - so every test `'#' in S` must
    see S after the defaulting (S resolves to `<param> or self.default_format`)."""
    from .. import shape
    n = 0
    for q, param in (("FullFormatter.format_quantity", "spec"), ("FullFormatter.format_measurement", "meas_spec")):
        fi = ix.func(FF, q)
        ck.analysed(fi)
        fn = fi.node
        tests = [c for c in ast.walk(fn) if isinstance(c, ast.Compare) and len(c.ops) == 1 and isinstance(c.ops[0], (ast.In, ast.NotIn))
                 and isinstance(c.left, ast.Constant) and c.left.value == "#"]
        for t in tests:
            n += 1
            r = shape.resolve(t.comparators[0], fn)
            ok = shape.match(f"{param} or self.default_format", r) is not None or shape.match(f"{param} if {param} else self.default_format", r) is not None \
                or shape.match(f"self.default_format if not {param} else {param}", r) is not None
            ck.check(ok, "G-PROV", f"{q}|compact-flag-read-from-defaulted-spec", fi.loc(t), "'#' is looked for in `spec or default_format`",
                     f"`{norm(t)}` tests `{norm(r)}`: a '#' that comes from formatter.default_format is not seen (str(q) and format(q, default) disagree)")
    ck.floor("G-PROV", n, 2, "tests for the compact modifier '#' in FullFormatter")


def display_symbol_rule(ck, ix):
    """The `~` formats replace each canonical unit name by the symbol of THAT unit's own definition
    (registry._get_symbol(name) == registry._units[name].symbol), not by re-parsing the name (get_symbol splits
    `kilometer_per_second` into kilo + meter_per_second and concatenates symbols)."""
    from .. import shape
    fi = ix.func("pint.delegates.formatter._compound_unit_helpers", "to_symbol_exponent_name")
    ck.analysed(fi)
    rets = shape.returns_of(fi.node)
    ck.floor("G-PROV", len(rets), 1, "value returned by to_symbol_exponent_name")
    el = fi.node.args.args[0].arg
    for r in rets:
        v = shape.deep(ix, fi, r.value, fi.node)
        first = v.elts[0] if isinstance(v, ast.Tuple) and v.elts else None
        ok = first is not None and (shape.match(f"registry._get_symbol({el}[0])", first) is not None or shape.match(f"registry._units[{el}[0]].symbol", first) is not None)
        ck.check(ok, "G-PROV", "to_symbol_exponent_name|symbol-of-the-units-own-definition", fi.loc(r), "display symbol = symbol of the canonical unit's definition",
                 f"`{norm(first) if first is not None else norm(r)}` is not the symbol stored in the definition of the canonical name: names that also read as prefix + unit get a composed symbol (kilometer_per_second -> kmps)")
    g = ix.func("pint.facets.plain.registry", "GenericPlainRegistry._get_symbol")
    gr = shape.returns_of(g.node)
    nm = g.node.args.args[1].arg
    ck.check(bool(gr) and all(shape.match(f"self._units[{nm}].symbol", shape.resolve(r.value, g.node)) is not None for r in gr), "G-PROV", "_get_symbol|definition-symbol", g.loc(),
             "_get_symbol(name) is self._units[name].symbol", "_get_symbol no longer returns the symbol of the named unit's definition")


def interface_rule(ck, ix):
    for cn, mod in MODS.items():
        ci = ix.cls(mod, cn)
        for meth in IFACE:
            m = ix.find_method(ci, meth)
            own = m is not None and m.cls is not None and m.cls.name != "BaseFormatter"
            ck.check(own, "G-EXH", f"{cn}|implements-{meth}", ci.module.relpath, f"{cn}.{meth} defined", f"{cn} does not implement {meth}: formatting a {'measurement' if 'measurement' in meth or 'uncertainty' in meth else 'quantity'} with this format fails")
            if own:
                ck.analysed(m)
                params = [a.arg for a in m.node.args.args]
                ck.check(len(params) >= 3 or meth == "format_magnitude" and len(params) >= 2, "G-EXH", f"{cn}.{meth}|signature", m.loc(), f"({', '.join(params)})", f"{cn}.{meth} takes ({', '.join(params)}): FullFormatter calls it with (object, spec, ...)")


TRIAGED_LRU = {"pattern_to_regex", "from_string", "_split_format", "build_disk_cache_class", "localize_unit_name", "converter"}


def lru_inventory_rule(ck, ix):
    for f in ix.all_functions():
        if not isinstance(f.node, (ast.FunctionDef, ast.AsyncFunctionDef)):
            continue
        decos = [norm(d) for d in f.node.decorator_list]
        if any("lru_cache" in d or d in ("cache", "functools.cache") or "cached_property" in d for d in decos):
            ck.check(f.name in TRIAGED_LRU, "G-MEMO-INV", f"lru-inventory|{f.qualname.split('::')[1]}", f.loc(),
                     "memoised function is in the triaged inventory (pure in its arguments or explicitly invalidated)",
                     f"`{f.qualname}` is memoised with {decos} but is not in the triaged inventory: nothing establishes that its result only depends on its arguments (e.g. a unit symbol looked up through the registry changes when the unit is redefined)")
