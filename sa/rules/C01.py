"""C01 — conversion succeeds exactly between units of identical dimensionality.

Decides structural clauses (a) the dimensionality gate exists on every conversion path,
(b) the compatibility predicates derive their verdict from the same relation,
(c) the dimensionality memo is keyed and filled canonically.  Not the behaviour itself.
"""
from __future__ import annotations

import ast

from ..flow import call_name, dotted, norm
from .. import shape
from ..index import AnalysisError, Resolver, walk_local
from ..lib import (cfg_of, compare_parts, defs_of, differs_edge, edge_leads_only_to_raise,
                   edge_successors, find_memo_sites, is_super_call, live, names_in, node_has,
                   nodes_calling, nodes_with, own_exprs, reassigned_names, return_nodes,
                   undominated, witness)

EXPLANATION = (
    "Static analysis of /repo/pint sources (no execution): G-DOM path rules on the CFGs of the three "
    "_convert implementations in the UnitRegistry MRO and of _get_conversion_factor (dimension test "
    "dominates every factor computation / use; delegation through super()._convert), G-PROV provenance "
    "of the verdict of the compatibility predicates (== on values derived from _get_dimensionality, or "
    "to() raising DimensionalityError when contexts are involved), G-MEMO key/fill rules on "
    "_get_dimensionality. Decides these necessary structural clauses for every path of the anchored "
    "functions; does not decide that _get_dimensionality_recurse computes the right exponents.")
EXPLANATION += " Also decided (round 5): in the dimensionality recursion the combined exponent of an entry is accumulated only under that entry's own key (a base unit's reference is expanded like any other, with its exponents and derived dimensions)."

PR = "pint.facets.plain.registry"
DIM_CALLS = {"_get_dimensionality", "get_dimensionality"}


# ---------------------------------------------------------------------------------------------------------------------
# role-based helpers shared by the C01 / C02 / C17 packs.  They work on the *original* (normal-form) tree of a function,
# so reports carry real line numbers, and never on the spelling of a local name: locals are discovered by what they hold.
_MUTATED: dict = {}


def mutated_names(fn):
    """Local names of `fn` that denote an object which is changed in place (`N[k] = v`, `N[k] += v`, `del N[k]`,
    `N.add(..)` / `.append(..)` / ...): such a name is not a temporary standing for its initial value."""
    if id(fn) not in _MUTATED:
        from ..flow import MUTATORS
        out = set()
        for x in ast.walk(fn):
            if isinstance(x, ast.Subscript) and isinstance(x.ctx, (ast.Store, ast.Del)) and isinstance(x.value, ast.Name):
                out.add(x.value.id)
            elif isinstance(x, ast.Call) and isinstance(x.func, ast.Attribute) and x.func.attr in MUTATORS and isinstance(x.func.value, ast.Name):
                out.add(x.func.value.id)
        _MUTATED[id(fn)] = (fn, out)
    return _MUTATED[id(fn)][1]


def resolve(e, fn, depth=6):
    """shape.resolve that keeps the names of objects mutated in place: `seen = set(); ...; seen.add(x); ...; k in seen`
    must not read `k in set()`."""
    keep = mutated_names(fn)

    def go(x, d):
        if isinstance(x, ast.Name) and isinstance(x.ctx, ast.Load) and d > 0 and x.id not in keep:
            v = shape.dominating_def(x, fn)
            if v is not None and not isinstance(v, (ast.Lambda, ast.Yield, ast.Await)):
                return go(v, d - 1)
            return ast.Name(id=x.id, ctx=ast.Load())
        if isinstance(x, ast.AST):
            new = x.__class__()
            for f_ in x._fields:
                v = getattr(x, f_, None)
                if isinstance(v, list):
                    setattr(new, f_, [go(i, d) if isinstance(i, ast.AST) else i for i in v])
                elif isinstance(v, ast.AST):
                    setattr(new, f_, go(v, d))
                else:
                    setattr(new, f_, v)
            for a in ("lineno", "col_offset", "end_lineno", "end_col_offset"):
                if hasattr(x, a):
                    setattr(new, a, getattr(x, a))
            return new
        return x
    return go(e, depth)


def rnorm(e, fn):
    return norm(resolve(e, fn))


def find_expr(fn, pattern, within=None, deep=None):
    """[(node, bindings)]: the live expression nodes of function node `fn` (own scope, or only those inside `within`)
    that match `pattern` (shape.match syntax) as written or after resolving local temporaries (and, with
    deep=(ix, fi), after expanding module constants / single-return helpers)."""
    pat = ast.parse(pattern, mode="eval").body
    out = []
    for x in walk_local(within if within is not None else fn):
        if type(x) is not type(pat) or isinstance(x, ast.Name) or isinstance(getattr(x, "ctx", None), (ast.Store, ast.Del)):
            continue
        b = shape.match(pat, x)
        if b is None:
            b = shape.match(pat, resolve(x, fn))
        if b is None and deep is not None:
            b = shape.match(pat, shape.deep(deep[0], deep[1], x, fn))
        if b is not None and not shape.dead(x, fn):
            out.append((x, b))
    return out


def find_stores(fn, pattern, within=None):
    """[(stmt, bindings)]: the live assignments (plain, annotated or augmented) of `fn` whose target matches `pattern`
    as written or with the temporaries inside the target resolved."""
    pat = ast.parse(pattern, mode="eval").body
    out = []
    for st in walk_local(within if within is not None else fn):
        tg = st.targets if isinstance(st, ast.Assign) else [st.target] if isinstance(st, (ast.AugAssign, ast.AnnAssign)) else []
        for t in tg:
            b = shape.match(pat, t) if type(t) is type(pat) else None
            if b is None and type(t) is type(pat):
                b = shape.match(pat, resolve(t, fn))
            if b is not None and not shape.dead(st, fn):
                out.append((st, b))
    return out


def facts(node, fn):
    """shape.facts_at, with an atom that is a local flag (`is_reference = isinstance(a, str) and '=' in a`) replaced by
    the atoms of the condition the flag stands for."""
    out = []
    for a, t in shape.facts_at(node, fn):
        v = shape.unalias(a, fn) if isinstance(a, ast.Name) else a
        if v is not a and not isinstance(v, (ast.Name, ast.Constant)):
            out += list(shape.conjuncts(v, "t" if t else "f"))
        else:
            out.append((a, t))
    return out


def known(node, fn, pattern, truth, where=None):
    """Bindings of the first fact matching `pattern` (as written or resolved) that is known to be `truth` where `node`
    executes.  `where(bindings, R)` may refine: R(wildcard) is the text of what the wildcard matched with local
    temporaries resolved.  None if there is no such fact."""
    for a, t in facts(node, fn):
        if t != truth:
            continue
        b = shape.match(pattern, a)
        if b is not None:
            def R(w, a=a, b=b):
                hit = next((x for x in ast.walk(a) if isinstance(x, ast.expr) and norm(x) == b[w]), None)
                return rnorm(hit, fn) if hit is not None else b[w]
            if where is None or where(b, R):
                return b
        b = shape.match(pattern, resolve(a, fn))
        if b is not None and (where is None or where(b, lambda w, b=b: b[w])):
            return b
    return None


def closure_defs(fi, name):
    """The values assigned to the free variable `name` of `fi` in the nearest enclosing function that binds it:
    [(value, enclosing FuncInfo)]; [] if it is a parameter there or not found."""
    cur = getattr(fi, "parent", None)
    while cur is not None and isinstance(getattr(cur, "node", None), (ast.FunctionDef, ast.AsyncFunctionDef)):
        d = defs_of(cur)
        vals = [(v, cur) for (v, kind, st) in d.defs.get(name, []) if kind == "assign" and v is not None]
        if vals or name in d.params:
            return vals
        cur = getattr(cur, "parent", None)
    return []


def returned_def(fi, what):
    """The nested function that `fi` returns (`def g(...): ...` followed by `return g`), whatever it is called."""
    kids = {g.name: g for g in fi.module.all_functions if g.parent is fi}
    for r in shape.returns_of(fi.node):
        v = shape.unalias(r.value, fi.node)
        if isinstance(v, ast.Name) and v.id in kids:
            return kids[v.id]
    raise AnalysisError(f"{fi.name}: {what} (a nested function that is returned) not found")


def enclosing_iteration(node, fn):
    """(target, iterable) of the innermost `for` loop body / comprehension element that contains `node`."""
    cur = node
    while cur is not None and cur is not fn:
        par = getattr(cur, "_parent", None)
        if isinstance(par, (ast.For, ast.AsyncFor)) and any(cur is s for s in par.body):
            return par.target, par.iter
        if isinstance(par, (ast.ListComp, ast.SetComp, ast.GeneratorExp, ast.DictComp)) and not isinstance(cur, ast.comprehension) and len(par.generators) == 1:
            return par.generators[0].target, par.generators[0].iter
        cur = par
    return None


def is_signature(text, fi):
    """`text` denotes inspect.signature(<wrapped function>): the parameter `sig`, the call itself, or a closure variable
    holding it."""
    pats = ("signature(_F)", "inspect.signature(_F)")
    e = ast.parse(text, mode="eval").body
    if any(shape.match(p, e) is not None for p in pats):
        return True
    if not isinstance(e, ast.Name):
        return False
    if e.id == "sig" and e.id in defs_of(fi).params:
        return True
    return any(shape.match(p, v) is not None for v, _ in closure_defs(fi, e.id) for p in pats)


def signature_view(e, fi, lower="0"):
    """`e` (resolved) peeled down to `<signature>.parameters`: (mode, lower, text of the mapping) with mode 'names' /
    'objects' (.values()) / 'items' (.items()); order-preserving wrappers (list / tuple / iter / .keys() / islice from a
    lower bound / a `[lower:]` slice / a view prepared once by the enclosing function) are looked through.  None if
    `e` is not such a view."""
    mode = "names"
    while True:
        if isinstance(e, ast.Call) and call_name(e) in ("list", "tuple", "iter") and len(e.args) == 1 and not e.keywords:
            e = e.args[0]
        elif isinstance(e, ast.Call) and call_name(e) == "islice" and len(e.args) in (3, 4) and lower == "0" and norm(e.args[2]) == "None" and (len(e.args) == 3 or norm(e.args[3]) in ("None", "1")):
            lower, e = norm(e.args[1]), e.args[0]
        elif isinstance(e, ast.Call) and isinstance(e.func, ast.Attribute) and e.func.attr in ("keys", "values", "items") and not e.args and mode == "names":
            mode, e = {"keys": "names", "values": "objects", "items": "items"}[e.func.attr], e.func.value
        elif isinstance(e, ast.Subscript) and isinstance(e.slice, ast.Slice) and e.slice.upper is None and e.slice.step is None and lower == "0":
            lower, e = (norm(e.slice.lower) if e.slice.lower is not None else "0"), e.value
        elif isinstance(e, ast.Name) and len(closure_defs(fi, e.id)) == 1:
            (v, owner), = closure_defs(fi, e.id)        # a view prepared once by the enclosing function
            e = resolve(v, owner.node)
        else:
            break
    m = shape.match("_S.parameters", e)
    if m is None or not is_signature(m["_S"], fi):
        return None
    return mode, lower, norm(e)


def signature_walk(node, fi, npos):
    """Role: `node` is evaluated once per parameter of the wrapped function's signature, in declaration order: inside a
    loop / comprehension over `sig.parameters` or an order-preserving view of it (see signature_view; names, the
    parameter objects of `.values()` or the pairs of `.items()`), possibly enumerated, or inside an index loop
    `for i in range(lower, len(VIEW))` that reads `VIEW[i]`.
    Returns None if it is not, else (names, index, beyond, objects, aligned): the spellings (temporaries resolved) of
    the parameter's name and of its absolute position (empty if there is no counter), whether `node` is only reached for
    the parameters after the first `npos` (text, e.g. 'len(args)') ones, the spellings of the Parameter object, and
    {loop variable: sequence} for the variables of a `zip(VIEW, sequence[lower:])` that hold the item of `sequence` at
    the parameter's absolute position."""
    it = enclosing_iteration(node, fi.node)
    if it is None:
        return None
    target, e = it[0], resolve(it[1], fi.node)
    aligned = {}
    rng = shape.match("range(_L, len(_V))", e) or shape.match("range(len(_V))", e)
    if rng is not None and isinstance(target, ast.Name):
        view = signature_view(ast.parse(rng["_V"], mode="eval").body, fi)
        if view is None or view[1] != "0":
            return None
        mode, lower, mapping = view[0], rng.get("_L", "0"), view[2]
        counter, index = target.id, [target.id]
        item = f"{rng['_V']}[{counter}]"
        names, objs = {"names": ([item], [f"{mapping}[{item}]"]), "objects": ([f"{item}.name"], [item]), "items": ([f"{item}[0]", f"{item}[1].name"], [f"{item}[1]"])}[mode]
    else:
        # zip(VIEW, S[lower:], ...): the walk over VIEW; the other loop variables are aligned items of their sequences
        others = []
        if isinstance(e, ast.Call) and call_name(e) == "zip" and len(e.args) >= 2 and not any(isinstance(a_, ast.Starred) for a_ in e.args) \
                and isinstance(target, ast.Tuple) and len(target.elts) == len(e.args):
            others, target, e = list(zip(target.elts[1:], e.args[1:])), target.elts[0], e.args[0]
        enumerated, start = False, "0"
        if isinstance(e, ast.Call) and call_name(e) == "enumerate" and e.args:
            enumerated = True
            start = norm(e.args[1]) if len(e.args) > 1 else next((norm(k.value) for k in e.keywords if k.arg == "start"), "0")
            e = e.args[0]
        view = signature_view(e, fi)
        if view is None:
            return None
        mode, lower, mapping = view
        if enumerated:
            if not (isinstance(target, ast.Tuple) and len(target.elts) == 2 and isinstance(target.elts[0], ast.Name)):
                return None
            counter, element = target.elts[0].id, target.elts[1]
            # the absolute position of the parameter in terms of the counter
            index = [counter] if start == lower else [f"{lower} + {counter}", f"{counter} + {lower}"] if start == "0" else []
        else:
            counter, index, element = None, [], target
        if mode == "items":
            kp = shape.match("(_K, _P)", element)
            if kp is None:
                return None
            names, objs = [kp["_K"], f"{kp['_P']}.name"], [kp["_P"], f"{mapping}[{kp['_K']}]"]
        elif not isinstance(element, ast.Name):
            return None
        elif mode == "objects":
            names, objs = [f"{element.id}.name"], [element.id]
        else:
            names, objs = [element.id], [f"{mapping}[{element.id}]"]
        for t_, seq in others:
            sl = seq if isinstance(seq, ast.Subscript) and isinstance(seq.slice, ast.Slice) and seq.slice.upper is None and seq.slice.step is None else None
            seq_lower = "0" if sl is None else norm(sl.slice.lower) if sl.slice.lower is not None else "0"
            if isinstance(t_, ast.Name) and seq_lower == lower:
                aligned[t_.id] = norm(sl.value if sl is not None else seq)
    beyond = lower == npos
    if not beyond and lower == "0" and index == [counter]:
        beyond = any((t and norm(resolve(a, fi.node)) in (f"{counter} >= {npos}", f"{npos} <= {counter}")) or
                     (not t and norm(resolve(a, fi.node)) in (f"{counter} < {npos}", f"{npos} > {counter}")) for a, t in facts(node, fi.node))
    return names, index, beyond, objs, aligned


def reaching_defs(fi, name, use, avoid_edges=()):
    """The definitions [(value, kind, stmt)] of local `name` in `fi` that can reach the statement containing `use`
    without passing another definition of `name` (and without taking any of `avoid_edges`): flow-sensitive, so a
    definition in a branch that returns, or one that is always overwritten, does not count."""
    cfg = cfg_of(fi)
    ds = [(v, k, st) for v, k, st in defs_of(fi).defs.get(name, []) if k != "fill"]
    goal = cfg.nodes_for_ast(use)
    ids = {id(st): set(cfg.nodes_for_ast(st)) for _, _, st in ds}
    out = []
    for v, k, st in ds:
        others = set().union(*[ids[id(o)] for _, _, o in ds if o is not st] or [set()]) - ids[id(st)]
        if any(cfg.path(n, goal, avoid=others - set(goal), avoid_edges=avoid_edges) is not None for n in ids[id(st)]):
            out.append((v, k, st))
    return out


def names_it(e, fn, texts):
    """expression `e` is one of `texts`, as written or with temporaries resolved"""
    return norm(e) in texts or rnorm(e, fn) in texts


def one_per_item(owner, name, over):
    """`name`, a local of function `owner`, holds exactly one entry per item of `over`, in order: a list comprehension
    without filter over it, list(map(f, over)), or an empty list filled by one unconditional `.append(x)` in a loop
    over it.  Returns [(element expression, loop variable text)] (element None for map), or None."""
    d = defs_of(owner)
    vals = [v for v, kind, st in d.defs.get(name, []) if kind == "assign" and v is not None]
    if len(vals) != 1 or name in d.params:
        return None
    v = vals[0]
    if isinstance(v, ast.ListComp) and len(v.generators) == 1 and not v.generators[0].ifs and norm(v.generators[0].iter) == over:
        return [(v.elt, norm(v.generators[0].target))] if not additions(owner.node, name) else None
    if shape.match(f"list(map(_F, {over}))", v) is not None:
        return [(None, None)] if not additions(owner.node, name) else None
    if norm(v) in ("[]", "list()"):
        apps = [x for x, _ in find_expr(owner.node, f"{name}.append(_X)")]
        if len(apps) != 1 or len(additions(owner.node, name)) != 1:
            return None
        it = enclosing_iteration(apps[0], owner.node)
        loop = getattr(apps[0], "_parent", None)
        while loop is not None and not isinstance(loop, (ast.For, ast.AsyncFor)):
            loop = getattr(loop, "_parent", None)
        if it is None or loop is None or norm(it[1]) != over or conditional_in(getattr(apps[0], "_parent", None), loop) is not None or enclosing_iteration(loop, owner.node) is not None:
            return None
        return [(apps[0].args[0], norm(it[0]))]
    return None


def additions(fn, name):
    """The element expressions that are added to the list `name` in `fn`: x of `name.append(x)`, and of `name.extend(xs)` /
    `name += xs` the element of a comprehension xs (xs itself when it is not a comprehension)."""
    out = [x.args[0] for x, _ in find_expr(fn, f"{name}.append(_X)")]
    more = [x.args[0] for x, _ in find_expr(fn, f"{name}.extend(_X)")] + [st.value for st, _ in find_stores(fn, name) if isinstance(st, ast.AugAssign)]
    for e in more:
        e = shape.unalias(e, fn)
        out.append(e.elt if isinstance(e, (ast.GeneratorExp, ast.ListComp)) else e)
    return out


def conditional_in(node, loop):
    """The construct that makes `node` (a statement inside `loop`) conditional within one iteration: an enclosing
    if / try / while / conditional expression, or an earlier statement that can leave the iteration silently
    (continue / break / return).  None if `node` runs on every iteration that does not raise."""
    cur = node
    while cur is not None and cur is not loop:
        par = getattr(cur, "_parent", None)
        if isinstance(par, (ast.If, ast.While, ast.Try, ast.IfExp, ast.ExceptHandler)) and not (isinstance(par, ast.If) and cur is par.test):
            return par
        for fld in ("body", "orelse", "finalbody"):
            lst = getattr(par, fld, None)
            if isinstance(lst, list) and any(cur is s for s in lst):
                for st in lst[:[i for i, s in enumerate(lst) if s is cur][0]]:
                    for x in ast.walk(st):
                        if isinstance(x, (ast.Continue, ast.Break, ast.Return)):
                            return st
        cur = par
    return None


def _dim_derived(defs, e, depth=4) -> bool:
    """The expression *is* a dimensionality: `<x>.dimensionality`, a call of
    (_)get_dimensionality, or a local name all of whose definitions are."""
    if isinstance(e, ast.Attribute):
        return e.attr in ("dimensionality", "_dimensionality")
    if isinstance(e, ast.Call):
        return call_name(e) in DIM_CALLS
    if isinstance(e, ast.Name) and depth > 0:
        ds = defs.defs.get(e.id, [])
        if not ds or e.id in defs.params:
            return False
        out = True
        for v, kind, st in ds:
            if kind == "assign":
                out = out and _dim_derived(defs, v, depth - 1)
            elif kind.startswith("unpack") or kind.startswith("iter"):
                # dim1, dim2 = (self.get_dimensionality(u) for u in ...)
                calls = [c for c in ast.walk(v) if isinstance(c, ast.Call) and call_name(c) in DIM_CALLS]
                out = out and bool(calls)
            else:
                out = False
        return out
    return False


def run(ck, ix, tier):
    rs = Resolver(ix)
    ck.rule("G-DOM", "every path to the guarded construct passes the gate; the gate's failing edge only leads to raise/error return")
    ck.rule("G-PROV", "the returned verdict derives from dimensionality values compared with ==")
    ck.rule("G-MEMO-KEY", "lookup key, store key and compute argument of a memo are the same unmodified value")
    ck.rule("G-CANON", "a stored dimensionality container cannot hold '[]' or zero exponents")

    # ---------------------------------------------------------------- (a1) _get_conversion_factor
    fi = ix.func(PR, "GenericPlainRegistry._get_conversion_factor")
    ck.analysed(fi)
    cfg, defs = cfg_of(fi), defs_of(fi)
    gates = []
    for n in cfg.nodes:
        if n.kind != "test":
            continue
        cp = compare_parts(n.ast)
        if cp and differs_edge(cp[0]) and _dim_derived(defs, cp[1]) and _dim_derived(defs, cp[2]):
            # both sides must come from *different* arguments of the function (src and dst)
            gates.append((n.id, differs_edge(cp[0]), cp))
    where = fi.loc()
    if not gates:
        ck.fail("G-DOM", "conversion_factor|dim-test-present", where,
                "no comparison of two _get_dimensionality results found in _get_conversion_factor")
    else:
        gate_ids = [g[0] for g in gates]
        for gid, lab, cp in gates:
            l_roots, r_roots = defs.roots(cp[1]), defs.roots(cp[2])
            ps = set(defs.params) - {"self"}
            ok = bool((l_roots & ps) and (r_roots & ps) and (l_roots & ps) != (r_roots & ps))
            ck.check(ok, "G-PROV", "conversion_factor|dim-test-compares-src-and-dst", fi.loc(cfg.nodes[gid].ast),
                     "dimension test compares dimensionality of both arguments",
                     f"dimension test `{norm(cfg.nodes[gid].ast)}` does not compare the dimensionalities of the two distinct arguments")
        compute = nodes_calling(cfg, "_get_root_units", "_get_root_units_recurse", "get_root_units")
        stores = nodes_with(cfg, lambda x: isinstance(x, ast.Subscript) and isinstance(x.ctx, ast.Store))
        ck.floor("G-DOM", len(compute), 1, "factor computation (_get_root_units call) in _get_conversion_factor")
        for kind, targets in (("compute", compute), ("cache-store", stores)):
            for t in live(cfg, targets):
                p = undominated(cfg, [t], gate_ids)
                ck.check(p is None, "G-DOM", f"conversion_factor|{kind}-dominated-by-dim-test", fi.loc(cfg.nodes[t].ast),
                         f"`{cfg.nodes[t].text()}` only reachable through the dimension test",
                         f"`{cfg.nodes[t].text()}` is reachable without passing the dimensionality comparison", witness(cfg, p))
        # failing edge: must not reach compute/store; must end in error return / raise
        for gid, lab, cp in gates:
            forbidden = set(compute) | set(stores)
            succs = edge_successors(cfg, gid, lab)
            reach = cfg.reach(succs)
            bad = [x for x in reach if x in forbidden]
            ck.check(not bad, "G-DOM", "conversion_factor|mismatch-edge-computes-nothing", fi.loc(cfg.nodes[gid].ast),
                     "on a dimension mismatch no factor is computed or cached",
                     "a factor is computed or cached on the dimension-mismatch edge")
            rets = [x for x in reach if isinstance(cfg.nodes[x].ast, ast.Return)]
            for r in rets:
                v = cfg.nodes[r].ast.value
                is_err = isinstance(v, ast.Call) and call_name(v) == "DimensionalityError"
                if not is_err and isinstance(v, ast.Name):
                    vv = defs.single(v.id)
                    is_err = isinstance(vv, ast.Call) and call_name(vv) == "DimensionalityError"
                ck.check(is_err, "G-DOM", "conversion_factor|mismatch-edge-returns-error", fi.loc(cfg.nodes[r].ast),
                         "dimension mismatch returns a DimensionalityError object",
                         f"on a dimension mismatch `{cfg.nodes[r].text()}` returns something that is not a DimensionalityError")
            if not rets and cfg.exit in reach:
                ck.fail("G-DOM", "conversion_factor|mismatch-edge-returns-error", fi.loc(cfg.nodes[gid].ast),
                        "dimension mismatch falls through to a normal exit without error")

    # ---------------------------------------------------------------- (a2) Plain _convert
    fi = ix.func(PR, "GenericPlainRegistry._convert")
    ck.analysed(fi)
    cfg, defs = cfg_of(fi), defs_of(fi)
    fac_names = {nm for nm, ds in defs.defs.items() if any(
        v is not None and "call:_get_conversion_factor" in defs.roots(v) for v, k, s in ds)}
    ck.floor("G-DOM", len(fac_names), 1, "variable holding the result of _get_conversion_factor in _convert")
    tests = []
    for n in cfg.nodes:
        if n.kind == "test" and isinstance(n.ast, ast.Call) and call_name(n.ast) == "isinstance" and len(n.ast.args) == 2:
            a0, a1 = n.ast.args
            if isinstance(a0, ast.Name) and a0.id in fac_names and "DimensionalityError" in norm(a1):
                tests.append(n.id)
    uses = []
    for n in cfg.nodes:
        if n.kind != "stmt":
            continue
        for e in own_exprs(n):
            for sub in ast.walk(e):
                if isinstance(sub, ast.BinOp) and (names_in(sub) & fac_names):
                    uses.append(n.id)
                elif isinstance(sub, ast.AugAssign) and (names_in(sub.value) & fac_names):
                    uses.append(n.id)
                elif isinstance(sub, ast.Return) and sub.value is not None and (names_in(sub.value) & fac_names):
                    uses.append(n.id)
    uses = sorted(set(uses))
    ck.floor("G-DOM", len(uses), 1, "arithmetic use of the conversion factor in _convert")
    if not tests:
        ck.fail("G-DOM", "plain_convert|error-object-tested", fi.loc(),
                "the value returned by _get_conversion_factor is never tested for being a DimensionalityError before use")
    for t in tests:
        p = edge_leads_only_to_raise(cfg, t, "t")
        ck.check(p is None, "G-DOM", "plain_convert|error-object-raised", fi.loc(cfg.nodes[t].ast),
                 "a DimensionalityError factor is raised",
                 "when the factor is a DimensionalityError the function can still return normally", witness(cfg, p))
    for u in live(cfg, uses):
        p = undominated(cfg, [u], tests)
        ck.check(p is None, "G-DOM", "plain_convert|use-dominated-by-error-test", fi.loc(cfg.nodes[u].ast),
                 f"`{cfg.nodes[u].text()}` only after the error test",
                 f"`{cfg.nodes[u].text()}` uses the factor on a path that skips the DimensionalityError test", witness(cfg, p))
    # the factor passed on must come from (src, dst) in this order
    for c in [x for x in ast.walk(fi.node) if isinstance(x, ast.Call) and call_name(x) == "_get_conversion_factor"]:
        args = [norm(a) for a in c.args]
        ck.check(args[:2] == ["src", "dst"], "G-PROV", "plain_convert|factor-requested-for-src-dst", fi.loc(c),
                 "factor requested for (src, dst)", f"factor requested for ({', '.join(args)}) instead of (src, dst)")

    # ---------------------------------------------------------------- (a3) delegation in the facets
    for mod, qual in (("pint.facets.nonmultiplicative.registry", "GenericNonMultiplicativeRegistry._convert"),
                      ("pint.facets.context.registry", "GenericContextRegistry._convert")):
        fi = ix.func(mod, qual)
        ck.analysed(fi)
        cfg = cfg_of(fi)
        sup = nodes_with(cfg, lambda x: is_super_call(x, "_convert"))
        ck.floor("G-DOM", len(sup), 1, f"super()._convert call in {qual}")
        p = cfg.all_paths_pass(cfg.entry, [cfg.exit], sup)
        ck.check(p is None, "G-DOM", f"{qual}|every-normal-exit-through-super-convert", fi.loc(),
                 "every normal return delegates to the gated super()._convert",
                 "a normal return is reachable without delegating to super()._convert (dimension gate bypassed)", witness(cfg, p))
        # what is returned must derive from that call
        defs = defs_of(fi)
        for r in live(cfg, return_nodes(cfg)):
            v = cfg.nodes[r].ast.value
            roots = defs.roots(v) if v is not None else set()
            ck.check("call:_convert" in roots, "G-PROV", f"{qual}|returned-value-from-super-convert", fi.loc(cfg.nodes[r].ast),
                     "returned value derives from super()._convert",
                     f"`{cfg.nodes[r].text()}` returns a value that does not derive from super()._convert")
        # resolution target of super()._convert must be the next _convert in the MRO ending in the plain gate
        for c in [x for x in ast.walk(fi.node) if is_super_call(x, "_convert")]:
            tgt = rs.resolve_call(fi, c)
            ck.check(bool(tgt), "G-DOM", f"{qual}|super-convert-resolves", fi.loc(c),
                     f"resolves to {tgt[0].qualname if tgt else '?'}", "super()._convert does not resolve in the UnitRegistry MRO")
    # offset path of the non-multiplicative registry has its own gate
    fi = ix.func("pint.facets.nonmultiplicative.registry", "GenericNonMultiplicativeRegistry._convert")
    cfg, defs = cfg_of(fi), defs_of(fi)
    gates = []
    for n in cfg.nodes:
        if n.kind == "test":
            cp = compare_parts(n.ast)
            if cp and differs_edge(cp[0]) and _dim_derived(defs, cp[1]) and _dim_derived(defs, cp[2]):
                gates.append((n.id, differs_edge(cp[0])))
    refs = nodes_calling(cfg, "to_reference", "from_reference")
    ck.floor("G-DOM", len(refs), 2, "to_reference/from_reference applications in NonMultiplicative._convert")
    if not gates:
        ck.fail("G-DOM", "nonmult_convert|offset-path-dim-test", fi.loc(), "offset path has no dimensionality comparison")
    for gid, lab in gates:
        p = edge_leads_only_to_raise(cfg, gid, lab)
        ck.check(p is None, "G-DOM", "nonmult_convert|offset-path-mismatch-raises", fi.loc(cfg.nodes[gid].ast),
                 "dimension mismatch on the offset path raises",
                 "dimension mismatch on the offset path can return a value", witness(cfg, p))
    for t in live(cfg, refs):
        p = undominated(cfg, [t], [g[0] for g in gates])
        ck.check(p is None, "G-DOM", "nonmult_convert|reference-conversion-dominated-by-dim-test", fi.loc(cfg.nodes[t].ast),
                 f"`{cfg.nodes[t].text()}` only after the dimension test",
                 f"`{cfg.nodes[t].text()}` reachable without the dimension test", witness(cfg, p))

    # ---------------------------------------------------------------- (b) predicates
    preds = [("pint.facets.plain.quantity", "PlainQuantity.is_compatible_with"),
             ("pint.facets.plain.unit", "PlainUnit.is_compatible_with"),
             ("pint.facets.plain.quantity", "PlainQuantity.check")]
    n_returns = 0
    for mod, qual in preds:
        fi = ix.func(mod, qual)
        ck.analysed(fi)
        cfg, defs = cfg_of(fi), defs_of(fi)
        # the verdicts: what each live return yields - the returned expression itself, or, for a result variable assigned
        # on several branches and returned once, every assigned value (judged where it is assigned)
        verdicts = []
        for r in live(cfg, return_nodes(cfg)):
            rn = cfg.nodes[r].ast
            v = rn.value
            multi = defs.defs.get(v.id, []) if isinstance(v, ast.Name) and v.id not in defs.params else []
            if len(multi) > 1 and all(k_ == "assign" and v_ is not None for v_, k_, _ in multi):
                verdicts += [(v_, st_) for v_, _, st_ in multi if not shape.dead(st_, fi.node)]
            else:
                verdicts.append((shape.unalias(v, fi.node) if v is not None else v, rn))
        for v, site in verdicts:
            n_returns += 1
            where = fi.loc(site)
            if isinstance(v, ast.Constant) and isinstance(v.value, bool):
                # only legal inside the context branch: try: ... .to(...) ; return True / except DimensionalityError: return False
                ok = _const_return_is_to_verdict(fi, site, v.value)
                ck.check(ok, "G-PROV", f"{qual}|const-verdict-is-outcome-of-to", where,
                         "constant verdict is the outcome of a to() conversion",
                         f"`return {v.value}` is not the outcome of a to() conversion guarded by DimensionalityError")
            elif isinstance(v, ast.Compare) or (isinstance(v, ast.UnaryOp) and isinstance(v.operand, ast.Compare)):
                cp = compare_parts(v)
                ok = cp is not None and cp[0] == "Eq" and _dim_derived(defs, cp[1]) and _dim_derived(defs, cp[2])
                ck.check(ok, "G-PROV", f"{qual}|verdict-compares-dimensionalities", where,
                         f"`{norm(v)}` compares dimensionalities with ==",
                         f"`{norm(v)}` does not compare two dimensionalities with == (units compared directly or wrong relation)")
            elif isinstance(v, ast.Attribute) and v.attr == "dimensionless":
                ck.ok("G-PROV", f"{qual}|verdict-dimensionless", where, "non-unit operand: dimensionless test")
            elif isinstance(v, ast.Call) and call_name(v) in ("is_compatible_with", "check"):
                ck.ok("G-PROV", f"{qual}|verdict-delegated", where, "delegates to another predicate")
            else:
                raise AnalysisError(f"{qual}: unrecognised verdict expression `{norm(v)}` at {where}")
        # the no-context branch must exist: a path from entry to a dimensionality comparison avoiding .to()
    ck.floor("G-PROV", n_returns, 4, "return statements in the compatibility predicates")

    # dimensionality properties must query the registry for *their own* units
    for mod, qual in (("pint.facets.plain.quantity", "PlainQuantity.dimensionality"),
                      ("pint.facets.plain.unit", "PlainUnit.dimensionality")):
        fi = ix.func(mod, qual)
        ck.analysed(fi)
        calls = [c for c in ast.walk(fi.node) if isinstance(c, ast.Call) and call_name(c) in DIM_CALLS]
        ck.floor("G-PROV", len(calls), 1, f"_get_dimensionality call in {qual}")
        for c in calls:
            ck.check(len(c.args) == 1 and norm(c.args[0]) == "self._units" and dotted(c.func) in ("self._REGISTRY._get_dimensionality", "self._REGISTRY.get_dimensionality"),
                     "G-PROV", f"{qual}|queries-own-units", fi.loc(c),
                     "dimensionality computed from self._units by the registry",
                     f"`{norm(c)}` is not the registry's dimensionality of self._units")
    # dimensionless properties derive from dimensionality
    for mod, qual in (("pint.facets.plain.quantity", "PlainQuantity.dimensionless"),
                      ("pint.facets.plain.unit", "PlainUnit.dimensionless")):
        fi = ix.func(mod, qual)
        ck.analysed(fi)
        defs = defs_of(fi)
        rets = [r for r in ast.walk(fi.node) if isinstance(r, ast.Return)]
        for r in rets:
            from .. import shape as _shd
            rv = _shd.deep(ix, fi, r.value, fi.node)
            ok = _shd.match("not bool(_X.dimensionality)", rv) is not None or _shd.match("not _X.dimensionality", rv) is not None
            ck.check(ok, "G-PROV", f"{qual}|not-bool-dimensionality", fi.loc(r),
                     "dimensionless == empty dimensionality", f"`{norm(r)}` is not `not bool(dimensionality)`")

    # registry_helpers.check wrapper: verdict from Quantity.check / get_dimensionality, mismatch raises DimensionalityError
    fi = ix.func("pint.registry_helpers", "check")
    wrappers = [returned_def(returned_def(fi, "decorator"), "wrapper")]
    for w in wrappers:
        ck.analysed(w)
        cfg = cfg_of(w)
        from .. import shape as _s3
        is_check = lambda a: isinstance(a, ast.Call) and call_name(a) == "check"
        failed = _s3.guard_edges(cfg, is_check, want=False)
        ck.floor("G-DOM", len(failed), 1, "tested `.check(dim)` outcome in registry_helpers.check.wrapper")
        for (t, lab) in failed:
            p = edge_leads_only_to_raise(cfg, t, lab)
            ck.check(p is None, "G-DOM", "registry_helpers.check|failed-check-raises", w.loc(cfg.nodes[t].ast),
                     "a failed dimension check raises", "a failed dimension check can still call the function", witness(cfg, p))
            raised = [x for x in cfg.reach(edge_successors(cfg, t, lab)) if isinstance(cfg.nodes[x].ast, ast.Raise)]
            for x in raised:
                ck.check("DimensionalityError" in norm(cfg.nodes[x].ast), "G-DOM", "registry_helpers.check|raises-dimensionality-error",
                         w.loc(cfg.nodes[x].ast), "raises DimensionalityError", f"raises `{cfg.nodes[x].text()}` instead of DimensionalityError")
        callf = nodes_with(cfg, lambda x: isinstance(x, ast.Call) and isinstance(x.func, ast.Name) and x.func.id == "func")
        for c in live(cfg, callf):
            pass
    # dimensions declared to the decorator are turned into dimensionalities by the registry
    calls = [c for c in ast.walk(fi.node) if isinstance(c, ast.Call) and call_name(c) == "get_dimensionality"]
    ck.check(len(calls) >= 1, "G-PROV", "registry_helpers.check|declared-dims-via-get_dimensionality", fi.loc(),
             "declared dimensions converted with ureg.get_dimensionality", "declared dimensions are not converted with get_dimensionality")

    # compatible-unit listings are keyed by dimensionality
    fi = ix.func(PR, "GenericPlainRegistry._get_compatible_units")
    ck.analysed(fi)
    defs = defs_of(fi)
    for r in [x for x in ast.walk(fi.node) if isinstance(x, ast.Return) and x.value is not None and not isinstance(x.value, ast.Call) or
              (isinstance(x, ast.Return) and isinstance(x.value, ast.Call) and call_name(x.value) != "frozenset")]:
        v = r.value
        if isinstance(v, ast.Call) and call_name(v) in ("setdefault", "get") and v.args:
            ck.check(_dim_derived(defs, v.args[0]) and "dimensional_equivalents" in norm(v.func), "G-PROV",
                     "plain._get_compatible_units|keyed-by-dimensionality", fi.loc(r),
                     "listing looked up by the dimensionality of the input",
                     f"`{norm(v)}` is not keyed by the dimensionality of the input units")
        elif isinstance(v, ast.Subscript):
            ck.check(_dim_derived(defs, v.slice) and "dimensional_equivalents" in norm(v.value), "G-PROV",
                     "plain._get_compatible_units|keyed-by-dimensionality", fi.loc(r),
                     "listing looked up by the dimensionality of the input",
                     f"`{norm(v)}` is not keyed by the dimensionality of the input units")

    # ---------------------------------------------------------------- (c) memo key / canonical fill
    fi = ix.func(PR, "GenericPlainRegistry._get_dimensionality")
    ck.analysed(fi)
    sites = [s for s in find_memo_sites(fi) if "dimensionality" in s.table]
    ck.floor("G-MEMO-KEY", len(sites), 1, "dimensionality memo lookup in _get_dimensionality")
    for s in sites:
        ck.floor("G-MEMO-KEY", len(s.stores), 1, "dimensionality memo store")
        for (k, v, st) in s.stores:
            same = norm(k) == norm(s.lookup_key)
            re = reassigned_names(fi, names_in(k))
            ck.check(same and not re, "G-MEMO-KEY", "dimensionality|store-key==lookup-key", fi.loc(st),
                     f"stored under the looked-up key `{norm(k)}`",
                     f"stored under `{norm(k)}` but looked up with `{norm(s.lookup_key)}`" + (f"; {re} reassigned" if re else ""))
            # value canonical: built from a comprehension with a !=0 filter; '[]' removed before
            from .. import shape as _shz
            vv = _shz.unalias(v, fi.node)
            ef = _shz.entry_facts(fi.node, vv.args[0] if isinstance(vv, ast.Call) and vv.args else vv)
            zero_filtered = ef is not None and (("V == 0", False) in ef[0] or ("V", True) in ef[0])
            ck.check(zero_filtered, "G-CANON", "dimensionality|zero-exponents-filtered", fi.loc(st),
                     "zero exponents are filtered out of the stored dimensionality",
                     "the stored dimensionality can keep zero-exponent entries (no `!= 0` filter)")
        rec = [c for c in ast.walk(fi.node) if isinstance(c, ast.Call) and call_name(c) == "_get_dimensionality_recurse"]
        ck.floor("G-MEMO-KEY", len(rec), 1, "_get_dimensionality_recurse call")
        for c in rec:
            ck.check(norm(c.args[0]) == norm(s.lookup_key) and norm(c.args[1]) == "1", "G-MEMO-KEY",
                     "dimensionality|compute-from-key", fi.loc(c),
                     "computed from the looked-up key with exponent 1",
                     f"`{norm(c)}` does not expand the looked-up key `{norm(s.lookup_key)}` with exponent 1")
    cfg = cfg_of(fi)
    dels = nodes_with(cfg, lambda x: (isinstance(x, ast.Delete) and "'[]'" in norm(x)) or
                      (isinstance(x, ast.Call) and call_name(x) == "pop" and x.args and norm(x.args[0]) == "'[]'"))
    filt = [c for c in ast.walk(fi.node) if isinstance(c, ast.comprehension) and any("'[]'" in norm(i) for i in c.ifs)]
    stores = nodes_with(cfg, lambda x: isinstance(x, ast.Subscript) and isinstance(x.ctx, ast.Store))
    if filt:
        ck.ok("G-CANON", "dimensionality|dimensionless-marker-removed", fi.loc(), "'[]' filtered in the comprehension")
    else:
        # every path to the store passes the del-or-its-guard (`if '[]' in acc: del acc['[]']`)
        guard = [n.id for n in cfg.nodes if n.kind == "test" and "'[]'" in norm(n.ast)]
        ok = bool(dels) and all(undominated(cfg, [s_], dels + guard) is None for s_ in live(cfg, stores))
        # the guard's true edge must reach the delete
        for g in guard:
            ok = ok and any(d in cfg.reach(edge_successors(cfg, g, "t")) for d in dels)
        ck.check(ok, "G-CANON", "dimensionality|dimensionless-marker-removed", fi.loc(),
                 "the '[]' marker is removed before the result is stored",
                 "the '[]' (dimensionless) marker can survive into the stored dimensionality")

    # ---------------------------------------------------------------- (d) exponent bookkeeping of the recursive expansion
    recursion_exponent_rule(ck, ix, "GenericPlainRegistry._get_dimensionality_recurse")

    # ---------------------------------------------------------------- (e) ureg.check pairs dimensions with parameters in signature order
    check_wrapper_order_rule(ck, ix)
    from .. import memo as _memo
    _memo.rule_quantity_dimensionality_memo(ck, ix)  # the predicates read Quantity.dimensionality
    return EXPLANATION


def recursion_exponent_rule(ck, ix, qual):
    """In `for key in ref: exp2 = exp * ref[key]` every recursive call and every accumulator
    update inside the loop must use the combined exponent exp2, never the outer `exp`."""
    fi = ix.func(PR, qual)
    ck.analysed(fi)
    defs = defs_of(fi)
    pnames = [a.arg for a in fi.node.args.args]
    ref_p, exp_p = pnames[1], pnames[2]
    from .. import shape
    loops = [l for l in ast.walk(fi.node) if isinstance(l, ast.For) and norm(l.iter) in (ref_p, f"{ref_p}.items()", f"{ref_p}.keys()")]
    if not loops:
        raise AnalysisError(f"{qual}: loop over the reference container not found")
    n = 0
    for l in loops:
        if isinstance(l.target, ast.Tuple) and len(l.target.elts) == 2:
            key, refexps = norm(l.target.elts[0]), {norm(l.target.elts[1])}
        else:
            key = norm(l.target)
            refexps = set()
        refexps.add(f"{ref_p}[{key}]")

        def is_comb(e):
            """e is (a name for) outer exponent * exponent of this entry in the reference"""
            r = shape.resolve(e, fi.node, depth=3)
            return isinstance(r, ast.BinOp) and isinstance(r.op, ast.Mult) and ((norm(r.left) == exp_p and norm(r.right) in refexps) or (norm(r.right) == exp_p and norm(r.left) in refexps))
        seen_comb = False
        for c in ast.walk(l):
            if isinstance(c, ast.Call) and call_name(c) == fi.name:
                n += 1
                okc = len(c.args) >= 2 and is_comb(c.args[1])
                seen_comb = seen_comb or okc
                ck.check(okc, "G-PROV", f"{qual}|recursion-carries-combined-exponent", fi.loc(c),
                         "recursive expansion carries outer exponent * exponent in the reference", f"`{norm(c)}` recurses with `{norm(c.args[1]) if len(c.args) > 1 else '?'}` instead of the combined exponent ({exp_p} * exponent of `{key}` in {ref_p}): exponents of derived dimensions/units are lost")
            if isinstance(c, ast.AugAssign) and isinstance(c.target, ast.Subscript):
                n += 1
                v = c.value
                if isinstance(c.op, ast.Add):
                    okc = is_comb(v)
                    seen_comb = seen_comb or okc
                    # the combined exponent belongs to the entry being visited: it may only be added under that entry's key
                    ck.check(norm(c.target.slice) == key or shape.rnorm(c.target.slice, fi.node) in (key, f"self.get_name({key})"), "G-PROV", f"{qual}|accumulates-under-visited-key", fi.loc(c), "the exponent is accumulated under the key of the visited entry",
                             f"`{norm(c)}` adds the combined exponent of entry `{key}` under another key (`{norm(c.target.slice)}`): the entry's own reference (its exponents, derived dimensions) is not expanded")
                    ck.check(okc, "G-PROV", f"{qual}|accumulates-combined-exponent", fi.loc(c), "accumulates the combined exponent", f"`{norm(c)}` does not accumulate the combined exponent ({exp_p} * exponent in {ref_p})")
                elif isinstance(c.op, ast.Mult):
                    ok = isinstance(v, ast.BinOp) and isinstance(v.op, ast.Pow) and is_comb(v.right) and "converter.scale" in shape.rnorm(v.left, fi.node)
                    seen_comb = seen_comb or ok
                    ck.check(ok, "G-PROV", f"{qual}|scale-raised-to-combined-exponent", fi.loc(c), "scale ** combined exponent multiplied in", f"`{norm(c)}` does not multiply by converter.scale ** (combined exponent)")
        ck.check(seen_comb, "G-PROV", f"{qual}|combined-exponent-is-product", fi.loc(l), "combined exponent = outer exponent * exponent in the reference",
                 f"no use of `{exp_p} * <exponent of {key} in {ref_p}>` found: the exponent of the outer unit and of the referenced unit are not multiplied")
    ck.floor("G-PROV", n, 2, f"recursive calls / accumulator updates in {qual}")


def check_wrapper_order_rule(ck, ix):
    """ureg.check: the values handed to the dimension checks are the positional arguments followed by the remaining
    parameters looked up by name while walking the signature in order, and they are zipped with the declared
    dimensions.  Roles: PACKED / KW = the two results of _apply_defaults(...); additions to PACKED = `.append(x)` /
    `.extend(xs)` / `+= xs`."""
    fi = ix.func("pint.registry_helpers", "check")
    dec = returned_def(fi, "decorator")
    w = returned_def(dec, "wrapper")
    fn = w.node
    from ..lib import roots_with_closure
    pairs = [(st, b) for st, b in find_stores(fn, "(_P, _K)") if shape.match("_apply_defaults(*_R)", st.value) is not None]
    ck.floor("G-PROV", len(pairs), 1, "unpacked result of _apply_defaults in registry_helpers.check.wrapper")
    packed, kwmap = pairs[0][1]["_P"], pairs[0][1]["_K"]
    npos = f"len({fn.args.vararg.arg})" if fn.args.vararg else "0"
    # every addition to the packed list
    added = additions(fn, packed) + [st.value for st, _ in find_stores(fn, packed) if isinstance(st, (ast.Assign, ast.AnnAssign)) and st is not pairs[0][0]]
    good = []
    for el in added:
        m = shape.match(f"{kwmap}[_N]", el)
        sw = signature_walk(el, w, npos) if m is not None else None
        good.append(sw is not None and names_it(el.slice, fn, sw[0]) and sw[2])
    ck.check(bool(good) and all(good), "G-PROV", "registry_helpers.check|keyword-arguments-in-signature-order", w.loc(),
             "keyword/default values are appended in signature order (zip with the declared dimensions is positional)",
             "keyword and default arguments are no longer collected by walking sig.parameters in order: dimensions are checked against the wrong arguments")
    zips = [b for _, b in find_expr(fn, "zip(_D, _A)")]
    ck.check(any(b["_A"] == packed and any("get_dimensionality" in r for r in roots_with_closure(w, ast.parse(b["_D"], mode="eval").body)) for b in zips), "G-PROV", "registry_helpers.check|dimensions-zipped-with-arguments", w.loc(),
             "declared dimensions zipped with the packed arguments", "declared dimensions are not zipped with the packed argument list")


def _const_return_is_to_verdict(fi, ret, value: bool) -> bool:
    """`ret` is the site of a constant verdict (`return True` / `result = True`): True directly after a .to(...) call
    inside try (or in its else clause), or False in an `except DimensionalityError` handler of such a try."""
    node = ret
    par = getattr(node, "_parent", None)
    if isinstance(par, ast.ExceptHandler):
        if value is not False:
            return False
        t = par.type
        ok_type = t is not None and "DimensionalityError" in norm(t)
        tr = getattr(par, "_parent", None)
        has_to = isinstance(tr, ast.Try) and any(isinstance(c, ast.Call) and call_name(c) in ("to", "ito", "m_as", "convert", "_convert")
                                                  for s in tr.body for c in ast.walk(s))
        return ok_type and has_to
    CONV = ("to", "ito", "m_as", "convert", "_convert")

    def probing_try(tr, leave_only=False):
        return isinstance(tr, ast.Try) and any(isinstance(c, ast.Call) and call_name(c) in CONV for s in tr.body for c in ast.walk(s)) \
            and any(h.type is not None and "DimensionalityError" in norm(h.type) for h in tr.handlers) \
            and all(any(isinstance(x, (ast.Return, ast.Raise)) or (not leave_only and isinstance(x, ast.Assign) and isinstance(ret, ast.Assign) and norm(x.targets[0]) == norm(ret.targets[0])) for x in h.body) for h in tr.handlers)
    if value is not True:
        return False
    # `return True` as the last statement of the try body, in its else clause, or right after a try whose handlers all leave
    if isinstance(par, ast.Try) and (ret in par.body or ret in par.orelse):
        if ret in par.body:
            before = par.body[:par.body.index(ret)]
            if not any(isinstance(c, ast.Call) and call_name(c) in CONV for s in before for c in ast.walk(s)):
                return False
        return probing_try(par)
    for fld in ("body", "orelse"):
        lst = getattr(par, fld, None)
        if isinstance(lst, list) and any(x is ret for x in lst):
            i = [k for k, x in enumerate(lst) if x is ret][0]
            if i > 0 and probing_try(lst[i - 1], leave_only=True):
                return True
    return False
