"""C02 — conversion factors equal the exact ratio implied by the written definitions."""
from __future__ import annotations

import ast

from .. import memo, shape
from ..flow import call_name, dotted, norm, writes_in
from ..index import AnalysisError, walk_local
from ..lib import cfg_of, defs_of, live, nodes_with, return_nodes, undominated, witness
from .C01 import find_expr, find_stores, known, recursion_exponent_rule, resolve, rnorm

PR = "pint.facets.plain.registry"
U = "pint.util"

EXPLANATION = (
    "Static analysis (no execution): G-MEMO key/orientation/hit rules for the root_units and conversion_factor memos "
    "(stored under the looked-up key, which must be the unit pair itself; the factor for key (src, dst) is the first "
    "component of _get_root_units(src / dst); the expansion starts from the looked-up container with exponent 1 and an "
    "accumulator of 1; a disk cache that was loaded is installed); exponent bookkeeping of _get_root_units_recurse "
    "(combined exponent = outer * inner, carried into recursion, base-unit accumulation and scale ** exponent); "
    "G-PROV numeric-type rules (number tokens reach non_int_type(...) as text, ints tried first in float registries, no "
    "float()/float literal/math.* on the factor path, exponents normalised with the container's non_int_type); "
    "registration consistency of on-the-fly prefixed units in get_name (one store, key == name == returned string == "
    "prefix + unit, converter of that prefix, reference {unit: 1} from the same candidate); in-place and functional "
    "multiplication by the factor agree; equal units short-circuit to the identity. Also decided: every text entry path of the definition parser (file, string, define) uses the registry's ParserConfig(non_int_type) and parse_file/parse_string are siblings; int/float/complex of a dimensionless quantity use the magnitude converted to no units. Does not decide the value of any "
    "factor, float accuracy or path independence.")
EXPLANATION += ' Also decided (round 5): the conversion factor enters Decimal / Fraction magnitudes only through its decimal text (Decimal(str(factor)), never Decimal(factor)); the root-unit recursion accumulates under the visited key.'
EXPLANATION += ' Also decided (round 10, shared with C08/C13): the cached reading of a unit spelling (parse_unit memo) is dropped whenever that spelling is registered as a name, symbol or alias - a unit given by name converts by its cached reading, so a stale reading is a wrong factor.'

FACTOR_PATH = [(PR, "GenericPlainRegistry._get_root_units"), (PR, "GenericPlainRegistry._get_root_units_recurse"),
               (PR, "GenericPlainRegistry._get_conversion_factor"), (PR, "GenericPlainRegistry._convert"),
               ("pint.facets.plain.definitions", "ScaleConverter.to_reference"), ("pint.facets.plain.definitions", "ScaleConverter.from_reference"),
               (U, "ParserHelper.eval_token"), ("pint.delegates.base_defparser", "ParserConfig.to_number"),
               (U, "UnitsContainer._normalize_nonfloat_value")]


def run(ck, ix, tier):
    memo.rule_root_units_memo(ck, ix)
    memo.rule_conversion_factor_memo(ck, ix)
    memo.rule_disk_cache_hit(ck, ix)
    memo.rule_parse_unit_memo(ck, ix)  # a unit given by name converts by its cached reading: stale reading = wrong factor (round 10)
    recursion_exponent_rule(ck, ix, "GenericPlainRegistry._get_root_units_recurse")

    # root expansion: names are canonicalised per key inside the loop (never merged beforehand), base units accumulate
    fi = ix.func(PR, "GenericPlainRegistry._get_root_units_recurse")
    looks = [x for x in walk_local(fi.node) if isinstance(x, ast.Subscript) and isinstance(x.ctx, ast.Load) and norm(x.value) == "self._units"]
    okl = bool(looks) and all(isinstance(shape.resolve(x.slice, fi.node), ast.Call) and call_name(shape.resolve(x.slice, fi.node)) == "get_name" for x in looks)
    ck.check(okl, "G-PROV", "_get_root_units_recurse|definition-of-canonical-name", fi.loc(looks[0]) if looks else fi.loc(), "each unit is looked up under its canonical name", "the unit definition is no longer looked up under get_name(key)")
    is_base = lambda a: isinstance(a, ast.Attribute) and a.attr == "is_base"
    has_ref = lambda a: isinstance(a, ast.Compare) and isinstance(a.ops[0], ast.Is) and norm(a.comparators[0]) == "None" and "reference" in shape.rnorm(a.left, fi.node)
    augs = [a_ for a_ in walk_local(fi.node) if isinstance(a_, ast.AugAssign) and isinstance(a_.target, ast.Subscript) and norm(a_.target.value) == "accumulators"]
    adds = [a_ for a_ in augs if isinstance(a_.op, ast.Add)]
    muls = [a_ for a_ in augs if isinstance(a_.op, ast.Mult)]
    recs = [c_ for c_ in walk_local(fi.node) if isinstance(c_, ast.Call) and call_name(c_) == "_get_root_units_recurse"]
    okb = len(adds) == 1 and len(muls) == 1 and len(recs) == 1 and shape.holds_at(adds[0], fi.node, is_base, True) and shape.holds_at(muls[0], fi.node, is_base, False) \
        and shape.holds_at(recs[0], fi.node, is_base, False) and shape.holds_at(recs[0], fi.node, has_ref, False) and norm(muls[0].target.slice) == "None"
    ck.check(okb, "G-PROV", "_get_root_units_recurse|base-or-reference", fi.loc(), "base units accumulate their exponent, derived units fold their scale into the prefactor and recurse into their reference", "the base/derived case split of the root-unit expansion changed")
    fi = ix.func(PR, "GenericPlainRegistry._get_root_units")
    # ACC = the accumulator handed to the recursive expansion.  The factor is its scalar (None) slot - read or popped;
    # the units are the other slots with a non-zero exponent (the None slot is excluded by a filter or because it was
    # popped before the comprehension)
    accs = sorted({b["_A"] for _, b in find_expr(fi.node, "self._get_root_units_recurse(_K, _E, _A)")})
    ck.floor("G-PROV", len(accs), 1, "accumulator handed to _get_root_units_recurse in _get_root_units")
    ACC = accs[0]
    scalar = lambda e: norm(e) in (f"{ACC}[None]", f"{ACC}.pop(None)")

    def factor_kind(e, at, depth=3):
        """'scalar' (the None slot of ACC), 'none' (non-multiplicative marker), 'one' (identity for empty input), or
        None; a name assigned on several branches is all of its assignments"""
        r = resolve(e, fi.node)
        if scalar(r):
            return {"scalar"}
        if isinstance(r, ast.Constant) and r.value is None:
            return {"none"}
        if isinstance(r, ast.Constant) and r.value == 1 and known(at, fi.node, "input_units", False) is not None:
            return {"one"}
        if isinstance(r, ast.Name) and depth > 0:
            out = set()
            for v, kind, st in defs_of(fi).defs.get(r.id, []):
                k = factor_kind(v, st, depth - 1) if kind == "assign" and v is not None else None
                if not k:
                    return None
                out |= k
            return out or None
        return None
    rets = [r for r in shape.returns_of(fi.node) if isinstance(shape.unalias(r.value, fi.node), ast.Tuple) and len(shape.unalias(r.value, fi.node).elts) == 2]
    kinds = [factor_kind(shape.unalias(r.value, fi.node).elts[0], r) for r in rets]
    ck.check(bool(rets) and all(kinds) and any("scalar" in k for k in kinds if k), "G-PROV", "_get_root_units|factor-is-scalar-accumulator", fi.loc(), "factor read from the scalar accumulator", "the factor is no longer the scalar (None) slot of the accumulator")
    ucs = [c for c in walk_local(fi.node) if isinstance(c, ast.Call) and norm(c.func) in ("self.UnitsContainer", "UnitsContainer") and c.args]
    okc = False
    for c in ucs:
        ef = shape.entry_facts(fi.node, c.args[0])
        if ef is None or ACC not in ef[1]:
            continue
        facts_, _src = ef
        popped = any(isinstance(c_, ast.Call) and norm(c_) == f"{ACC}.pop(None)" and c_.lineno < c.lineno for c_ in walk_local(fi.node))
        okc = okc or (((("K is None", False) in facts_) or popped) and ((("V == 0", False) in facts_) or (("V", True) in facts_)))
    ck.check(okc, "G-CANON",
             "_get_root_units|units-without-scalar-slot-and-zeros", fi.loc(), "root units exclude the scalar slot and zero exponents", "the root-units container can keep the scalar slot or zero exponents")

    # ------------------------------------------------------------ numeric type: literals never pass through float
    fi = ix.func(U, "ParserHelper.eval_token")
    ck.analysed(fi)
    # by facts, not by branch shape: every return / conversion call is classified by whether `non_int_type is float`
    # is known to hold (or not) where it executes
    is_float = lambda a_: norm(a_) in ("non_int_type is float", "float is non_int_type")
    isnt_float = lambda a_: norm(a_) in ("non_int_type is not float", "float is not non_int_type")
    fl = lambda n_: shape.holds_at(n_, fi.node, is_float, True) or shape.holds_at(n_, fi.node, isnt_float, False)
    ex = lambda n_: shape.holds_at(n_, fi.node, is_float, False) or shape.holds_at(n_, fi.node, isnt_float, True)
    allr = [r for r in shape.returns_of(fi.node)]
    ck.check(any(fl(r) for r in allr) or any(ex(r) for r in allr), "G-PROV", "eval_token|float-registry-test", fi.loc(), "float registries are distinguished", "the `non_int_type is float` case split is gone")
    exact = [r for r in allr if ex(r)]
    ck.floor("G-PROV", len(exact), 1, "return in the non-float branch of eval_token")
    for r in exact:
        v = r.value
        ok = isinstance(v, ast.Call) and norm(v.func) == "non_int_type" and len(v.args) == 1 and shape.rnorm(v.args[0], fi.node) == "token.string"
        ck.check(ok, "G-PROV", "eval_token|literal-text-to-non_int_type", fi.loc(r), "the token text is handed to non_int_type unchanged",
                 f"`{norm(r)}`: in Decimal/Fraction registries a numeric literal must be converted from its text by non_int_type (no float/int detour)")
    convs = [c for c in walk_local(fi.node) if isinstance(c, ast.Call) and call_name(c) in ("float", "int", "eval", "complex")]
    bad = [c for c in convs if ex(c)]
    ck.check(not bad, "G-PROV", "eval_token|no-float-detour-in-exact-registries", fi.loc(bad[0]) if bad else fi.loc(), "no float()/int() in the exact branch",
             f"`{norm(bad[0]) if bad else ''}` converts the literal through a binary float/int in a Decimal/Fraction registry")
    ok = False
    for t in [t for t in walk_local(fi.node) if isinstance(t, ast.Try)]:
        in_body = [c for s_ in t.body for c in ast.walk(s_) if isinstance(c, ast.Call) and call_name(c) == "int" and fl(c)]
        in_handler = [c for h in t.handlers for c in ast.walk(h) if isinstance(c, ast.Call) and call_name(c) == "float"]
        ok = ok or (bool(in_body) and bool(in_handler))
    ck.check(ok, "G-PROV", "eval_token|integers-stay-integers", fi.loc(), "int() is tried before float()", "in float registries integer literals are no longer tried as int first")
    def returns(f_, *patterns, deep=False):
        """some return of f_ yields a value matching one of the patterns (temporaries resolved; with deep also
        single-return helpers expanded)"""
        for r in shape.returns_of(f_.node):
            forms = [r.value, resolve(r.value, f_.node)] + ([shape.deep(ix, f_, r.value, f_.node)] if deep else [])
            if not shape.dead(r, f_.node) and any(shape.match(p_, v_) is not None for p_ in patterns for v_ in forms):
                return True
        return False
    fi = ix.func(PR, "GenericPlainRegistry._eval_token")
    ck.analysed(fi)
    ck.check(returns(fi, "ParserHelper.eval_token(token, non_int_type=self.non_int_type)", "ParserHelper.eval_token(token, self.non_int_type)"), "G-PROV", "_eval_token|numbers-in-registry-type", fi.loc(), "NUMBER tokens are evaluated in the registry's numeric type", "NUMBER tokens are no longer evaluated with the registry's non_int_type")
    ck.check(returns(fi, "self.non_int_type('inf')") and returns(fi, "self.non_int_type('nan')"), "G-PROV", "_eval_token|inf-nan-in-registry-type", fi.loc(), "inf/nan in the registry's numeric type", "inf/nan are no longer built with non_int_type")
    fi = ix.func("pint.delegates.base_defparser", "ParserConfig.to_number")
    ck.analysed(fi)
    ck.check(returns(fi, "self.to_scaled_units_container(s).scale", "ParserHelper.from_string(s, self.non_int_type).scale", "ParserHelper.from_string(s, non_int_type=self.non_int_type).scale", deep=True), "G-PROV", "ParserConfig.to_number|scale-of-parsed-expression", fi.loc(), "numbers in definitions are the scale of the expression parsed in non_int_type", "ParserConfig.to_number no longer returns the scale parsed in non_int_type")
    fi = ix.func("pint.delegates.base_defparser", "ParserConfig.to_scaled_units_container")
    ck.check(returns(fi, "ParserHelper.from_string(s, self.non_int_type)", "ParserHelper.from_string(s, non_int_type=self.non_int_type)"), "G-PROV", "ParserConfig|parses-in-non_int_type", fi.loc(), "definition expressions parsed with non_int_type", "definition expressions are no longer parsed with the configured non_int_type")
    # exponents: every conversion self._non_int_type(X) of a value X happens exactly where X is known to be neither an
    # int nor already of that type (ints are kept)
    for q in ("UnitsContainer.__init__", "UnitsContainer._normalize_nonfloat_value"):
        f = ix.func(U, q)
        ck.analysed(f)
        conv = [(c, b["_X"]) for c, b in find_expr(f.node, "self._non_int_type(_X)") if not isinstance(c.args[0], ast.Constant)]
        okx = bool(conv) and all(known(c, f.node, f"isinstance({x}, int)", False) is not None and known(c, f.node, f"isinstance({x}, self._non_int_type)", False) is not None for c, x in conv)
        ck.check(okx, "G-PROV", f"{q}|non-int-exponents-in-non_int_type", f.loc(), "non-int exponents are converted to the container's numeric type, ints kept",
                 f"{q} no longer converts non-integer exponents with self._non_int_type")
    # no float on the factor path
    n = 0
    for mod, q in FACTOR_PATH:
        f = ix.func(mod, q)
        ck.analysed(f)
        n += 1
        bad = []
        for x in walk_local(f.node):
            if isinstance(x, ast.Call) and call_name(x) == "float":
                bad.append(x)
            elif isinstance(x, ast.Constant) and isinstance(x.value, float):
                bad.append(x)
            elif isinstance(x, ast.Attribute) and dotted(x.value) == "math":
                bad.append(x)
        if q.endswith("eval_token"):
            # float(<literal text>) is the float registry's own numeric type: harmless where `non_int_type is float` is known
            bad = [b for b in bad if not (isinstance(b, ast.Call) and len(b.args) == 1 and rnorm(b.args[0], f.node) == "token.string" and
                                          (shape.holds_at(b, f.node, is_float, True) or shape.holds_at(b, f.node, isnt_float, False)))]
        ck.check(not bad, "G-PROV", f"no-float-on-factor-path|{q}", f.loc(bad[0]) if bad else f.loc(), "no float()/float literal/math.* on the factor path",
                 f"`{norm(bad[0]) if bad else ''}` introduces binary floating point on the conversion-factor path of exact registries")
    ck.floor("G-PROV", n, 5, "functions on the factor path scanned for float contamination")

    # ------------------------------------------------------------ get_name: on-the-fly prefixed units
    from ..lib import inlined as _inl
    fi = _inl(ix, ix.func(PR, "GenericPlainRegistry.get_name"), skip=("_helper_adder", "_helper_single_adder"))     # an extracted `_define_prefixed_unit` is looked through
    ck.analysed(fi)
    gn = fi.node
    stores = [(p, k, nd) for (p, k, nd) in writes_in(gn) if p.startswith("self._units") and "casei" not in p and isinstance(nd, ast.Assign)]
    ck.check(len(stores) == 1, "G-OWN", "get_name|exactly-one-registration", fi.loc(stores[1][2]) if len(stores) > 1 else fi.loc(),
             "one registration of the prefixed unit", f"get_name writes the unit table {len(stores)} times (a prefixed unit must be registered under its long name only; other spellings can shadow defined units)")
    cas = [(p, k, nd) for (p, k, nd) in writes_in(gn) if "_units_casei" in p]
    ck.check(not cas, "G-OWN", "get_name|prefixed-units-not-in-casei-index", fi.loc(cas[0][2]) if cas else fi.loc(),
             "on-the-fly prefixed units stay out of the case-insensitive index (the prefix search relies on it)",
             "get_name enters the on-the-fly prefixed unit into _units_casei: prefixes would then apply to prefixed units (kilomillifoot) depending on lookup history")
    # PREFIX, UNIT: the first two components of the first candidate returned by parse_unit_name(name_or_alias, case_sensitive)
    first = "self.parse_unit_name(name_or_alias, case_sensitive)[0]"
    cand = [b for st, b in find_stores(gn, "(_P, _U, _X)") + find_stores(gn, "(_P, _U)") if rnorm(st.value, gn) in (first, first + "[:2]")]
    ck.check(len(cand) == 1, "G-PROV", "get_name|prefix-and-unit-from-first-candidate", fi.loc(), "prefix and unit from the same first candidate", "prefix and unit name no longer come from the same first candidate")
    PREFIX, UNIT = first + "[0]", first + "[1]"          # what the two locals stand for, whatever they are called
    full = f"{PREFIX} + {UNIT}"
    show = lambda t_: t_.replace(PREFIX, "prefix").replace(UNIT, "unit_name")     # stable, readable report texts
    for (p, k, nd) in stores[:1]:
        t = nd.targets[0]
        key = rnorm(t.slice, gn)
        v = shape.unalias(nd.value, gn)
        ck.check(key == full, "G-PROV", "get_name|registered-under-prefix+unit", fi.loc(nd), "stored under prefix + unit_name", f"the prefixed unit is stored under `{show(key)}`")
        if isinstance(v, ast.Call) and call_name(v) == "UnitDefinition" and len(v.args) >= 5:
            a = [rnorm(x, gn) for x in v.args]
            ck.check(a[0] == full, "G-PROV", "get_name|definition-name==key", fi.loc(v), "definition name equals its key", f"the definition is named `{show(a[0])}` but stored under `{show(key)}`")
            ck.check(a[3] == f"self._prefixes[{PREFIX}].converter", "G-PROV", "get_name|prefix-converter", fi.loc(v), "scaled by that prefix's converter, once", f"the prefixed unit uses converter `{show(a[3])}`")
            ck.check(a[4] == f"self.UnitsContainer({{{UNIT}: 1}})", "G-PROV", "get_name|reference-is-unit^1", fi.loc(v), "reference is the unprefixed unit to the power 1", f"the prefixed unit references `{show(a[4])}`")
        else:
            ck.check(False, "G-PROV", "get_name|definition-shape", fi.loc(nd), "", f"unrecognised registration `{norm(nd)}`")
    cfg = cfg_of(fi)
    ret_text = lambda r: rnorm(cfg.nodes[r].ast.value, gn) if cfg.nodes[r].ast.value is not None else ""
    for r in live(cfg, return_nodes(cfg)):
        s = ret_text(r)
        ok = s in ("''", "self._units[name_or_alias].name", full, UNIT)
        ck.check(ok, "G-PROV", f"get_name|returns-canonical-name|{show(s)[:40]}", fi.loc(cfg.nodes[r].ast), "returns a canonical name", f"get_name returns `{show(s)}`")
    # the bare unit name may only be returned on an edge where PREFIX is known to be empty (if prefix: ... / if not prefix: return)
    no_prefix = shape.guard_edges(cfg, lambda a: rnorm(a, gn) == PREFIX if isinstance(a, ast.Name) else False, want=False)
    pre = no_prefix
    for r in live(cfg, return_nodes(cfg)):
        if ret_text(r) == UNIT:
            p = shape.reachable_without(cfg, [r], no_prefix)
            ck.check(bool(pre) and p is None, "G-PROV", "get_name|bare-unit-name-only-without-prefix", fi.loc(cfg.nodes[r].ast), "the bare unit name is returned only when there is no prefix",
                     "the unprefixed name can be returned although a prefix was parsed (prefix factor dropped)", witness(cfg, p))
    f = ix.func("pint.facets.plain.definitions", "PrefixDefinition.converter")
    ck.check(returns(f, "ScaleConverter(self.value)"), "G-PROV", "PrefixDefinition.converter|scale-is-prefix-value", f.loc(), "prefix converter scales by the prefix value", "PrefixDefinition.converter is no longer ScaleConverter(self.value)")

    # ------------------------------------------------------------ _convert: twin branches; convert(): identity
    fi = ix.func(PR, "GenericPlainRegistry._convert")
    # whatever the split between the in-place and the functional form looks like: on every path to a normal return the
    # value is multiplied by the conversion factor exactly once (value *= f  /  value = value * f  /  return value * f)
    cfgc, dfc = cfg_of(fi), defs_of(fi)
    def factorish(e):
        r = dfc.roots(e)
        return "call:_get_conversion_factor" in r
    mults = []
    for n in cfgc.nodes:
        a_ = n.ast
        if n.kind != "stmt" or a_ is None:
            continue
        if isinstance(a_, ast.AugAssign) and norm(a_.target) == "value":
            mults.append((n.id, isinstance(a_.op, ast.Mult) and factorish(a_.value), a_))
        else:
            for b_ in ast.walk(a_):
                if isinstance(b_, ast.BinOp) and isinstance(b_.op, (ast.Mult, ast.Div, ast.Add, ast.Sub)) and ("value" in (norm(b_.left), norm(b_.right))):
                    other_ = b_.right if norm(b_.left) == "value" else b_.left
                    mults.append((n.id, isinstance(b_.op, ast.Mult) and factorish(other_), b_))
    ck.check(bool(mults) and all(ok_ for _, ok_, _ in mults), "G-TWIN", "_convert|both-forms-multiply-by-factor", fi.loc(), "the value is only ever multiplied by the conversion factor",
             f"_convert combines the value with something other than `* factor`: {[norm(x) for _, ok_, x in mults if not ok_]}")
    mids = [m for m, _, _ in mults]
    for r in live(cfgc, return_nodes(cfgc)):
        p_ = cfgc.all_paths_pass(cfgc.entry, [r], mids)
        ck.check(p_ is None or r in mids, "G-TWIN", "_convert|inplace-split", fi.loc(cfgc.nodes[r].ast), "every return is preceded by the multiplication", "a path through _convert returns the value without multiplying it by the factor", witness(cfgc, p_) if r not in mids else None)
    for m in mids:
        twice = [x for x in mids if x != m and x in cfgc.reach([v for (v, lab) in cfgc.succ[m] if lab != "exc"])]
        ck.check(not twice, "G-TWIN", "_convert|factor-applied-once", fi.loc(cfgc.nodes[m].ast), "the factor is applied once per path", "a path through _convert applies the factor twice")
    # a (possibly float) factor enters an exact magnitude type only through its shortest decimal text: Decimal(0.001) is
    # the binary expansion 0.001000000000000000020816..., Decimal(str(0.001)) is 0.001
    exact_ctor = [c_ for c_ in walk_local(fi.node) if isinstance(c_, ast.Call) and call_name(c_) in ("Decimal", "Fraction") and c_.args and factorish(c_.args[0])]
    ck.floor("G-PROV", len(exact_ctor), 2, "coercions of the conversion factor to Decimal / Fraction in _convert")
    for c_ in exact_ctor:
        a0 = c_.args[0]
        ok_ = isinstance(a0, ast.Call) and call_name(a0) in ("str", "repr") and len(a0.args) == 1
        ck.check(ok_, "G-PROV", f"_convert|factor-enters-exact-type-through-its-text|{call_name(c_)}", fi.loc(c_), "Decimal/Fraction of the factor is built from str(factor)",
                 f"`{norm(c_)}` converts the conversion factor to {call_name(c_)} from the binary float itself: Decimal magnitudes pick up the float's binary expansion (1.5 mm -> 0.001500000000000000031225 m)")
    fi = ix.func(PR, "GenericPlainRegistry.convert")
    cfg = cfg_of(fi)
    same = shape.guard_edges(cfg, lambda a: norm(a) in ("src == dst", "dst == src"), want=True)
    ok = bool(same) and all(isinstance(cfg.nodes[v].ast, ast.Return) and rnorm(cfg.nodes[v].ast.value, fi.node) == "value" for (t, lab) in same for (v, l2) in cfg.succ[t] if l2 == lab)
    ck.check(ok, "G-PROV", "convert|identity-between-equal-units", fi.loc(), "equal units return the value unchanged", "convert no longer returns the value unchanged for equal units")
    c = [x for x in walk_local(fi.node) if isinstance(x, ast.Call) and call_name(x) == "_convert"]
    ck.check(bool(c) and [norm(a) for a in c[0].args][:3] == ["value", "src", "dst"], "G-PROV", "convert|src-dst-order", fi.loc(), "delegates (value, src, dst)", "convert passes src/dst in the wrong order")
    from .C10 import parser_entry_rule
    parser_entry_rule(ck, ix)  # literals of definitions are read in the registry's numeric type on every entry path
    from .C03 import scalar_coercion_rule
    scalar_coercion_rule(ck, ix)  # int/float/complex apply the conversion to no units
    return EXPLANATION
