"""C02 — conversion factors equal the exact ratio implied by the written definitions."""
from __future__ import annotations

import ast

from .. import memo
from ..flow import call_name, dotted, norm, writes_in
from ..index import AnalysisError, walk_local
from ..lib import cfg_of, defs_of, live, nodes_with, return_nodes, undominated, witness
from .C01 import recursion_exponent_rule

PR = "pint.facets.plain.registry"
U = "pint.util"

EXPLANATION = (
    "Static analysis (no execution): G-MEMO key/orientation/hit rules for the root_units and conversion_factor memos "
    "(stored under the looked-up key, which must be the unit pair itself; the factor for key (src, dst) is the first "
    "component of _get_root_units(src / dst); the expansion starts from the looked-up container with exponent 1 and an "
    "accumulator of 1; a disk cache that was loaded is installed); exponent bookkeeping of _get_root_units_recurse "
    "(combined exponent = outer * inner, carried into recursion, base-unit accumulation and scale ** exponent); "
    "G-PROV numeric-type rules (number tokens reach non_int_type(...) as text, ints tried first in float registries, no "
    "float()/float literal/math.* on the factor path, exponents normalised with the container's non_int_type); "
    "registration consistency of on-the-fly prefixed units in get_name (one store, key == name == returned string == "
    "prefix + unit, converter of that prefix, reference {unit: 1} from the same candidate); in-place and functional "
    "multiplication by the factor agree; equal units short-circuit to the identity. Also decided: every text entry path of the definition parser (file, string, define) uses the registry's ParserConfig(non_int_type) and parse_file/parse_string are siblings; int/float/complex of a dimensionless quantity use the magnitude converted to no units. Does not decide the value of any "
    "factor, float accuracy or path independence.")

FACTOR_PATH = [(PR, "GenericPlainRegistry._get_root_units"), (PR, "GenericPlainRegistry._get_root_units_recurse"),
               (PR, "GenericPlainRegistry._get_conversion_factor"), (PR, "GenericPlainRegistry._convert"),
               ("pint.facets.plain.definitions", "ScaleConverter.to_reference"), ("pint.facets.plain.definitions", "ScaleConverter.from_reference"),
               (U, "ParserHelper.eval_token"), ("pint.delegates.base_defparser", "ParserConfig.to_number"),
               (U, "UnitsContainer._normalize_nonfloat_value")]


def run(ck, ix, tier):
    memo.rule_root_units_memo(ck, ix)
    memo.rule_conversion_factor_memo(ck, ix)
    memo.rule_disk_cache_hit(ck, ix)
    recursion_exponent_rule(ck, ix, "GenericPlainRegistry._get_root_units_recurse")

    # root expansion: names are canonicalised per key inside the loop (never merged beforehand), base units accumulate
    fi = ix.func(PR, "GenericPlainRegistry._get_root_units_recurse")
    from .. import shape
    src = norm(fi.node)
    looks = [x for x in walk_local(fi.node) if isinstance(x, ast.Subscript) and isinstance(x.ctx, ast.Load) and norm(x.value) == "self._units"]
    okl = bool(looks) and all(isinstance(shape.resolve(x.slice, fi.node), ast.Call) and call_name(shape.resolve(x.slice, fi.node)) == "get_name" for x in looks)
    ck.check(okl, "G-PROV", "_get_root_units_recurse|definition-of-canonical-name", fi.loc(looks[0]) if looks else fi.loc(), "each unit is looked up under its canonical name", "the unit definition is no longer looked up under get_name(key)")
    is_base = lambda a: isinstance(a, ast.Attribute) and a.attr == "is_base"
    has_ref = lambda a: isinstance(a, ast.Compare) and isinstance(a.ops[0], ast.Is) and norm(a.comparators[0]) == "None" and "reference" in shape.rnorm(a.left, fi.node)
    augs = [a_ for a_ in walk_local(fi.node) if isinstance(a_, ast.AugAssign) and isinstance(a_.target, ast.Subscript) and norm(a_.target.value) == "accumulators"]
    adds = [a_ for a_ in augs if isinstance(a_.op, ast.Add)]
    muls = [a_ for a_ in augs if isinstance(a_.op, ast.Mult)]
    recs = [c_ for c_ in walk_local(fi.node) if isinstance(c_, ast.Call) and call_name(c_) == "_get_root_units_recurse"]
    okb = len(adds) == 1 and len(muls) == 1 and len(recs) == 1 and shape.holds_at(adds[0], fi.node, is_base, True) and shape.holds_at(muls[0], fi.node, is_base, False) \
        and shape.holds_at(recs[0], fi.node, is_base, False) and shape.holds_at(recs[0], fi.node, has_ref, False) and norm(muls[0].target.slice) == "None"
    ck.check(okb, "G-PROV", "_get_root_units_recurse|base-or-reference", fi.loc(), "base units accumulate their exponent, derived units fold their scale into the prefactor and recurse into their reference", "the base/derived case split of the root-unit expansion changed")
    fi = ix.func(PR, "GenericPlainRegistry._get_root_units")
    src = norm(fi.node)
    # the factor is the scalar (None) slot of the accumulator - read or popped; the units are the other slots with a
    # non-zero exponent (the None slot is excluded by a filter or because it was popped before the comprehension)
    rets = [r for r in shape.returns_of(fi.node) if isinstance(r.value, ast.Tuple) and len(r.value.elts) == 2]
    scalar = lambda e: norm(e) in ("accumulators[None]", "accumulators.pop(None)")
    fvals = [shape.resolve(r.value.elts[0], fi.node) for r in rets]
    ck.check(bool(rets) and all(scalar(v) or (isinstance(v, ast.Constant) and v.value is None) or norm(v) == "factor" for v in fvals) and any(scalar(v) for v in fvals) or
             any(isinstance(a_, ast.Assign) and norm(a_.targets[0]) == "factor" and scalar(a_.value) for a_ in walk_local(fi.node)),
             "G-PROV", "_get_root_units|factor-is-scalar-accumulator", fi.loc(), "factor read from the scalar accumulator", "the factor is no longer the scalar (None) slot of the accumulator")
    ucs = [c for c in walk_local(fi.node) if isinstance(c, ast.Call) and norm(c.func) in ("self.UnitsContainer", "UnitsContainer") and c.args]
    okc = False
    for c in ucs:
        ef = shape.entry_facts(fi.node, c.args[0])
        if ef is None or "accumulators" not in ef[1]:
            continue
        facts, _src = ef
        popped = any(isinstance(c_, ast.Call) and norm(c_) == "accumulators.pop(None)" and c_.lineno < c.lineno for c_ in walk_local(fi.node))
        okc = okc or (((("K is None", False) in facts) or popped) and ((("V == 0", False) in facts) or (("V", True) in facts)))
    ck.check(okc, "G-CANON",
             "_get_root_units|units-without-scalar-slot-and-zeros", fi.loc(), "root units exclude the scalar slot and zero exponents", "the root-units container can keep the scalar slot or zero exponents")

    # ------------------------------------------------------------ numeric type: literals never pass through float
    fi = ix.func(U, "ParserHelper.eval_token")
    ck.analysed(fi)
    # by facts, not by branch shape: every return / conversion call is classified by whether `non_int_type is float`
    # is known to hold (or not) where it executes
    is_float = lambda a_: norm(a_) in ("non_int_type is float", "float is non_int_type")
    isnt_float = lambda a_: norm(a_) in ("non_int_type is not float", "float is not non_int_type")
    fl = lambda n_: shape.holds_at(n_, fi.node, is_float, True) or shape.holds_at(n_, fi.node, isnt_float, False)
    ex = lambda n_: shape.holds_at(n_, fi.node, is_float, False) or shape.holds_at(n_, fi.node, isnt_float, True)
    allr = [r for r in shape.returns_of(fi.node)]
    ck.check(any(fl(r) for r in allr) or any(ex(r) for r in allr), "G-PROV", "eval_token|float-registry-test", fi.loc(), "float registries are distinguished", "the `non_int_type is float` case split is gone")
    exact = [r for r in allr if ex(r)]
    ck.floor("G-PROV", len(exact), 1, "return in the non-float branch of eval_token")
    for r in exact:
        v = r.value
        ok = isinstance(v, ast.Call) and norm(v.func) == "non_int_type" and len(v.args) == 1 and shape.rnorm(v.args[0], fi.node) == "token.string"
        ck.check(ok, "G-PROV", "eval_token|literal-text-to-non_int_type", fi.loc(r), "the token text is handed to non_int_type unchanged",
                 f"`{norm(r)}`: in Decimal/Fraction registries a numeric literal must be converted from its text by non_int_type (no float/int detour)")
    convs = [c for c in walk_local(fi.node) if isinstance(c, ast.Call) and call_name(c) in ("float", "int", "eval", "complex")]
    bad = [c for c in convs if ex(c)]
    ck.check(not bad, "G-PROV", "eval_token|no-float-detour-in-exact-registries", fi.loc(bad[0]) if bad else fi.loc(), "no float()/int() in the exact branch",
             f"`{norm(bad[0]) if bad else ''}` converts the literal through a binary float/int in a Decimal/Fraction registry")
    ok = False
    for t in [t for t in walk_local(fi.node) if isinstance(t, ast.Try)]:
        in_body = [c for s_ in t.body for c in ast.walk(s_) if isinstance(c, ast.Call) and call_name(c) == "int" and fl(c)]
        in_handler = [c for h in t.handlers for c in ast.walk(h) if isinstance(c, ast.Call) and call_name(c) == "float"]
        ok = ok or (bool(in_body) and bool(in_handler))
    ck.check(ok, "G-PROV", "eval_token|integers-stay-integers", fi.loc(), "int() is tried before float()", "in float registries integer literals are no longer tried as int first")
    fi = ix.func(PR, "GenericPlainRegistry._eval_token")
    ck.analysed(fi)
    src = norm(fi.node)
    ck.check("return ParserHelper.eval_token(token, non_int_type=self.non_int_type)" in src, "G-PROV", "_eval_token|numbers-in-registry-type", fi.loc(), "NUMBER tokens are evaluated in the registry's numeric type", "NUMBER tokens are no longer evaluated with the registry's non_int_type")
    ck.check("self.non_int_type('inf')" in src and "self.non_int_type('nan')" in src, "G-PROV", "_eval_token|inf-nan-in-registry-type", fi.loc(), "inf/nan in the registry's numeric type", "inf/nan are no longer built with non_int_type")
    fi = ix.func("pint.delegates.base_defparser", "ParserConfig.to_number")
    ck.analysed(fi)
    src = norm(fi.node)
    ck.check("self.to_scaled_units_container(s)" in src and "return val.scale" in src, "G-PROV", "ParserConfig.to_number|scale-of-parsed-expression", fi.loc(), "numbers in definitions are the scale of the expression parsed in non_int_type", "ParserConfig.to_number no longer returns the scale parsed in non_int_type")
    fi = ix.func("pint.delegates.base_defparser", "ParserConfig.to_scaled_units_container")
    ck.check("ParserHelper.from_string(s, self.non_int_type)" in norm(fi.node), "G-PROV", "ParserConfig|parses-in-non_int_type", fi.loc(), "definition expressions parsed with non_int_type", "definition expressions are no longer parsed with the configured non_int_type")
    # exponents
    for q in ("UnitsContainer.__init__", "UnitsContainer._normalize_nonfloat_value"):
        f = ix.func(U, q)
        ck.analysed(f)
        conv = [c for c in walk_local(f.node) if isinstance(c, ast.Call) and norm(c.func) == "self._non_int_type"]
        ck.check(bool(conv) and "isinstance(value, int)" in norm(f.node), "G-PROV", f"{q}|non-int-exponents-in-non_int_type", f.loc(), "non-int exponents are converted to the container's numeric type, ints kept",
                 f"{q} no longer converts non-integer exponents with self._non_int_type")
    # no float on the factor path
    n = 0
    for mod, q in FACTOR_PATH:
        f = ix.func(mod, q)
        ck.analysed(f)
        n += 1
        bad = []
        for x in walk_local(f.node):
            if isinstance(x, ast.Call) and call_name(x) == "float":
                bad.append(x)
            elif isinstance(x, ast.Constant) and isinstance(x.value, float):
                bad.append(x)
            elif isinstance(x, ast.Attribute) and dotted(x.value) == "math":
                bad.append(x)
        if q.endswith("eval_token"):
            bad = [b for b in bad if not (isinstance(b, ast.Call) and norm(b) == "float(token_text)")]
        ck.check(not bad, "G-PROV", f"no-float-on-factor-path|{q}", f.loc(bad[0]) if bad else f.loc(), "no float()/float literal/math.* on the factor path",
                 f"`{norm(bad[0]) if bad else ''}` introduces binary floating point on the conversion-factor path of exact registries")
    ck.floor("G-PROV", n, 5, "functions on the factor path scanned for float contamination")

    # ------------------------------------------------------------ get_name: on-the-fly prefixed units
    from ..lib import inlined as _inl
    fi = _inl(ix, ix.func(PR, "GenericPlainRegistry.get_name"), skip=("_helper_adder", "_helper_single_adder"))     # an extracted `_define_prefixed_unit` is looked through
    ck.analysed(fi)
    defs = defs_of(fi)
    stores = [(p, k, nd) for (p, k, nd) in writes_in(fi.node) if p.startswith("self._units") and "casei" not in p and isinstance(nd, ast.Assign)]
    ck.check(len(stores) == 1, "G-OWN", "get_name|exactly-one-registration", fi.loc(stores[1][2]) if len(stores) > 1 else fi.loc(),
             "one registration of the prefixed unit", f"get_name writes the unit table {len(stores)} times (a prefixed unit must be registered under its long name only; other spellings can shadow defined units)")
    cas = [(p, k, nd) for (p, k, nd) in writes_in(fi.node) if "_units_casei" in p]
    ck.check(not cas, "G-OWN", "get_name|prefixed-units-not-in-casei-index", fi.loc(cas[0][2]) if cas else fi.loc(),
             "on-the-fly prefixed units stay out of the case-insensitive index (the prefix search relies on it)",
             "get_name enters the on-the-fly prefixed unit into _units_casei: prefixes would then apply to prefixed units (kilomillifoot) depending on lookup history")
    for (p, k, nd) in stores[:1]:
        t = nd.targets[0]
        key = norm(defs.inline(t.slice))
        v = nd.value
        ck.check(key == "prefix + unit_name", "G-PROV", "get_name|registered-under-prefix+unit", fi.loc(nd), "stored under prefix + unit_name", f"the prefixed unit is stored under `{key}`")
        if isinstance(v, ast.Call) and call_name(v) == "UnitDefinition":
            a = [norm(defs.inline(x)) for x in v.args]
            ck.check(a[0] == "prefix + unit_name", "G-PROV", "get_name|definition-name==key", fi.loc(v), "definition name equals its key", f"the definition is named `{a[0]}` but stored under `{key}`")
            ck.check(a[3] == "self._prefixes[prefix].converter", "G-PROV", "get_name|prefix-converter", fi.loc(v), "scaled by that prefix's converter, once", f"the prefixed unit uses converter `{a[3]}`")
            ck.check(a[4] == "self.UnitsContainer({unit_name: 1})", "G-PROV", "get_name|reference-is-unit^1", fi.loc(v), "reference is the unprefixed unit to the power 1", f"the prefixed unit references `{a[4]}`")
        else:
            ck.check(False, "G-PROV", "get_name|definition-shape", fi.loc(nd), "", f"unrecognised registration `{norm(nd)}`")
    cand = [a for a in walk_local(fi.node) if isinstance(a, ast.Assign) and isinstance(a.targets[0], ast.Tuple) and norm(a.value) == "candidates[0]"]
    ck.check(len(cand) == 1 and [norm(e) for e in cand[0].targets[0].elts][:2] == ["prefix", "unit_name"], "G-PROV", "get_name|prefix-and-unit-from-first-candidate", fi.loc(), "prefix and unit from the same first candidate", "prefix and unit name no longer come from the same first candidate")
    cfg = cfg_of(fi)
    for r in live(cfg, return_nodes(cfg)):
        v = cfg.nodes[r].ast.value
        s = norm(defs.inline(v)) if v is not None else ""
        ok = s in ("''", "self._units[name_or_alias].name", "prefix + unit_name", "unit_name")
        ck.check(ok, "G-PROV", f"get_name|returns-canonical-name|{s[:40]}", fi.loc(cfg.nodes[r].ast), "returns a canonical name", f"get_name returns `{s}`")
    # the bare unit name may only be returned on an edge where `prefix` is known to be empty (if prefix: ... / if not prefix: return)
    no_prefix = shape.guard_edges(cfg, lambda a: isinstance(a, ast.Name) and a.id == "prefix", want=False)
    pre = no_prefix
    for r in live(cfg, return_nodes(cfg)):
        v = cfg.nodes[r].ast.value
        if v is not None and norm(defs.inline(v)) == "unit_name":
            p = shape.reachable_without(cfg, [r], no_prefix)
            ck.check(bool(pre) and p is None, "G-PROV", "get_name|bare-unit-name-only-without-prefix", fi.loc(cfg.nodes[r].ast), "the bare unit name is returned only when there is no prefix",
                     "the unprefixed name can be returned although a prefix was parsed (prefix factor dropped)", witness(cfg, p))
    f = ix.func("pint.facets.plain.definitions", "PrefixDefinition.converter")
    ck.check("ScaleConverter(self.value)" in norm(f.node), "G-PROV", "PrefixDefinition.converter|scale-is-prefix-value", f.loc(), "prefix converter scales by the prefix value", "PrefixDefinition.converter is no longer ScaleConverter(self.value)")

    # ------------------------------------------------------------ _convert: twin branches; convert(): identity
    fi = ix.func(PR, "GenericPlainRegistry._convert")
    # whatever the split between the in-place and the functional form looks like: on every path to a normal return the
    # value is multiplied by the conversion factor exactly once (value *= f  /  value = value * f  /  return value * f)
    cfgc, dfc = cfg_of(fi), defs_of(fi)
    def factorish(e):
        r = dfc.roots(e)
        return "call:_get_conversion_factor" in r
    mults = []
    for n in cfgc.nodes:
        a_ = n.ast
        if n.kind != "stmt" or a_ is None:
            continue
        if isinstance(a_, ast.AugAssign) and norm(a_.target) == "value":
            mults.append((n.id, isinstance(a_.op, ast.Mult) and factorish(a_.value), a_))
        else:
            for b_ in ast.walk(a_):
                if isinstance(b_, ast.BinOp) and isinstance(b_.op, (ast.Mult, ast.Div, ast.Add, ast.Sub)) and ("value" in (norm(b_.left), norm(b_.right))):
                    other_ = b_.right if norm(b_.left) == "value" else b_.left
                    mults.append((n.id, isinstance(b_.op, ast.Mult) and factorish(other_), b_))
    ck.check(bool(mults) and all(ok_ for _, ok_, _ in mults), "G-TWIN", "_convert|both-forms-multiply-by-factor", fi.loc(), "the value is only ever multiplied by the conversion factor",
             f"_convert combines the value with something other than `* factor`: {[norm(x) for _, ok_, x in mults if not ok_]}")
    mids = [m for m, _, _ in mults]
    for r in live(cfgc, return_nodes(cfgc)):
        p_ = cfgc.all_paths_pass(cfgc.entry, [r], mids)
        ck.check(p_ is None or r in mids, "G-TWIN", "_convert|inplace-split", fi.loc(cfgc.nodes[r].ast), "every return is preceded by the multiplication", "a path through _convert returns the value without multiplying it by the factor", witness(cfgc, p_) if r not in mids else None)
    for m in mids:
        twice = [x for x in mids if x != m and x in cfgc.reach([v for (v, lab) in cfgc.succ[m] if lab != "exc"])]
        ck.check(not twice, "G-TWIN", "_convert|factor-applied-once", fi.loc(cfgc.nodes[m].ast), "the factor is applied once per path", "a path through _convert applies the factor twice")
    fi = ix.func(PR, "GenericPlainRegistry.convert")
    cfg = cfg_of(fi)
    idt = [n.id for n in cfg.nodes if n.kind == "test" and norm(n.ast) in ("src == dst", "dst == src")]
    ok = bool(idt) and all(isinstance(cfg.nodes[v].ast, ast.Return) and norm(cfg.nodes[v].ast.value) == "value" for t in idt for (v, lab) in cfg.succ[t] if lab == "t")
    ck.check(ok, "G-PROV", "convert|identity-between-equal-units", fi.loc(), "equal units return the value unchanged", "convert no longer returns the value unchanged for equal units")
    c = [x for x in walk_local(fi.node) if isinstance(x, ast.Call) and call_name(x) == "_convert"]
    ck.check(bool(c) and [norm(a) for a in c[0].args][:3] == ["value", "src", "dst"], "G-PROV", "convert|src-dst-order", fi.loc(), "delegates (value, src, dst)", "convert passes src/dst in the wrong order")
    from .C10 import parser_entry_rule
    parser_entry_rule(ck, ix)  # literals of definitions are read in the registry's numeric type on every entry path
    from .C03 import scalar_coercion_rule
    scalar_coercion_rule(ck, ix)  # int/float/complex apply the conversion to no units
    return EXPLANATION
