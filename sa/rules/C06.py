"""C06 — offset and logarithmic units convert by their defining maps and refuse ambiguity."""
from __future__ import annotations

import ast
import itertools

from .. import absint, inverse
from ..flow import call_name, dotted, norm
from ..index import AnalysisError, walk_local
from ..lib import (cfg_of, defs_of, edge_leads_only_to_raise, edge_successors, is_super_call, live,
                   node_has, nodes_calling, nodes_with, undominated, witness)

NR = "pint.facets.nonmultiplicative.registry"
NO = "pint.facets.nonmultiplicative.objects"
ND = "pint.facets.nonmultiplicative.definitions"
PD = "pint.facets.plain.definitions"
PQ = "pint.facets.plain.quantity"

EXPLANATION = (
    "Static analysis (no execution): G-INV/G-TWIN term rewriting on Scale/Offset/LogarithmicConverter (the in-place "
    "branch equals the functional branch; from_reference is the exact inverse op-sequence of to_reference); typestate "
    "order in NonMultiplicativeRegistry._convert (to_reference iff a source offset unit, with that unit's converter, "
    "before super()._convert, before from_reference with the destination unit's converter; validation failures become "
    "DimensionalityError; delta/offset mixing refused); the offset calculus of _add_sub/_iadd_sub as a decision table "
    "(branch conditions, converted operand, conversion target and result units per branch are extracted, must agree "
    "between the functional and in-place twin and with the table of docs/user/nonmult.rst, final else raises "
    "OffsetUnitCalculusError); exhaustive abstract interpretation of _ok_for_muldiv over its finite case space against "
    "the documented rule; every use of the multiplicativity predicates is a call and its failing edge raises in "
    "_mul_div/_imul_div/__rtruediv__, a single offset unit goes through root units; powers of non-multiplicative "
    "quantities raise unless autoconvert converts to root/base units first; _add_unit builds the delta_ twin from the "
    "same scale and reference. Does not decide numerical results.")

SPEC_OK_FOR_MULDIV = "ok iff no offset unit, or exactly one offset unit that is the only unit, has exponent 1, and autoconvert_offset_to_baseunit is on"


def run(ck, ix, tier):
    ck.rule("G-INV", "from_reference is the inverse op-sequence of to_reference")
    ck.rule("G-TWIN", "in-place and functional forms have the same effect")
    ck.rule("G-TABLE", "extracted decision table equals the documented one")
    ck.rule("G-ABSINT", "exhaustive abstract evaluation of a predicate over its finite case space")
    # ------------------------------------------------------------ (a) converters
    convs = [(PD, "ScaleConverter"), (ND, "OffsetConverter"), (ND, "LogarithmicConverter")]
    for mod, cn in convs:
        ci = ix.cls(mod, cn)
        to, fr = ci.methods.get("to_reference"), ci.methods.get("from_reference")
        if to is None or fr is None:
            raise AnalysisError(f"{cn}: to_reference/from_reference not found")
        ck.analysed(to, fr)
        try:
            ti, tf = inverse.method_branches(to.node)
            fi_, ff = inverse.method_branches(fr.node)
        except inverse.NotInFragment as e:
            raise AnalysisError(f"{cn}: {e}")
        ck.check(ti == tf, "G-TWIN", f"{cn}.to_reference|inplace==functional", to.loc(), inverse.show(tf),
                 f"in-place branch computes [{inverse.show(ti)}] but the functional branch computes [{inverse.show(tf)}]")
        ck.check(fi_ == ff, "G-TWIN", f"{cn}.from_reference|inplace==functional", fr.loc(), inverse.show(ff),
                 f"in-place branch computes [{inverse.show(fi_)}] but the functional branch computes [{inverse.show(ff)}]")
        ck.check(inverse.inverse(tf) == ff, "G-INV", f"{cn}|from_reference-inverts-to_reference", fr.loc(),
                 f"to: [{inverse.show(tf)}]  from: [{inverse.show(ff)}]",
                 f"from_reference [{inverse.show(ff)}] is not the inverse of to_reference [{inverse.show(tf)}] (expected [{inverse.show(inverse.inverse(tf))}])")
        ck.check(inverse.inverse(ti) == fi_, "G-INV", f"{cn}|inplace-from_reference-inverts-inplace-to_reference", fr.loc(),
                 "in-place directions are mutually inverse",
                 f"in-place from_reference [{inverse.show(fi_)}] is not the inverse of in-place to_reference [{inverse.show(ti)}]")
    # shape of the defining maps
    oc = ix.cls(ND, "OffsetConverter")
    _, tf = inverse.method_branches(oc.methods["to_reference"].node)
    ck.check(tf == [("M", (("self.scale", 1),)), ("A", (("self.offset", 1),))], "G-INV", "OffsetConverter.to_reference|value*scale+offset", oc.methods["to_reference"].loc(),
             "reference = value * scale + offset", f"to_reference computes [{inverse.show(tf)}], not value*scale + offset")
    lc = ix.cls(ND, "LogarithmicConverter")
    _, ff = inverse.method_branches(lc.methods["from_reference"].node)
    want = [("M", (("self.scale", -1),)), ("F", "log"), ("M", (("log(self.logbase)", -1), ("self.logfactor", 1)))]
    ck.check(ff == want, "G-INV", "LogarithmicConverter.from_reference|logfactor*log(value/scale)/log(logbase)", lc.methods["from_reference"].loc(),
             "log value = logfactor * log(value/scale) / log(logbase)", f"from_reference computes [{inverse.show(ff)}], expected [{inverse.show(want)}]")
    f = oc.methods["is_multiplicative"]
    ck.check("self.offset == 0" in norm(f.node), "G-PROV", "OffsetConverter.is_multiplicative|offset==0", f.loc(), "multiplicative iff offset == 0", "OffsetConverter.is_multiplicative is no longer `offset == 0`")
    f = lc.methods["is_multiplicative"]
    ck.check("return False" in norm(f.node), "G-PROV", "LogarithmicConverter.is_multiplicative|false", f.loc(), "log units are never multiplicative", "LogarithmicConverter.is_multiplicative no longer returns False")

    # ------------------------------------------------------------ (b) two-stage conversion
    fi = ix.func(NR, "GenericNonMultiplicativeRegistry._convert")
    ck.analysed(fi)
    cfg, defs = cfg_of(fi), defs_of(fi)
    sup = nodes_with(cfg, lambda x: is_super_call(x, "_convert"))
    tor = nodes_calling(cfg, "to_reference")
    frr = nodes_calling(cfg, "from_reference")
    ck.check(len(tor) == 1 and len(frr) == 1, "G-TYPESTATE", "nonmult_convert|one-to_reference-one-from_reference", fi.loc(),
             "one to_reference and one from_reference application", f"{len(tor)} to_reference and {len(frr)} from_reference applications found")
    for kind, nodes, var, other in (("to_reference", tor, "src_offset_unit", "dst"), ("from_reference", frr, "dst_offset_unit", "src")):
        for t in nodes:
            c = [c for c in ast.walk(cfg.nodes[t].ast) if isinstance(c, ast.Call) and call_name(c) == kind][0]
            recv = norm(c.func.value)
            ck.check(recv == f"self._units[{var}].converter", "G-PROV", f"nonmult_convert|{kind}-uses-{var}-converter", fi.loc(c),
                     f"{kind} applied with the converter of {var}", f"`{norm(c)}` applies the converter `{recv}`, not that of `{var}`")
            ck.check(len(c.args) >= 1 and norm(c.args[0]) == "value", "G-PROV", f"nonmult_convert|{kind}-on-running-value", fi.loc(c), "applied to the running value", f"`{norm(c)}` is not applied to `value`")
            tgt = getattr(c, "_parent", None)
            ck.check(isinstance(tgt, ast.Assign) and norm(tgt.targets[0]) == "value", "G-ERR-d", f"nonmult_convert|{kind}-result-kept", fi.loc(c), "result assigned back to value", f"the result of `{norm(c)}` is discarded")
            gates = [n.id for n in cfg.nodes if n.kind == "test" and norm(n.ast) == var]
            bad = cfg.all_paths_pass(cfg.entry, [t], [], avoid_edges=[(g, "t") for g in gates])
            ck.check(bool(gates) and bad is None, "G-DOM", f"nonmult_convert|{kind}-iff-{var}", fi.loc(c), f"only when {var} was extracted", f"{kind} can run although no {var} was extracted", witness(cfg, bad))
    for t in tor:
        p = None
        for s in [v for (v, lab) in cfg.succ[t] if lab != "exc"]:
            p = p or cfg.path(s, [cfg.exit], avoid=set(sup))
        ck.check(p is None, "G-TYPESTATE", "nonmult_convert|to_reference-before-multiplicative-conversion", fi.loc(cfg.nodes[t].ast),
                 "to_reference is followed by the multiplicative conversion", "after to_reference a normal exit is reachable without super()._convert", witness(cfg, p))
    for t in frr:
        p = undominated(cfg, [t], sup)
        ck.check(p is None, "G-TYPESTATE", "nonmult_convert|from_reference-after-multiplicative-conversion", fi.loc(cfg.nodes[t].ast),
                 "from_reference only after the multiplicative conversion", "from_reference can run before super()._convert", witness(cfg, p))
    for s in sup:
        for t in tor:
            p = cfg.path(s, [t])
            ck.check(p is None, "G-TYPESTATE", "nonmult_convert|no-to_reference-after-multiplicative-conversion", fi.loc(cfg.nodes[t].ast), "order to_reference < convert", "to_reference reachable after super()._convert")
    # extraction and error translation
    for var, arg in (("src_offset_unit", "src"), ("dst_offset_unit", "dst")):
        v = [val for val, k, s in defs.defs.get(var, []) if val is not None]
        ck.check(len(v) == 1 and norm(v[0]) == f"self._validate_and_extract({arg})", "G-PROV", f"nonmult_convert|{var}-extracted-from-{arg}", fi.loc(),
                 f"{var} = _validate_and_extract({arg})", f"{var} is `{norm(v[0]) if v else '?'}`")
    trys = [t for t in walk_local(fi.node) if isinstance(t, ast.Try) and any(isinstance(c, ast.Call) and call_name(c) == "_validate_and_extract" for s in t.body for c in ast.walk(s))]
    ck.check(len(trys) == 2, "G-ERR", "nonmult_convert|validation-in-try", fi.loc(), "both validations are guarded", f"{len(trys)} guarded validations found (expected 2)")
    for t in trys:
        ok = any(h.type is not None and norm(h.type) == "ValueError" and any(isinstance(r, ast.Raise) and "DimensionalityError" in norm(r) for r in ast.walk(h)) for h in t.handlers)
        ck.check(ok, "G-ERR", "nonmult_convert|validation-failure-becomes-DimensionalityError", fi.loc(t), "ValueError from validation re-raised as DimensionalityError",
                 "a failed offset-unit validation is no longer turned into DimensionalityError")
    for var, cont in (("src_offset_unit", "src"), ("dst_offset_unit", "dst")):
        rm = [c for c in walk_local(fi.node) if isinstance(c, ast.Call) and call_name(c) == "remove" and norm(c.func.value) == cont]
        ck.check(len(rm) == 1 and norm(rm[0].args[0]) == f"[{var}]", "G-PROV", f"nonmult_convert|{cont}-offset-unit-removed", fi.loc(), f"{var} removed from {cont}",
                 f"the offset unit is not removed from `{cont}` before the multiplicative conversion")
        ad = [c for c in walk_local(fi.node) if isinstance(c, ast.Call) and call_name(c) == "_add_ref_of_log_or_offset_unit" and norm(c.args[0]) == var]
        ck.check(len(ad) == 1 and norm(ad[0].args[1]) == cont, "G-PROV", f"nonmult_convert|{cont}-reference-unit-added", fi.loc(), f"reference unit of {var} added to {cont}",
                 f"the reference unit of `{var}` is not added back to `{cont}`")
    # delta guard: converting offset -> delta (or delta -> offset) is refused
    from .. import shape as _sh6
    dg = [t for t in walk_local(fi.node) if isinstance(t, ast.If) and "startswith('delta_')" in norm(_sh6.expand(ix, fi, t.test)).replace('"', "'")]  # sees through a private helper / module constant
    ck.check(len(dg) == 2 and all(any(isinstance(r, ast.Raise) and "DimensionalityError" in norm(r) for r in ast.walk(t)) for t in dg), "G-DOM", "nonmult_convert|offset-delta-mixing-refused", fi.loc(),
             "offset <-> delta conversion raises DimensionalityError", "the refusal of offset <-> delta conversions is gone")
    for t in dg:
        par = getattr(t, "_parent", None)
        which = norm(par.test) if isinstance(par, ast.If) else "?"
        it = "dst" if which == "src_offset_unit" else "src"
        ck.check(f" in {it}" in norm(_sh6.expand(ix, fi, t.test)) or norm(t.test).endswith(f"({it})"), "G-DOM", f"nonmult_convert|delta-guard-looks-at-other-side|{which}", fi.loc(t), f"inside `if {which}` the other side ({it}) is searched for delta units",
                 f"`{norm(t.test)}` inside `if {which}` does not inspect `{it}`")

    # _validate_and_extract
    fi = ix.func(NR, "GenericNonMultiplicativeRegistry._validate_and_extract")
    ck.analysed(fi)
    cfg = cfg_of(fi)
    src = norm(fi.node)
    # the list of non-multiplicative (unit, exponent) pairs, whatever it is called: a comprehension over units.items()
    # filtered by `not self._is_multiplicative(<unit>)`
    from .. import shape as _shv
    sel = [a_ for a_ in walk_local(fi.node) if isinstance(a_, ast.Assign) and isinstance(a_.targets[0], ast.Name) and isinstance(a_.value, (ast.ListComp, ast.GeneratorExp))
           and norm(a_.value.generators[0].iter) == "units.items()"]
    oks = False
    NM = "nonmult_units"
    for a_ in sel:
        g_ = a_.value.generators[0]
        uvar = norm(g_.target.elts[0]) if isinstance(g_.target, ast.Tuple) else "?"
        facts_ = {(norm(p_), t_) for i_ in g_.ifs for p_, t_ in _shv.conjuncts(i_, "t")}
        if (f"self._is_multiplicative({uvar})", False) in facts_:
            oks, NM = True, a_.targets[0].id
    ck.check(oks, "G-PROV", "_validate_and_extract|selects-non-multiplicative-units", fi.loc(), "non-multiplicative units selected by the registry predicate", "non-multiplicative units are no longer selected with `not self._is_multiplicative(unit)`")
    forms = lambda a_: {norm(a_), _shv.rnorm(a_, fi.node, 1), _shv.rnorm(a_, fi.node, 2)}
    many = lambda a_: isinstance(a_, ast.Compare) and f"len({NM}) > 1" in forms(a_)
    e_many = _shv.guard_edges(cfg, many, want=True)
    e_exp = _shv.guard_edges(cfg, lambda a_: isinstance(a_, ast.Compare) and isinstance(a_.ops[0], ast.Eq) and norm(a_.comparators[0]) == "1" and isinstance(a_.left, ast.Name)
                             and not _shv.rnorm(a_.left, fi.node, 2).startswith("len("), want=False)
    e_ctx = sorted(set(_shv.guard_edges(cfg, lambda a_: isinstance(a_, ast.Compare) and "len(units) > 1" in forms(a_), want=True)) &
                   set(_shv.guard_edges(cfg, lambda a_: norm(a_) == "self.autoconvert_offset_to_baseunit", want=False)))
    rules_ = (("more-than-one-offset-unit", e_many, f"len({NM}) > 1"), ("higher-order", e_exp, "exponent != 1"), ("multiplicative-context", e_ctx, "len(units) > 1 and not autoconvert"))
    for key, edges_, cond in rules_:
        if not edges_:
            ck.fail("G-DOM", f"_validate_and_extract|{key}-rejected", fi.loc(), f"the test `{cond}` is gone")
        for (t, lab) in edges_:
            p = edge_leads_only_to_raise(cfg, t, lab)
            ck.check(p is None, "G-DOM", f"_validate_and_extract|{key}-rejected", fi.loc(cfg.nodes[t].ast), f"`{cond}` raises", f"`{cond}` no longer raises", witness(cfg, p))

    # ------------------------------------------------------------ (c) offset calculus decision table
    offset_table(ck, ix)

    # ------------------------------------------------------------ (d) predicates are called; muldiv guards
    muldiv_rules(ck, ix)
    # 0 degC differs from 0 kelvin: zero tests in __eq__ need multiplicative units (shared with C05)
    from .C05 import eq_zero_rule
    eq_zero_rule(ck, ix)

    # ------------------------------------------------------------ (e) delta twin
    fi = ix.func(NR, "GenericNonMultiplicativeRegistry._add_unit")
    ck.analysed(fi)
    defs = defs_of(fi)
    ud = [c for c in walk_local(fi.node) if isinstance(c, ast.Call) and call_name(c) == "UnitDefinition"]
    ck.floor("G-PROV", len(ud), 1, "delta UnitDefinition construction")
    for c in ud:
        a = [norm(defs.inline(x)) for x in c.args]
        ck.check(a[0] == "'delta_' + definition.name", "G-PROV", "_add_unit|delta-name", fi.loc(c), "named delta_<name>", f"delta unit named `{a[0]}`")
        ck.check(a[3] == "ScaleConverter(definition.converter.scale)", "G-PROV", "_add_unit|delta-converts-by-scale-only", fi.loc(c), "delta unit converts by the scale of the offset unit, without offset",
                 f"delta unit converter is `{a[3]}` (must be ScaleConverter(definition.converter.scale): same scale, no offset)")
        ck.check("definition.reference.items()" in a[4], "G-PROV", "_add_unit|delta-same-reference", fi.loc(c), "same reference units", f"delta unit reference is `{a[4]}`")
    cfg = cfg_of(fi)
    gate = [n.id for n in cfg.nodes if n.kind == "test" and norm(n.ast) == "definition.is_multiplicative"]
    sup2 = [n for n in nodes_with(cfg, lambda x: is_super_call(x, "_add_unit")) if "delta_def" in norm(cfg.nodes[n].ast)]
    for s in sup2:
        p = cfg.all_paths_pass(cfg.entry, [s], [], avoid_edges=[(g, "f") for g in gate])
        ck.check(bool(gate) and p is None, "G-DOM", "_add_unit|delta-only-for-non-multiplicative", fi.loc(cfg.nodes[s].ast), "delta twin only for non-multiplicative units", "a delta twin is registered for multiplicative units too", witness(cfg, p))
    ck.check(bool(sup2), "G-PROV", "_add_unit|delta-twin-registered", fi.loc(), "delta twin registered", "the delta_ twin is no longer registered")
    return EXPLANATION


# =====================================================================================
VOCAB = [("operator.isub", "operator.sub"), ("operator.iadd", "operator.add"), ("_convert_magnitude_not_inplace", "_convert_magnitude")]


def _v(s: str) -> str:
    for a, b in VOCAB:
        s = s.replace(a, b)
    return s


def _subst(e, local):
    """Replace names bound in the same branch body (e.g. `tu`) by their value."""
    if isinstance(e, ast.Name) and e.id in local:
        return local[e.id]
    if isinstance(e, ast.Name) and _PRED_FN[0] is not None and getattr(e, "_parent", None) is not None:
        from .. import shape as _shs6
        v = _shs6.dominating_def(e, _PRED_FN[0])
        if isinstance(v, ast.Attribute) and norm(v) in ("self._units", "other._units", "self._magnitude", "other._magnitude"):
            return v                       # a function-level alias such as `self_units = self._units`
    return e


def _operand(e, local):
    """Normalise an operand of op(...) to (who, target) — who in {S, O, B}, target None = as is."""
    e = _subst(e, local)
    s = norm(e)
    if s == "self._magnitude":
        return ("S", None)
    if s in ("other._magnitude", "other.magnitude"):
        return ("O", None)
    if isinstance(e, ast.Attribute) and e.attr in ("_magnitude", "magnitude") and isinstance(e.value, ast.Call) and call_name(e.value) == "to":
        who = {"other": "O", "self": "S"}.get(norm(e.value.func.value))
        return (who, _units(e.value.args[0], local))
    if isinstance(e, ast.Call) and call_name(e) in ("_convert_magnitude", "_convert_magnitude_not_inplace") and norm(e.func.value) == "self":
        return ("S", _units(e.args[0], local))
    if isinstance(e, ast.Call) and call_name(e) == "_to_magnitude":
        return ("B", None)
    if s == "other_magnitude":
        return ("B", None)
    return ("?", s)


def _units(e, local):
    e = _subst(e, local)
    s = norm(e)
    if s == "self._units":
        return "U_s"
    if s == "other._units":
        return "U_o"
    if s == "self.UnitsContainer()":
        return "DIMLESS"
    if isinstance(e, ast.Call) and call_name(e) == "rename" and len(e.args) == 2:
        base = _units(e.func.value, local)
        a0, a1 = norm(e.args[0]), norm(e.args[1])
        if a1 == f"'delta_' + {a0}":
            which = {"self_non_mul_unit": "u", "other_non_mul_unit": "u'"}.get(a0, a0)
            return f"delta({base},{which})"
    return "?" + s


def _branch_summary(body, defs, inplace):
    """(operands, result_units) of one branch: list of (left, right) operand pairs and units."""
    ops, units = [], None
    local = {}
    for st in body:
        for a in ast.walk(st):
            if isinstance(a, ast.Assign) and isinstance(a.targets[0], ast.Name) and a.targets[0].id not in ("magnitude", "units"):
                local[a.targets[0].id] = a.value
    for st in body:
        for a in ast.walk(st):
            if isinstance(a, ast.Assign):
                tgt = norm(a.targets[0])
                if tgt in ("magnitude", "self._magnitude") and isinstance(a.value, ast.Call) and norm(a.value.func) == "op":
                    ops.append((_operand(a.value.args[0], local), _operand(a.value.args[1], local)))
                elif tgt in ("units", "self._units"):
                    units = _units(a.value, local)
    if units is None and inplace:
        units = "U_s"
    return sorted(set(ops), key=repr), units


def _chain(ifnode):
    """[(test_text, body)] + else body of an if/elif chain."""
    out = []
    cur = ifnode
    while True:
        out.append((cur.test, cur.body))
        if len(cur.orelse) == 1 and isinstance(cur.orelse[0], ast.If):
            cur = cur.orelse[0]
        else:
            return out, cur.orelse


_PRED_FN = [None]      # the function whose chain is being read (set by offset_table); tests are resolved in it


def _pred(test):
    """Map a branch test to the vocabulary of Appendix A.  Every conjunct is first resolved through the local
    temporaries (`is_self_multiplicative`, `self_units = self._units`, ...) so that the spelling does not matter; the
    name of the single offset unit is a wildcard."""
    from .. import shape as _shp6
    fn = _PRED_FN[0]
    parts = list(test.values) if isinstance(test, ast.BoolOp) and isinstance(test.op, ast.And) else [test]
    patterns = [
        ("len(self._get_non_multiplicative_units()) == 0", "SELF_MULT"), ("len(other._get_non_multiplicative_units()) == 0", "OTHER_MULT"),
        ("not self._get_non_multiplicative_units()", "SELF_MULT"), ("not other._get_non_multiplicative_units()", "OTHER_MULT"),
        ("op == operator.sub", "SUB"), ("op == operator.isub", "SUB"),
        ("len(self._get_non_multiplicative_units()) == 1", "SELF_ONE_OFFSET"), ("self._units[_U] == 1", "SELF_OFFSET_EXP1"),
        ("len(other._get_non_multiplicative_units()) == 1", "OTHER_ONE_OFFSET"), ("other._units[_U] == 1", "OTHER_OFFSET_EXP1"),
        ("other._has_compatible_delta(_U)", "OTHER_HAS_DELTA(u)"), ("not other._has_compatible_delta(_U)", "NOT OTHER_HAS_DELTA(u)"),
        ("self._has_compatible_delta(_U)", "SELF_HAS_DELTA(u')"), ("not self._has_compatible_delta(_U)", "NOT SELF_HAS_DELTA(u')"),
        ("self._units == other._units", "SAME_UNITS"), ("other._units == self._units", "SAME_UNITS"),
        ("self._get_delta_units()", "SELF_DELTA"), ("not other._get_delta_units()", "NOT OTHER_DELTA"),
    ]
    names = []
    for p in parts:
        r = _shp6.resolve(p, fn) if fn is not None else p
        hit = None
        for pat, nm in patterns:
            if _shp6.match(pat, r) is not None:
                hit = nm
                break
        if hit is None and isinstance(r, ast.BoolOp) and isinstance(r.op, ast.And):
            # a hoisted conjunction (`both_mult = a and b`): flatten
            sub = _pred(p if not isinstance(p, ast.Name) else _shp6.unalias(p, fn))
            names.extend(sub)
            continue
        names.append(hit or "?" + norm(p))
    return tuple(names)


# Decision table (docs/user/nonmult.rst + comments in the source; DESIGN.md Appendix A).
# (predicates) -> (set of operand pairs, result units)
SPEC = [
    (("SELF_MULT", "OTHER_MULT"), "nested"),
    (("SUB", "SELF_ONE_OFFSET", "SELF_OFFSET_EXP1", "NOT OTHER_HAS_DELTA(u)"), ([(("S", None), ("O", None)), (("S", None), ("O", "U_s"))], "delta(U_s,u)")),
    (("SUB", "OTHER_ONE_OFFSET", "OTHER_OFFSET_EXP1", "NOT SELF_HAS_DELTA(u')"), ([(("S", None), ("O", "U_s"))], "U_s")),
    (("SELF_ONE_OFFSET", "SELF_OFFSET_EXP1", "OTHER_HAS_DELTA(u)"), ([(("S", None), ("O", "delta(U_s,u)"))], "U_s")),
    (("OTHER_ONE_OFFSET", "OTHER_OFFSET_EXP1", "SELF_HAS_DELTA(u')"), ([(("S", "delta(U_o,u')"), ("O", None))], "U_o")),
]
SPEC_MULT = [
    (("SAME_UNITS",), ([(("S", None), ("O", None))], "U_s")),
    (("SELF_DELTA", "NOT OTHER_DELTA"), ([(("S", "U_o"), ("O", None))], "U_o")),
    ("else", ([(("S", None), ("O", "U_s"))], "U_s")),
]


def offset_table(ck, ix):
    tables = {}
    for q, inplace in (("PlainQuantity._add_sub", False), ("PlainQuantity._iadd_sub", True)):
        fi = ix.func(PQ, q)
        ck.analysed(fi)
        defs = defs_of(fi)
        _PRED_FN[0] = fi.node
        from .. import shape as _sho
        top = [s for s in fi.node.body if isinstance(s, ast.If) and "_get_non_multiplicative_units()) == 0" in _sho.rnorm(s.test, fi.node)]
        if len(top) != 1:
            raise AnalysisError(f"{q}: offset decision chain not found")
        chain, els = _chain(top[0])
        rows = []
        for test, body in chain:
            pred = _pred(test)
            if pred == ("SELF_MULT", "OTHER_MULT"):
                inner = [s for s in body if isinstance(s, ast.If)]
                sub, sub_else = _chain(inner[0]) if inner else ([], [])
                subrows = [(_pred(t), _branch_summary(b, defs, inplace)) for t, b in sub] + [("else", _branch_summary(sub_else, defs, inplace))]
                rows.append((pred, ("nested", subrows)))
            else:
                rows.append((pred, _branch_summary(body, defs, inplace)))
        raises = any(isinstance(r, ast.Raise) and "OffsetUnitCalculusError" in norm(r) for s in els for r in ast.walk(s))
        tables[q] = (rows, raises, fi, top[0])
        ck.check(raises and len(els) == 1, "G-EXH", f"{q}|every-other-combination-raises", fi.loc(els[0]) if els else fi.loc(top[0]),
                 "the chain ends in `else: raise OffsetUnitCalculusError`", "a combination outside the documented rows no longer raises OffsetUnitCalculusError (it would fall through to a numeric result)")
        # compare with the spec
        ck.check([r[0] for r in rows] == [s[0] for s in SPEC], "G-TABLE", f"{q}|branch-conditions==documented-rows", fi.loc(top[0]),
                 "branch conditions match the documented decision table",
                 f"branch conditions {[' & '.join(r[0]) for r in rows]} differ from the documented rows {[' & '.join(s[0]) for s in SPEC]}")
        for (pred, summ), (spred, sspec) in zip(rows, SPEC):
            if pred != spred:
                continue
            name = " & ".join(pred)
            if sspec == "nested":
                subrows = summ[1]
                ck.check([r[0] for r in subrows] == [s[0] for s in SPEC_MULT], "G-TABLE", f"{q}|multiplicative-subconditions", fi.loc(top[0]),
                         "sub-conditions for multiplicative operands match", f"sub-conditions {[r[0] for r in subrows]} differ from {[s[0] for s in SPEC_MULT]}")
                for (sp, ssum), (xp, xspec) in zip(subrows, SPEC_MULT):
                    if sp == xp:
                        _cmp_row(ck, q, fi, top[0], f"MULT:{sp if isinstance(sp, str) else ' & '.join(sp)}", ssum, xspec)
            else:
                _cmp_row(ck, q, fi, top[0], name, summ, sspec)
    # twin agreement (same rows, same summaries)
    a, b = tables["PlainQuantity._add_sub"], tables["PlainQuantity._iadd_sub"]
    ck.check(a[0] == b[0], "G-TWIN", "_add_sub/_iadd_sub|same-decision-table", b[2].loc(b[3]), "functional and in-place forms implement the same table",
             "the in-place form and the functional form differ in a branch (condition, converted operand, target or result units)")
    # the dimensionality gate and the bare-number branch (shared with C03)
    for q in ("PlainQuantity._add_sub", "PlainQuantity._iadd_sub"):
        fi = ix.func(PQ, q)
        cfg = cfg_of(fi)
        gate = [n.id for n in cfg.nodes if n.kind == "test" and "self.dimensionality" in norm(n.ast) and "other.dimensionality" in norm(n.ast)]
        from .. import shape as _sho
        chain_top = [n.id for n in cfg.nodes if n.kind == "test" and "_get_non_multiplicative_units()) == 0" in _sho.rnorm(n.ast, fi.node)]
        p = undominated(cfg, chain_top, gate)
        ck.check(bool(gate) and p is None, "G-DOM", f"{q}|dimensionality-test-dominates-calculus", fi.loc(), "operands of different dimensionality are rejected first",
                 "the offset calculus is reachable without the dimensionality test", witness(cfg, p))
        for g in gate:
            lab = "t" if isinstance(cfg.nodes[g].ast, ast.UnaryOp) or "!=" in norm(cfg.nodes[g].ast) else "f"
            p = edge_leads_only_to_raise(cfg, g, lab)
            ck.check(p is None, "G-DOM", f"{q}|dimension-mismatch-raises", fi.loc(cfg.nodes[g].ast), "mismatch raises DimensionalityError", "a dimension mismatch does not raise", witness(cfg, p))


def _cmp_row(ck, q, fi, node, name, summ, spec):
    ops, units = summ
    sops, sunits = spec
    ok_ops = bool(ops) and all(o in sops for o in ops)
    ck.check(ok_ops, "G-TABLE", f"{q}|row[{name}]|operands", fi.loc(node),
             f"operands combined as {ops}", f"row [{name}]: magnitudes are combined as {ops}, documented: {sops} (wrong operand converted / wrong target units)")
    ck.check(units == sunits, "G-TABLE", f"{q}|row[{name}]|result-units", fi.loc(node),
             f"result in {units}", f"row [{name}]: result units {units}, documented: {sunits}")


def muldiv_rules(ck, ix):
    preds = ("_ok_for_muldiv", "_has_compatible_delta", "_get_non_multiplicative_units", "_get_delta_units")
    latent = {("PlainQuantity.__pow__", "_ok_for_muldiv"), ("PlainQuantity.__ipow__", "_ok_for_muldiv")}
    n = 0
    for f in ix.all_functions():
        if not isinstance(f.node, (ast.FunctionDef, ast.AsyncFunctionDef)):
            continue
        for a in walk_local(f.node):
            if isinstance(a, ast.Attribute) and a.attr in preds and isinstance(a.ctx, ast.Load):
                par = getattr(a, "_parent", None)
                called = isinstance(par, ast.Call) and par.func is a
                n += 1
                key = f"{f.qualname.split('::')[1]}|{a.attr}"
                if not called and (f.qualname.split("::")[1], a.attr) in latent:
                    ck.ok("G-ERR-c", f"predicate-called|{key}", f.loc(a), "LATENT (triaged, not a property violation): the bound method is tested instead of being called, so this guard is dead; "
                          "every case it was meant to refuse is refused later by the `_is_multiplicative` gate or by to_root_units (DimensionalityError), see DESIGN.md §9 D6")
                    continue
                ck.check(called, "G-ERR-c", f"predicate-called|{key}", f.loc(a), "predicate is called",
                         f"`{norm(par) if par is not None else a.attr}` uses the bound method `{a.attr}` without calling it: the test is constant and the guard is dead")
    ck.floor("G-ERR-c", n, 10, "uses of the multiplicativity predicates")

    # exhaustive abstract evaluation of NonMultiplicativeQuantity._ok_for_muldiv
    fi = ix.func(NO, "NonMultiplicativeQuantity._ok_for_muldiv")
    ck.analysed(fi)
    cases = 0
    bad = []
    for n_off, n_units, auto, exp in itertools.product((0, 1, 2, 3), (1, 2, 3), (True, False), (1, 2, -1)):
        if n_off > n_units:
            continue
        env = {"len(self._units)": n_units, "self._REGISTRY.autoconvert_offset_to_baseunit": auto,
               "next(iter(self._units.values()))": exp, "len(self._get_non_multiplicative_units())": n_off}
        for explicit in (True, False):
            args = {"self": None, fi.node.args.args[1].arg: (n_off if explicit else None)}
            got = absint.evaluate(fi.node, env, args)
            want = n_off == 0 or (n_off == 1 and n_units == 1 and auto and exp == 1)
            cases += 1
            if bool(got) != want:
                bad.append(f"offset_units={n_off} units={n_units} autoconvert={auto} exponent={exp}: returns {got}, documented {want}")
    ck.extra["absint_cases__ok_for_muldiv"] = cases
    ck.check(not bad, "G-ABSINT", "_ok_for_muldiv|agrees-with-documented-rule", fi.loc(), f"{cases} abstract cases agree: {SPEC_OK_FOR_MULDIV}",
             f"_ok_for_muldiv disagrees with the documented rule ({SPEC_OK_FOR_MULDIV}) in {len(bad)} of {cases} abstract cases, e.g. {bad[:2]}")
    # is_multiplicative property of the facet quantity
    f = ix.func(NO, "NonMultiplicativeQuantity._is_multiplicative")
    ck.check("not self._get_non_multiplicative_units()" in norm(f.node), "G-PROV", "NonMultiplicativeQuantity._is_multiplicative", f.loc(), "multiplicative iff no non-multiplicative unit", "_is_multiplicative no longer tests for the absence of non-multiplicative units")
    f = ix.func(NO, "NonMultiplicativeQuantity._get_non_multiplicative_units")
    ck.check("if not self._get_unit_definition(unit).is_multiplicative" in norm(f.node), "G-PROV", "NonMultiplicativeQuantity._get_non_multiplicative_units", f.loc(), "selects units whose definition is not multiplicative", "_get_non_multiplicative_units no longer selects by `not is_multiplicative`")
    f = ix.func(NO, "NonMultiplicativeQuantity._has_compatible_delta")
    src = norm(f.node)
    ck.check("'delta_' + unit in deltas" in src and ".reference == offset_unit_dim" in src, "G-PROV", "NonMultiplicativeQuantity._has_compatible_delta", f.loc(), "exact delta twin or a delta with the same reference", "_has_compatible_delta no longer looks for the delta twin / same-reference delta")

    # guards in the multiplicative operators
    for q, who in (("PlainQuantity._mul_div", ("self", "other")), ("PlainQuantity._imul_div", ("self", "other")), ("PlainQuantity.__rtruediv__", ("self",))):
        fi = ix.func(PQ, q)
        ck.analysed(fi)
        cfg = cfg_of(fi)
        for w in who:
            tests = [n.id for n in cfg.nodes if n.kind == "test" and norm(n.ast).startswith(f"not {w}._ok_for_muldiv(")]
            ck.check(bool(tests), "G-DOM", f"{q}|{w}-ok_for_muldiv-tested", fi.loc(), f"{w} is tested with _ok_for_muldiv", f"`{w}._ok_for_muldiv(...)` is no longer tested in {q}")
            for t in tests:
                p = edge_leads_only_to_raise(cfg, t, "t")
                ck.check(p is None, "G-DOM", f"{q}|{w}-not-ok-raises", fi.loc(cfg.nodes[t].ast), "not ok => OffsetUnitCalculusError", "an operand that is not ok for mul/div does not raise", witness(cfg, p))
                c = [c for c in ast.walk(cfg.nodes[t].ast) if isinstance(c, ast.Call) and call_name(c) == "_ok_for_muldiv"][0]
                if c.args:
                    arg = defs_of(fi).inline(c.args[0])
                    ok = "_get_non_multiplicative_units()" in norm(arg) and norm(arg).startswith("len(") and (w + ".") in norm(arg)
                    ck.check(ok, "G-PROV", f"{q}|{w}-offset-count-argument", fi.loc(c), f"count of {w}'s non-multiplicative units passed", f"`{norm(c)}` receives `{norm(arg)}`, not the number of {w}'s non-multiplicative units")
            # single offset unit goes through root units
            conv = [x for x in walk_local(fi.node) if isinstance(x, ast.Call) and call_name(x) in ("to_root_units", "ito_root_units", "to_base_units", "ito_base_units") and norm(x.func.value) == w]
            ck.check(bool(conv), "G-DOM", f"{q}|{w}-single-offset-unit-via-root-units", fi.loc(), f"a lone offset unit of {w} is converted to root units first", f"{w} with a single offset unit is no longer converted to root units before the operation")
        # the quantity/number branch uses the magnitudes and units of the (possibly converted) same objects
    # operations on the *result* of the conversion: _mul_div uses new_self
    fi = ix.func(PQ, "PlainQuantity._mul_div")
    src = norm(fi.node)
    ck.check("magnitude_op(new_self._magnitude, other._magnitude)" in src and "units_op(new_self._units, other._units)" in src, "G-TAG", "_mul_div|magnitude-and-units-from-same-objects", fi.loc(),
             "magnitude and units are taken from the same (converted) objects", "magnitude and units in _mul_div are no longer taken from the same (converted) objects")
    fi = ix.func(PQ, "PlainQuantity._imul_div")
    src = norm(fi.node)
    ck.check("magnitude_op(self._magnitude, other._magnitude)" in src and "units_op(self._units, other._units)" in src, "G-TAG", "_imul_div|magnitude-and-units-from-same-objects", fi.loc(),
             "magnitude and units are taken from the same objects", "magnitude and units in _imul_div are no longer taken from the same objects")
    fi = ix.func(PQ, "PlainQuantity.__rtruediv__")
    # the result is built from (number / magnitude of X, 1 / units of X) for one and the same X (self, possibly converted to root units)
    ctor = [c_ for c_ in walk_local(fi.node) if isinstance(c_, ast.Call) and norm(c_.func) in ("self.__class__", "type(self)") and len(c_.args) == 2]
    okr = len(ctor) == 1 and isinstance(ctor[0].args[0], ast.BinOp) and isinstance(ctor[0].args[0].op, ast.Div) and isinstance(ctor[0].args[1], ast.BinOp) and isinstance(ctor[0].args[1].op, ast.Div)
    if okr:
        m_, u_ = ctor[0].args
        okr = norm(m_.right).endswith("._magnitude") and norm(u_.right).endswith("._units") and norm(m_.right)[:-len("._magnitude")] == norm(u_.right)[:-len("._units")] and norm(u_.left) == "1" and "other" in " ".join(defs_of(fi).roots(m_.left))
    ck.check(okr, "G-TAG", "__rtruediv__|number-over-quantity", fi.loc(),
             "other / self with reciprocal units", "__rtruediv__ no longer computes other / self with reciprocal units")

    # powers: non-multiplicative => autoconvert to root/base units or raise
    for q, conv in (("PlainQuantity.__pow__", "to_root_units"), ("PlainQuantity.__ipow__", "ito_base_units")):
        fi = ix.func(PQ, q)
        ck.analysed(fi)
        cfg = cfg_of(fi)
        tests = [n.id for n in cfg.nodes if n.kind == "test" and norm(n.ast) == "not self._is_multiplicative"]
        ck.check(bool(tests), "G-DOM", f"{q}|multiplicativity-tested", fi.loc(), "non-multiplicative bases are detected", f"{q} no longer tests `not self._is_multiplicative`")
        for t in tests:
            auto = [n.id for n in cfg.nodes if n.kind == "test" and norm(n.ast) == "self._REGISTRY.autoconvert_offset_to_baseunit"]
            ok_auto = bool(auto) and all(a in cfg.reach(edge_successors(cfg, t, "t")) for a in auto)
            ck.check(ok_auto, "G-DOM", f"{q}|offset-base-needs-autoconvert", fi.loc(cfg.nodes[t].ast), "autoconvert decides", "the autoconvert test is gone")
            for a in auto:
                p = edge_leads_only_to_raise(cfg, a, "f")
                ck.check(p is None, "G-DOM", f"{q}|offset-base-without-autoconvert-raises", fi.loc(cfg.nodes[a].ast), "without autoconvert an offset base raises", "an offset base is raised to a power without autoconvert", witness(cfg, p))
                convs = [x for x in cfg.reach(edge_successors(cfg, a, "t"), labels={"n"}) if node_has(cfg.nodes[x], lambda c: isinstance(c, ast.Call) and call_name(c) in ("to_root_units", "ito_root_units", "to_base_units", "ito_base_units"))]
                first = edge_successors(cfg, a, "t")
                ck.check(bool(first) and all(f_ in convs for f_ in first), "G-DOM", f"{q}|offset-base-converted-before-power", fi.loc(cfg.nodes[a].ast), "with autoconvert the base is converted to root/base units first",
                         "with autoconvert the offset base is not converted to root/base units before the power")
        # the power itself is dominated by that test unless exponent is 0/1
        pw = nodes_with(cfg, lambda x: (isinstance(x, ast.BinOp) and isinstance(x.op, ast.Pow) and "_magnitude" in norm(x.left) and "exponent" in norm(x.right)) or
                        (isinstance(x, ast.AugAssign) and isinstance(x.op, ast.Pow) and "_magnitude" in norm(x.target)))
        ck.floor("G-DOM", len(pw), 1, f"magnitude power in {q}")
