"""C06 — offset and logarithmic units convert by their defining maps and refuse ambiguity."""
from __future__ import annotations

import ast
import itertools

from .. import absint, inverse, shape
from ..flow import call_name, dotted, norm
from ..index import AnalysisError, walk_local
from ..lib import (cfg_of, defs_of, edge_leads_only_to_raise, edge_successors, is_super_call, live,
                   find, has, node_has, nodes_calling, nodes_with, undominated, witness)
from .C05 import MAG, atom_is, calls_matching, edges_where, eq_zero_rule, facts, known, refused, stmt_of

NR = "pint.facets.nonmultiplicative.registry"
NO = "pint.facets.nonmultiplicative.objects"
ND = "pint.facets.nonmultiplicative.definitions"
PD = "pint.facets.plain.definitions"
PQ = "pint.facets.plain.quantity"

EXPLANATION = (
    "Static analysis (no execution): G-INV/G-TWIN term rewriting on Scale/Offset/LogarithmicConverter (the in-place "
    "branch equals the functional branch; from_reference is the exact inverse op-sequence of to_reference); typestate "
    "order in NonMultiplicativeRegistry._convert (to_reference iff a source offset unit, with that unit's converter, "
    "before super()._convert, before from_reference with the destination unit's converter; validation failures become "
    "DimensionalityError; delta/offset mixing refused); the offset calculus of _add_sub/_iadd_sub as a decision table "
    "(branch conditions, converted operand, conversion target and result units per branch are extracted, must agree "
    "between the functional and in-place twin and with the table of docs/user/nonmult.rst, final else raises "
    "OffsetUnitCalculusError); exhaustive abstract interpretation of _ok_for_muldiv over its finite case space against "
    "the documented rule; every use of the multiplicativity predicates is a call and its failing edge raises in "
    "_mul_div/_imul_div/__rtruediv__, a single offset unit goes through root units; powers of non-multiplicative "
    "quantities raise unless autoconvert converts to root/base units first; _add_unit builds the delta_ twin from the "
    "same scale and reference. Does not decide numerical results.")
EXPLANATION += " Also decided: as_delta is replaced by the registry's default_as_delta exactly when it is None (shared with C08)."

SPEC_OK_FOR_MULDIV = "ok iff no offset unit, or exactly one offset unit that is the only unit, has exponent 1, and autoconvert_offset_to_baseunit is on"


def run(ck, ix, tier):
    ck.rule("G-INV", "from_reference is the inverse op-sequence of to_reference")
    ck.rule("G-TWIN", "in-place and functional forms have the same effect")
    ck.rule("G-TABLE", "extracted decision table equals the documented one")
    ck.rule("G-ABSINT", "exhaustive abstract evaluation of a predicate over its finite case space")
    # ------------------------------------------------------------ (a) converters
    convs = [(PD, "ScaleConverter"), (ND, "OffsetConverter"), (ND, "LogarithmicConverter")]
    for mod, cn in convs:
        ci = ix.cls(mod, cn)
        to, fr = ci.methods.get("to_reference"), ci.methods.get("from_reference")
        if to is None or fr is None:
            raise AnalysisError(f"{cn}: to_reference/from_reference not found")
        ck.analysed(to, fr)
        try:
            ti, tf = _method_branches(to.node)
            fi_, ff = _method_branches(fr.node)
        except inverse.NotInFragment as e:
            raise AnalysisError(f"{cn}: {e}")
        ck.check(ti == tf, "G-TWIN", f"{cn}.to_reference|inplace==functional", to.loc(), inverse.show(tf),
                 f"in-place branch computes [{inverse.show(ti)}] but the functional branch computes [{inverse.show(tf)}]")
        ck.check(fi_ == ff, "G-TWIN", f"{cn}.from_reference|inplace==functional", fr.loc(), inverse.show(ff),
                 f"in-place branch computes [{inverse.show(fi_)}] but the functional branch computes [{inverse.show(ff)}]")
        ck.check(inverse.inverse(tf) == ff, "G-INV", f"{cn}|from_reference-inverts-to_reference", fr.loc(),
                 f"to: [{inverse.show(tf)}]  from: [{inverse.show(ff)}]",
                 f"from_reference [{inverse.show(ff)}] is not the inverse of to_reference [{inverse.show(tf)}] (expected [{inverse.show(inverse.inverse(tf))}])")
        ck.check(inverse.inverse(ti) == fi_, "G-INV", f"{cn}|inplace-from_reference-inverts-inplace-to_reference", fr.loc(),
                 "in-place directions are mutually inverse",
                 f"in-place from_reference [{inverse.show(fi_)}] is not the inverse of in-place to_reference [{inverse.show(ti)}]")
    # shape of the defining maps
    oc = ix.cls(ND, "OffsetConverter")
    _, tf = _method_branches(oc.methods["to_reference"].node)
    ck.check(tf == [("M", (("self.scale", 1),)), ("A", (("self.offset", 1),))], "G-INV", "OffsetConverter.to_reference|value*scale+offset", oc.methods["to_reference"].loc(),
             "reference = value * scale + offset", f"to_reference computes [{inverse.show(tf)}], not value*scale + offset")
    lc = ix.cls(ND, "LogarithmicConverter")
    _, ff = _method_branches(lc.methods["from_reference"].node)
    want = [("M", (("self.scale", -1),)), ("F", "log"), ("M", (("log(self.logbase)", -1), ("self.logfactor", 1)))]
    ck.check(ff == want, "G-INV", "LogarithmicConverter.from_reference|logfactor*log(value/scale)/log(logbase)", lc.methods["from_reference"].loc(),
             "log value = logfactor * log(value/scale) / log(logbase)", f"from_reference computes [{inverse.show(ff)}], expected [{inverse.show(want)}]")
    f = oc.methods["is_multiplicative"]
    ck.check(_returns_only(f, "self.offset == 0", "0 == self.offset", "not self.offset"), "G-PROV", "OffsetConverter.is_multiplicative|offset==0", f.loc(), "multiplicative iff offset == 0", "OffsetConverter.is_multiplicative is no longer `offset == 0`")
    f = lc.methods["is_multiplicative"]
    ck.check(_returns_only(f, "False"), "G-PROV", "LogarithmicConverter.is_multiplicative|false", f.loc(), "log units are never multiplicative", "LogarithmicConverter.is_multiplicative no longer returns False")

    # ------------------------------------------------------------ (b) two-stage conversion
    convert_rules(ck, ix)

    validate_rules(ck, ix)

    # ------------------------------------------------------------ (c) offset calculus decision table
    offset_table(ck, ix)

    # ------------------------------------------------------------ (d) predicates are called; muldiv guards
    muldiv_rules(ck, ix)
    # 0 degC differs from 0 kelvin: zero tests in __eq__ need multiplicative units (shared with C05)
    eq_zero_rule(ck, ix)

    # ------------------------------------------------------------ (e) delta twin
    delta_twin_rules(ck, ix)
    # an explicit as_delta=False must win over the registry default: `as_delta` is replaced by default_as_delta exactly
    # when it is None (shared with C08: the delta reading of compound offset expressions is part of the offset-unit rules)
    from .C08 import defaults_from as _defaults_from
    _fi = ix.func("pint.facets.nonmultiplicative.registry", "GenericNonMultiplicativeRegistry.parse_units_as_container")
    ck.analysed(_fi)
    ck.check(_defaults_from(_fi.node, "as_delta", "self.default_as_delta") is not None, "G-PROV", "parse_units_as_container|default_as_delta", _fi.loc(),
             "as_delta defaults to the registry's default_as_delta only when it is None", "as_delta is no longer replaced by default_as_delta exactly when it is None (an explicit as_delta=False is overridden)")
    return EXPLANATION


def _specialised(stmts, flag, truth):
    """The statements that execute when the boolean parameter `flag` has the given truth value: tests of the flag alone
    (`if inplace:` / `if not inplace:` / `x if inplace else y`) are decided and whatever follows a `return` is dropped,
    so `if inplace: A else: B; return value`, `if not inplace: return B'; A; return value` and
    `return B' if not inplace else A'` read the same.  Other conditions are kept (their bodies specialised)."""
    def verdict(test):
        ats = list(shape.atoms(test))
        if len(ats) == 1 and isinstance(ats[0][0], ast.Name) and ats[0][0].id == flag:
            return (ats[0][1] == "t") == truth
        return None

    def ends(lst):
        return bool(lst) and (isinstance(lst[-1], (ast.Return, ast.Raise)) or (isinstance(lst[-1], ast.If) and ends(lst[-1].body) and ends(lst[-1].orelse)))
    out = []
    for st in stmts:
        if isinstance(st, ast.Expr) and isinstance(st.value, ast.Constant):
            continue
        if isinstance(st, ast.If):
            v = verdict(st.test)
            if v is not None:
                out += _specialised(st.body if v else st.orelse, flag, truth)
            else:
                out.append(ast.copy_location(ast.If(test=st.test, body=_specialised(st.body, flag, truth), orelse=_specialised(st.orelse, flag, truth)), st))
        elif isinstance(st, (ast.Return, ast.Assign)) and isinstance(st.value, ast.IfExp) and verdict(st.value.test) is not None:
            val = st.value.body if verdict(st.value.test) else st.value.orelse
            new = ast.Return(value=val) if isinstance(st, ast.Return) else ast.Assign(targets=st.targets, value=val)
            out.append(ast.copy_location(new, st))
        else:
            out.append(st)
        if ends(out):
            break
    return out


def _method_branches(fn, var="value", flag="inplace"):
    """(in-place segments, functional segments) of a converter method, whatever the shape of the test of `inplace`."""
    return tuple(inverse.segments(inverse.stmts_ops(_specialised(fn.body, flag, truth), var)) for truth in (True, False))


def _returns_only(f, *texts):
    """every `return` of the function returns (after resolving temporaries) one of the given expressions"""
    rets = shape.returns_of(f.node)
    return bool(rets) and all(shape.rnorm(r.value, f.node) in texts for r in rets)


def _raises_of(fn, exc):
    return [r for r in walk_local(fn) if isinstance(r, ast.Raise) and r.exc is not None and exc in norm(r.exc) and not shape.dead(r, fn)]


def convert_rules(ck, ix):
    """Typestate of NonMultiplicativeRegistry._convert.  The two local names that hold the offset unit extracted from
    the source and from the destination units are *discovered* (the targets of `self._validate_and_extract(src|dst)`);
    every other condition is stated on these roles."""
    fi = ix.func(NR, "GenericNonMultiplicativeRegistry._convert")
    ck.analysed(fi)
    fn, cfg, defs = fi.node, cfg_of(fi), defs_of(fi)
    # roles
    ou = {}
    for side in ("src", "dst"):
        var = f"{side}_offset_unit"          # canonical role name, used in report keys only
        cands = [a.targets[0].id for a in walk_local(fn) if isinstance(a, ast.Assign) and len(a.targets) == 1 and isinstance(a.targets[0], ast.Name)
                 and shape.match(f"self._validate_and_extract({side})", shape.unalias(a.value, fn)) is not None]
        okx = len(cands) == 1 and len(defs.defs.get(cands[0], [])) == 1
        ck.check(okx, "G-PROV", f"nonmult_convert|{var}-extracted-from-{side}", fi.loc(),
                 f"{var} = _validate_and_extract({side})", f"the offset unit of `{side}` is no longer (only) the result of self._validate_and_extract({side}) (found: {cands or '?'})")
        if len(cands) == 1:
            ou[side] = cands[0]
    ck.floor("G-PROV", len(ou), 2, "names bound to self._validate_and_extract(src) / (dst) in _convert")

    def side_of(e):
        """which extracted offset unit the expression denotes ('src' / 'dst' / None)"""
        e = shape.unalias(e, fn) if getattr(e, "_parent", None) is not None else e
        for side, name in ou.items():
            if (isinstance(e, ast.Name) and e.id == name) or shape.match(f"self._validate_and_extract({side})", e) is not None:
                return side
        return None

    def present(side):
        """atom predicate + truth alternatives for 'an offset unit was extracted on this side'"""
        nm = ou[side]
        return [(lambda a: isinstance(a, ast.Name) and a.id == nm, True), (atom_is(fn, f"{nm} is None", f"{nm} == None"), False)]

    def is_present(node, side):
        return any(known(node, fn, pred, truth) for pred, truth in present(side))

    sup = nodes_with(cfg, lambda x: is_super_call(x, "_convert"))
    tor = nodes_calling(cfg, "to_reference")
    frr = nodes_calling(cfg, "from_reference")
    ck.check(len(tor) == 1 and len(frr) == 1, "G-TYPESTATE", "nonmult_convert|one-to_reference-one-from_reference", fi.loc(),
             "one to_reference and one from_reference application", f"{len(tor)} to_reference and {len(frr)} from_reference applications found")
    for kind, nodes, side in (("to_reference", tor, "src"), ("from_reference", frr, "dst")):
        var = f"{side}_offset_unit"
        for t in nodes:
            c = [c for c in ast.walk(cfg.nodes[t].ast) if isinstance(c, ast.Call) and call_name(c) == kind][0]
            recv = shape.unalias(c.func.value, fn)
            m = recv if isinstance(recv, ast.Attribute) and recv.attr == "converter" else None
            unit = shape.unalias(m.value, fn) if m is not None else None
            oku = isinstance(unit, ast.Subscript) and norm(unit.value) == "self._units" and side_of(unit.slice) == side
            ck.check(oku, "G-PROV", f"nonmult_convert|{kind}-uses-{var}-converter", fi.loc(c),
                     f"{kind} applied with the converter of {var}", f"`{norm(c)}` applies the converter `{shape.rnorm(c.func.value, fn)}`, not that of the offset unit extracted from `{side}`")
            ck.check(len(c.args) >= 1 and norm(c.args[0]) == "value", "G-PROV", f"nonmult_convert|{kind}-on-running-value", fi.loc(c), "applied to the running value", f"`{norm(c)}` is not applied to `value`")
            tgt = getattr(c, "_parent", None)
            kept = (isinstance(tgt, ast.Assign) and norm(tgt.targets[0]) == "value") or (kind == "from_reference" and isinstance(tgt, ast.Return))     # the converted value becomes the running value, or the result
            ck.check(kept, "G-ERR-d", f"nonmult_convert|{kind}-result-kept", fi.loc(c), "result assigned back to value", f"the result of `{norm(c)}` is discarded")
            ck.check(is_present(c, side), "G-DOM", f"nonmult_convert|{kind}-iff-{var}", fi.loc(c), f"only when {var} was extracted", f"{kind} can run although no offset unit was extracted from `{side}`")
    for t in tor:
        p = None
        for s in [v for (v, lab) in cfg.succ[t] if lab != "exc"]:
            p = p or cfg.path(s, [cfg.exit], avoid=set(sup))
        ck.check(p is None, "G-TYPESTATE", "nonmult_convert|to_reference-before-multiplicative-conversion", fi.loc(cfg.nodes[t].ast),
                 "to_reference is followed by the multiplicative conversion", "after to_reference a normal exit is reachable without super()._convert", witness(cfg, p))
    for t in frr:
        p = undominated(cfg, [t], sup)
        ck.check(p is None, "G-TYPESTATE", "nonmult_convert|from_reference-after-multiplicative-conversion", fi.loc(cfg.nodes[t].ast),
                 "from_reference only after the multiplicative conversion", "from_reference can run before super()._convert", witness(cfg, p))
    for s in sup:
        for t in tor:
            p = cfg.path(s, [t])
            ck.check(p is None, "G-TYPESTATE", "nonmult_convert|no-to_reference-after-multiplicative-conversion", fi.loc(cfg.nodes[t].ast), "order to_reference < convert", "to_reference reachable after super()._convert")
    # error translation
    trys = [t for t in walk_local(fn) if isinstance(t, ast.Try) and any(isinstance(c, ast.Call) and call_name(c) == "_validate_and_extract" for s in t.body for c in ast.walk(s))]
    ck.check(len(trys) == 2, "G-ERR", "nonmult_convert|validation-in-try", fi.loc(), "both validations are guarded", f"{len(trys)} guarded validations found (expected 2)")
    for t in trys:
        ok = any(h.type is not None and norm(h.type) == "ValueError" and any(isinstance(r, ast.Raise) and "DimensionalityError" in norm(r) for r in ast.walk(h)) for h in t.handlers)
        ck.check(ok, "G-ERR", "nonmult_convert|validation-failure-becomes-DimensionalityError", fi.loc(t), "ValueError from validation re-raised as DimensionalityError",
                 "a failed offset-unit validation is no longer turned into DimensionalityError")
    # the extracted unit is replaced by its reference unit in the container it came from
    for side in ("src", "dst"):
        var = f"{side}_offset_unit"
        rm = [c for c in walk_local(fn) if isinstance(c, ast.Call) and call_name(c) == "remove" and isinstance(c.func, ast.Attribute) and norm(c.func.value) == side and len(c.args) == 1]
        okr = len(rm) == 1 and isinstance(shape.unalias(rm[0].args[0], fn), (ast.List, ast.Tuple)) and [side_of(e) for e in shape.unalias(rm[0].args[0], fn).elts] == [side]
        ck.check(okr, "G-PROV", f"nonmult_convert|{side}-offset-unit-removed", fi.loc(), f"{var} removed from {side}",
                 f"the offset unit is not removed from `{side}` before the multiplicative conversion")
        ad = [c for c in walk_local(fn) if isinstance(c, ast.Call) and call_name(c) == "_add_ref_of_log_or_offset_unit" and len(c.args) == 2 and side_of(c.args[0]) == side]
        # ... to the container itself or directly to the container without the offset unit (`side.remove([unit])` inlined)
        okad = len(ad) == 1 and (norm(ad[0].args[1]) == side or (len(rm) == 1 and shape.unalias(ad[0].args[1], fn) is rm[0]))
        ck.check(okad, "G-PROV", f"nonmult_convert|{side}-reference-unit-added", fi.loc(), f"reference unit of {var} added to {side}",
                 f"the reference unit of the offset unit of `{side}` is not added back to `{side}`")
    # delta guard: converting offset -> delta (or delta -> offset) is refused: where an offset unit was extracted on one
    # side and the OTHER side contains a delta_ unit, DimensionalityError is raised
    def delta_in(cont):
        pats = (f"any((_V.startswith('delta_') for _V in {cont}))", f"any([_V.startswith('delta_') for _V in {cont}])")

        def pred(a):
            forms = [a]
            for mk in (lambda: shape.resolve(a, fn), lambda: shape.expand(ix, fi, a), lambda: shape.deep(ix, fi, a, fn)):    # sees through a private helper / module constant
                try:
                    forms.append(mk())
                except RecursionError:
                    pass
            return any(shape.match(p_, f_) is not None for p_ in pats for f_ in forms)
        return pred
    raises = _raises_of(fn, "DimensionalityError")
    for side, other in (("src", "dst"), ("dst", "src")):
        var = f"{side}_offset_unit"
        mine = [r for r in raises if is_present(r, side)]
        good = [r for r in mine if known(r, fn, delta_in(other), True)]
        ck.check(bool(good), "G-DOM", "nonmult_convert|offset-delta-mixing-refused", fi.loc(good[0]) if good else fi.loc(),
                 "offset <-> delta conversion raises DimensionalityError", f"the refusal of offset <-> delta conversions is gone (offset unit in `{side}`, delta unit in `{other}`)")
        wrong = [r for r in mine if known(r, fn, delta_in(side), True) and not known(r, fn, delta_in(other), True)]
        ck.check(not wrong, "G-DOM", f"nonmult_convert|delta-guard-looks-at-other-side|{var}", fi.loc(wrong[0]) if wrong else fi.loc(), f"where {var} was extracted the other side ({other}) is searched for delta units",
                 f"the delta guard for the offset unit of `{side}` inspects `{side}` itself instead of `{other}`")


def _selections(fn, sources, fact_of):
    """[(name or None, text or None)]: the collections built in `fn` from an iteration over one of `sources`
    (expression texts) that keep an element only where the fact `fact_of(<unit variable>)` = (atom text, truth) is
    known - a comprehension with a filter, or a loop that appends to / adds to a local.  The unit variable is the loop
    target, or its first component when the target is a tuple (`for unit, exponent in units.items()`)."""
    out = []

    def uvar(t):
        if isinstance(t, ast.Name):
            return t.id
        if isinstance(t, ast.Tuple) and t.elts and isinstance(t.elts[0], ast.Name):
            return t.elts[0].id
        return None
    for c in walk_local(fn):
        if isinstance(c, (ast.ListComp, ast.GeneratorExp, ast.SetComp)) and len(c.generators) == 1 and norm(c.generators[0].iter) in sources:
            g = c.generators[0]
            u = uvar(g.target)
            kept = {(norm(p_), t_) for i_ in g.ifs for p_, t_ in shape.conjuncts(i_, "t")}
            if u is not None and fact_of(u) in kept and any(isinstance(x, ast.Name) and x.id == u for x in ast.walk(c.elt)):
                par = getattr(c, "_parent", None)
                while isinstance(par, ast.Call) and call_name(par) in ("list", "tuple", "set", "sorted") and len(par.args) == 1:
                    par = getattr(par, "_parent", None)
                name = par.targets[0].id if isinstance(par, ast.Assign) and len(par.targets) == 1 and isinstance(par.targets[0], ast.Name) else None
                out.append((name, norm(par.value) if name else norm(c)))
        elif isinstance(c, ast.For) and norm(c.iter) in sources:
            u = uvar(c.target)
            if u is None:
                continue
            text, truth = fact_of(u)
            for x in ast.walk(c):
                if isinstance(x, ast.Call) and call_name(x) in ("append", "add") and isinstance(x.func, ast.Attribute) and isinstance(x.func.value, ast.Name) and len(x.args) == 1 \
                        and any(isinstance(y, ast.Name) and y.id == u for y in ast.walk(x.args[0])) and known(x, fn, lambda a_: norm(a_) == text, truth):
                    out.append((x.func.value.id, None))
    return out


def validate_rules(ck, ix):
    """_validate_and_extract refuses more than one offset unit, an offset unit in higher order and (without autoconvert)
    an offset unit in a multiplicative context.  The collection of non-multiplicative (unit, exponent) pairs and the
    exponent are found by role."""
    fi = ix.func(NR, "GenericNonMultiplicativeRegistry._validate_and_extract")
    ck.analysed(fi)
    fn, cfg = fi.node, cfg_of(fi)
    # the collection of the non-multiplicative units (names or (unit, exponent) pairs), whatever it is called and however
    # it is built: the elements of an iteration over `units` kept where `self._is_multiplicative(<unit>)` is known false
    sel = [x for x in _selections(fn, ("units", "units.items()", "units.keys()"), lambda u: (f"self._is_multiplicative({u})", False)) if x[0] is not None]
    NM, NM_text = (sel[0][0], sel[0][1]) if sel else (None, None)
    ck.check(NM is not None, "G-PROV", "_validate_and_extract|selects-non-multiplicative-units", fi.loc(), "non-multiplicative units selected by the registry predicate", "non-multiplicative units are no longer selected with `not self._is_multiplicative(unit)`")
    ck.floor("G-PROV", 1 if NM is not None else 0, 1, "collection of the non-multiplicative units (or (unit, exponent) pairs) in _validate_and_extract")
    more = lambda x: (f"len({x}) > 1", f"len({x}) >= 2", f"1 < len({x})", f"2 <= len({x})")

    def many(a_):
        # `len(<the collection>) > 1`, the collection being named or written out, the length possibly hoisted
        for d_ in (0, 1, 2, 6):
            r_ = shape.resolve(a_, fn, d_) if d_ else a_
            for p_ in more("_L"):
                b_ = shape.match(p_, r_)
                if b_ is not None and b_["_L"] in (NM, NM_text):
                    return True
        return False
    several_units = atom_is(fn, *more("units"))
    no_auto = atom_is(fn, "self.autoconvert_offset_to_baseunit")

    def exp_is_one(a_):
        # `<exponent> == 1` where <exponent> is a plain local (the exponent taken from the pair), not a length, or the
        # exponent looked up in `units`
        if not (isinstance(a_, ast.Compare) and len(a_.ops) == 1 and isinstance(a_.ops[0], ast.Eq)):
            return False
        l_, r_ = a_.left, a_.comparators[0]
        e_ = l_ if norm(r_) == "1" else (r_ if norm(l_) == "1" else None)
        if isinstance(e_, ast.Name) and not isinstance(shape.unalias(e_, fn), ast.Name):
            r_ = shape.unalias(e_, fn)
            return not (isinstance(r_, ast.Call) and call_name(r_) == "len") and not isinstance(r_, ast.Constant)
        if isinstance(e_, ast.Name):
            return True
        return e_ is not None and (shape.match("units[_K]", e_) is not None or shape.match("units.get(_K)", e_) is not None)
    e_many = edges_where(cfg, fn, many, True)
    e_exp = edges_where(cfg, fn, exp_is_one, False)
    both = set(edges_where(cfg, fn, several_units, True))
    e_ctx = sorted({(t, lab) for (t, lab) in edges_where(cfg, fn, no_auto, False) if (t, lab) in both or known(cfg.nodes[t].ast, fn, several_units, True)} |
                   {(t, lab) for (t, lab) in both if known(cfg.nodes[t].ast, fn, no_auto, False)})
    rules_ = (("more-than-one-offset-unit", e_many, "more than one non-multiplicative unit"), ("higher-order", e_exp, "exponent != 1"), ("multiplicative-context", e_ctx, "len(units) > 1 and not autoconvert"))
    for key, edges_, cond in rules_:
        if not edges_:
            ck.fail("G-DOM", f"_validate_and_extract|{key}-rejected", fi.loc(), f"the test `{cond}` is gone")
        for (t, lab) in edges_:
            p = edge_leads_only_to_raise(cfg, t, lab)
            ck.check(p is None, "G-DOM", f"_validate_and_extract|{key}-rejected", fi.loc(cfg.nodes[t].ast), f"`{cond}` raises", f"`{cond}` no longer raises", witness(cfg, p))


def delta_twin_rules(ck, ix):
    fi = ix.func(NR, "GenericNonMultiplicativeRegistry._add_unit")
    ck.analysed(fi)
    fn, defs = fi.node, defs_of(fi)
    ud = [c for c in walk_local(fn) if isinstance(c, ast.Call) and call_name(c) == "UnitDefinition"]
    ck.floor("G-PROV", len(ud), 1, "delta UnitDefinition construction")
    for c in ud:
        a = [norm(defs.inline(x)) for x in c.args]
        ck.check(a[0] == "'delta_' + definition.name", "G-PROV", "_add_unit|delta-name", fi.loc(c), "named delta_<name>", f"delta unit named `{a[0]}`")
        ck.check(a[3] == "ScaleConverter(definition.converter.scale)", "G-PROV", "_add_unit|delta-converts-by-scale-only", fi.loc(c), "delta unit converts by the scale of the offset unit, without offset",
                 f"delta unit converter is `{a[3]}` (must be ScaleConverter(definition.converter.scale): same scale, no offset)")
        ck.check("definition.reference.items()" in a[4] or a[4] in ("definition.reference", "self.UnitsContainer(definition.reference)"), "G-PROV", "_add_unit|delta-same-reference", fi.loc(c), "same reference units", f"delta unit reference is `{a[4]}`")
    # the delta twin (a UnitDefinition built here) is registered, and only where the unit is known to be non-multiplicative
    reg = [c for c in walk_local(fn) if is_super_call(c, "_add_unit") and len(c.args) == 1 and isinstance(shape.unalias(c.args[0], fn), ast.Call) and call_name(shape.unalias(c.args[0], fn)) == "UnitDefinition"]
    ck.check(bool(reg), "G-PROV", "_add_unit|delta-twin-registered", fi.loc(), "delta twin registered", "the delta_ twin is no longer registered")
    for c in reg:
        ck.check(known(c, fn, atom_is(fn, "definition.is_multiplicative"), False), "G-DOM", "_add_unit|delta-only-for-non-multiplicative", fi.loc(c), "delta twin only for non-multiplicative units", "a delta twin is registered for multiplicative units too")


# =====================================================================================
# (c) The offset calculus of _add_sub / _iadd_sub as a decision table, read from the FACTS that hold where each magnitude
# combination `op(L, R)` and each result-units assignment executes (sa.shape.facts_at): the spelling of the chain
# (if/elif/else, nested ifs, flipped or split conditions, De Morgan, hoisted conditions, renamed locals) does not matter.
#
# Vocabulary of Appendix A: positive atom pattern -> (literal, polarity).  `_U` must denote the single
# non-multiplicative unit of the named operand (role 'u' = self's, "u'" = other's).
_ATOMS = [
    ("len(self._get_non_multiplicative_units()) == 0", "SELF_MULT", True, None), ("len(other._get_non_multiplicative_units()) == 0", "OTHER_MULT", True, None),
    ("self._get_non_multiplicative_units()", "SELF_MULT", False, None), ("other._get_non_multiplicative_units()", "OTHER_MULT", False, None),
    ("self._is_multiplicative", "SELF_MULT", True, None), ("other._is_multiplicative", "OTHER_MULT", True, None),
    ("op == operator.sub", "SUB", True, None), ("op == operator.isub", "SUB", True, None), ("op is operator.sub", "SUB", True, None), ("op is operator.isub", "SUB", True, None),
    ("op in (operator.sub, operator.isub)", "SUB", True, None), ("op in (operator.isub, operator.sub)", "SUB", True, None),
    ("len(self._get_non_multiplicative_units()) == 1", "SELF_ONE_OFFSET", True, None), ("len(other._get_non_multiplicative_units()) == 1", "OTHER_ONE_OFFSET", True, None),
    ("self._units[_U] == 1", "SELF_OFFSET_EXP1", True, "u"), ("other._units[_U] == 1", "OTHER_OFFSET_EXP1", True, "u'"),
    ("other._has_compatible_delta(_U)", "OTHER_HAS_DELTA(u)", True, "u"), ("self._has_compatible_delta(_U)", "SELF_HAS_DELTA(u')", True, "u'"),
    ("self._units == other._units", "SAME_UNITS", True, None), ("other._units == self._units", "SAME_UNITS", True, None),
    ("self._get_delta_units()", "SELF_DELTA", True, None), ("other._get_delta_units()", "OTHER_DELTA", True, None),
]
# literals that cannot hold together (len(x) == 0 / len(x) == 1)
_EXCLUSIVE = [("SELF_MULT", "SELF_ONE_OFFSET"), ("OTHER_MULT", "OTHER_ONE_OFFSET")]


def _neg(lit: str) -> str:
    return lit[4:] if lit.startswith("NOT ") else "NOT " + lit


class _Calculus:
    """Reader of one of the two functions."""

    def __init__(self, fi, inplace):
        self.fi, self.fn, self.inplace = fi, fi.node, inplace
        fn = self.fn
        # nested single-return helpers (`def with_delta(units, u): return units.rename(u, 'delta_' + u)`): read through
        self.nested = {d.name: d for d in ast.walk(fn) if isinstance(d, ast.FunctionDef) and d is not fn and shape.single_return(d) is not None
                       and not d.args.vararg and not d.args.kwarg and not d.args.kwonlyargs}
        # roles: the names that hold the single non-multiplicative unit of self / of other.  A name may be bound
        # conditionally (`if len(x) == 1: u = x[0]`) or on every path to either the unit or None (`u = x[0] if ... else
        # None`): in the second case it is a MARKER and `u is not None` means what is known where the unit is bound
        self.roles, self.markers = {}, {}
        leaves = {}

        def add(name, val, at):
            val = shape.unalias(val, fn) if isinstance(val, ast.Name) else val
            if isinstance(val, ast.IfExp):
                add(name, val.body, val.body)
                add(name, val.orelse, val.orelse)
            else:
                leaves.setdefault(name, []).append((val, at))
        for a in walk_local(fn):
            if isinstance(a, ast.Assign) and len(a.targets) == 1:
                t = a.targets[0]
                if isinstance(t, ast.Name):
                    add(t.id, a.value, a)
                elif isinstance(t, (ast.Tuple, ast.List)) and len(t.elts) == 1 and isinstance(t.elts[0], ast.Name):
                    add(t.elts[0].id, ast.Subscript(value=a.value, slice=ast.Constant(value=0), ctx=ast.Load()), a)
        for _pass in range(2):            # a marker may be defined through another role name
            for name, ls in leaves.items():
                rs = {self.unit_role(self._resolved(v)) for v, _at in ls if not (isinstance(v, ast.Constant) and v.value is None)}
                if len(rs) == 1 and None not in rs:
                    self.roles[name] = rs.pop()
        for name, ls in leaves.items():
            some = [(v, at) for v, at in ls if not (isinstance(v, ast.Constant) and v.value is None)]
            if name in self.roles and len(some) == 1 and len(some) < len(ls):
                self.markers[name] = some[0][1]
        self._marker_lits = {}

    def _resolved(self, e):
        try:
            return shape.resolve(e, self.fn) if any(getattr(x, "_parent", None) is not None for x in ast.walk(e)) else e
        except RecursionError:
            return e

    def marker_literals(self, name):
        """the vocabulary literals known where the marker is bound to the unit"""
        if name not in self._marker_lits:
            self._marker_lits[name] = set()          # (guards against recursion)
            self._marker_lits[name] = set(self.knowledge(self.markers[name])[0])
        return self._marker_lits[name]

    def through_helpers(self, e):
        """`e` with calls of nested single-return helpers replaced by the helper's expression"""
        nested = self.nested

        class T(ast.NodeTransformer):
            def visit_Call(self, c):
                self.generic_visit(c)
                d = nested.get(c.func.id) if isinstance(c.func, ast.Name) else None
                if d is not None and not c.keywords and len(c.args) == len(d.args.args) and not any(isinstance(x, ast.Starred) for x in c.args):
                    sub = {p.arg: x for p, x in zip(d.args.args, c.args)}

                    class S(ast.NodeTransformer):
                        def visit_Name(self, n):
                            return sub[n.id] if n.id in sub and isinstance(n.ctx, ast.Load) else n
                    from ..flow import clone
                    return S().visit(clone(shape.single_return(d)))
                return c
        return T().visit(e) if nested else e

    def unit_role(self, e):
        """'u' / "u'" if the (resolved) expression denotes the single non-multiplicative unit of self / other"""
        if isinstance(e, ast.Name):
            return self.roles.get(e.id)
        if isinstance(e, ast.IfExp):          # `<unit> if <it is the only one> else None`
            alts = [x for x in (e.body, e.orelse) if not (isinstance(x, ast.Constant) and x.value is None)]
            return self.unit_role(alts[0]) if len(alts) == 1 else None
        for who, r in (("self", "u"), ("other", "u'")):
            if any(shape.match(p, e) is not None for p in (f"{who}._get_non_multiplicative_units()[0]", f"next(iter({who}._get_non_multiplicative_units()))", f"{who}._get_non_multiplicative_units().pop()")):
                return r
        return None

    # ---- conditions
    def literal(self, atom):
        """(literal text, known?) of an expression used as a condition"""
        if isinstance(atom, ast.UnaryOp) and isinstance(atom.op, ast.Not):
            l, k = self.literal(atom.operand)
            return _neg(l), k
        for a, holds in shape.atoms(atom):
            pos = holds == "t"
            try:
                r = shape.resolve(a, self.fn)
            except RecursionError:
                r = a
            for pat, name, polarity, role in _ATOMS:
                for form in (a, r):
                    b = shape.match(pat, form)
                    if b is None:
                        continue
                    if role is not None:
                        sub = [x for x in ast.walk(form) if norm(x) == b["_U"]]
                        if not sub or self.unit_role(sub[0]) != role:
                            continue
                    return (name if polarity == pos else _neg(name)), True
            return ("?" + norm(r) if pos else "NOT ?" + norm(r)), False
        return "?" + norm(atom), False

    def meaning(self, e, truth, depth=3):
        """What `e` having the given truth value means in the vocabulary: ("and", literals) = all hold, ("or", literals)
        = at least one holds; each literal is (text, known?).  None if it cannot be expressed."""
        if isinstance(e, ast.UnaryOp) and isinstance(e.op, ast.Not):
            return self.meaning(e.operand, not truth, depth)
        if isinstance(e, ast.Name) and depth > 0 and e.id not in self.markers:
            v = shape.unalias(e, self.fn) if getattr(e, "_parent", None) is not None else e
            if v is not e and isinstance(v, (ast.BoolOp, ast.UnaryOp, ast.Compare, ast.Call, ast.Attribute, ast.Name)):
                return self.meaning(v, truth, depth - 1)
        if isinstance(e, ast.BoolOp):
            conj = isinstance(e.op, ast.And) == truth           # (a and b) true / (a or b) false: every member decided
            parts = [self.meaning(v, truth, depth) for v in e.values]
            if any(p is None for p in parts):
                return None
            out = []
            for kind, ls in parts:
                if len(ls) != 1 and kind != ("and" if conj else "or"):
                    return None
                out += ls
            return ("and" if conj else "or"), out
        # presence test of a marker: `u is not None`, `u`, `u is None`
        for a, holds in shape.atoms(e):
            pos = (holds == "t") == truth
            name, present = None, None
            if isinstance(a, ast.Name) and a.id in self.markers:
                name, present = a.id, pos
            elif isinstance(a, ast.Compare) and len(a.ops) == 1 and isinstance(a.ops[0], (ast.Is, ast.Eq)) and isinstance(a.left, ast.Name) and a.left.id in self.markers \
                    and isinstance(a.comparators[0], ast.Constant) and a.comparators[0].value is None:
                name, present = a.left.id, not pos
            if name is not None:
                ls = sorted(self.marker_literals(name))
                return ("and", [(l, True) for l in ls]) if present else ("or", [(_neg(l), True) for l in ls])
        l, k = self.literal(e)
        return "and", [((l if truth else _neg(l)), k)]

    def knowledge(self, node):
        """(literals, clauses, unknown literals) known where `node` executes.  A clause is a frozenset of literals of
        which at least one holds (the failed conjunction of an earlier branch)."""
        lits, clauses, unknown = set(), [], set()
        for a, truth in facts(node, self.fn):
            if isinstance(a, ast.Name) and a.id not in self.markers and shape.unalias(a, self.fn) is not a:
                continue                      # a hoisted condition: its expansion is in the list as well
            m = self.meaning(a, truth)
            if m is None:
                unknown.add(("" if truth else "NOT ") + "?" + norm(a))
                continue
            kind, ls = m
            if kind == "and" or len(ls) == 1:
                for l, k in ls:
                    (lits if k else unknown).add(l)
            else:
                clauses.append(frozenset(l for l, _k in ls))
        return lits, clauses, unknown

    # ---- values
    def units(self, e):
        e = self.through_helpers(self._resolved(e))
        s = norm(e)
        if s in ("self._units", "self.units"):
            return "U_s"
        if s in ("other._units", "other.units"):
            return "U_o"
        if s == "self.UnitsContainer()":
            return "DIMLESS"
        b = shape.match("_B.rename(_A, 'delta_' + _A)", e)
        if b is not None:
            which = self.unit_role(e.args[0]) or b["_A"]
            return f"delta({self.units(e.func.value)},{which})"
        return "?" + s

    def rebindings(self, use, name):
        """[(value or None, literals)] for a parameter `name` read in statement `use` that an earlier sibling statement
        rebinds conditionally (`if c: other = other.to(x)`): the values it may have (None = the original object) with the
        vocabulary literals under which it has them.  [] if the name is not rebound before the use."""
        loc = shape._block_and_index(use)
        while loc is not None:
            par, lst, idx = loc
            for st in reversed(lst[:idx]):
                stores = [x for x in ast.walk(st) if isinstance(x, ast.Name) and x.id == name and isinstance(x.ctx, ast.Store)]
                if not stores:
                    continue
                if isinstance(st, ast.Assign) and len(st.targets) == 1 and isinstance(st.targets[0], ast.Name):
                    return [(st.value, set())]
                if isinstance(st, ast.If):
                    def last(body):
                        vals = [x.value for x in body if isinstance(x, ast.Assign) and len(x.targets) == 1 and isinstance(x.targets[0], ast.Name) and x.targets[0].id == name]
                        simple = all(isinstance(x, ast.Assign) or not any(isinstance(y, ast.Name) and y.id == name and isinstance(y.ctx, ast.Store) for y in ast.walk(x)) for x in body)
                        return (vals[-1] if vals else None), simple
                    (vt, okt), (vf, okf) = last(st.body), last(st.orelse)
                    if okt and okf:
                        out = []
                        for val, lab in ((vt, "t"), (vf, "f")):
                            ls = set()
                            for a, t in shape.conjuncts(st.test, lab):
                                m = self.meaning(a, t)
                                if m is not None and (m[0] == "and" or len(m[1]) == 1):
                                    ls |= {l for l, k in m[1] if k}
                            out.append((val, ls))
                        return out
                return [("?", set())]
            if par is self.fn or isinstance(par, (ast.FunctionDef, ast.AsyncFunctionDef)):
                return []
            loc = shape._block_and_index(par)
        return []

    def operand_alternatives(self, e):
        """[(operand, literals)]: the operand readings of `e`, one per value a conditionally rebound `other` may have."""
        names = [x for x in ast.walk(e) if isinstance(x, ast.Name) and x.id == "other" and getattr(x, "_parent", None) is not None]
        alts = self.rebindings(names[0], "other") if names else []
        if not alts:
            return [(self.operand(e), set())]
        out = []
        for val, ls in alts:
            if val is None:
                out.append((self.operand(e), ls))
            elif val == "?":
                out.append((("?", norm(e)), ls))
            else:
                class S(ast.NodeTransformer):
                    def visit_Name(self, n):
                        return val if n.id == "other" and isinstance(n.ctx, ast.Load) else n
                from ..flow import clone
                out.append((self.operand(S().visit(clone(e))), ls))
        return out

    def operand(self, e):
        """(who, target units): who in {S, O, B}; target None = magnitude as is."""
        e = self.through_helpers(self._resolved(e))
        s = norm(e)
        if s in [f"self.{a}" for a in MAG]:
            return ("S", None)
        if s in [f"other.{a}" for a in MAG]:
            return ("O", None)
        if isinstance(e, ast.Attribute) and e.attr in MAG and isinstance(e.value, ast.Call) and call_name(e.value) == "to" and isinstance(e.value.func, ast.Attribute) and len(e.value.args) == 1:
            who = {"other": "O", "self": "S"}.get(norm(e.value.func.value), "?")
            return (who, self.units(e.value.args[0]))
        if isinstance(e, ast.Call) and call_name(e) in ("_convert_magnitude", "_convert_magnitude_not_inplace") and isinstance(e.func, ast.Attribute) and norm(e.func.value) == "self" and len(e.args) == 1:
            return ("S", self.units(e.args[0]))
        if isinstance(e, ast.Call) and call_name(e) == "_to_magnitude":
            return ("B", None)
        return ("?", s)


def _flat_spec():
    """SPEC rows in precedence order, the multiplicative row split into its documented sub-rows:
    (report name, predicates, allowed operand pairs, result units, key of the condition check)."""
    rows = []
    for preds, spec in SPEC:
        if spec == "nested":
            for sp, (sops, sunits) in SPEC_MULT:
                extra = () if sp == "else" else sp
                rows.append((f"MULT:{sp if isinstance(sp, str) else ' & '.join(sp)}", tuple(preds) + tuple(extra), sops, sunits, "multiplicative-subconditions"))
        else:
            rows.append((" & ".join(preds), tuple(preds), spec[0], spec[1], "branch-conditions==documented-rows"))
    return rows


def _excluded(preds, lits, clauses) -> bool:
    """The row with these predicates cannot apply where `lits` / `clauses` are known."""
    negs = {_neg(p) for p in preds}
    if negs & lits:
        return True
    for a, b in _EXCLUSIVE:
        if (a in preds and b in lits) or (b in preds and a in lits):
            return True
    return any(c and c <= negs for c in clauses)


# Decision table (docs/user/nonmult.rst + comments in the source; DESIGN.md Appendix A).
# (predicates) -> (set of operand pairs, result units)
SPEC = [
    (("SELF_MULT", "OTHER_MULT"), "nested"),
    (("SUB", "SELF_ONE_OFFSET", "SELF_OFFSET_EXP1", "NOT OTHER_HAS_DELTA(u)"), ([(("S", None), ("O", None)), (("S", None), ("O", "U_s"))], "delta(U_s,u)")),
    (("SUB", "OTHER_ONE_OFFSET", "OTHER_OFFSET_EXP1", "NOT SELF_HAS_DELTA(u')"), ([(("S", None), ("O", "U_s"))], "U_s")),
    (("SELF_ONE_OFFSET", "SELF_OFFSET_EXP1", "OTHER_HAS_DELTA(u)"), ([(("S", None), ("O", "delta(U_s,u)"))], "U_s")),
    (("OTHER_ONE_OFFSET", "OTHER_OFFSET_EXP1", "SELF_HAS_DELTA(u')"), ([(("S", "delta(U_o,u')"), ("O", None))], "U_o")),
]
SPEC_MULT = [
    (("SAME_UNITS",), ([(("S", None), ("O", None))], "U_s")),
    (("SELF_DELTA", "NOT OTHER_DELTA"), ([(("S", "U_o"), ("O", None))], "U_o")),
    ("else", ([(("S", None), ("O", "U_s"))], "U_s")),
]


def offset_table(ck, ix):
    flat = _flat_spec()
    same_dim = ("self.dimensionality == other.dimensionality", "other.dimensionality == self.dimensionality")
    tables = {}
    for q, inplace in (("PlainQuantity._add_sub", False), ("PlainQuantity._iadd_sub", True)):
        fi = ix.func(PQ, q)
        ck.analysed(fi)
        fn, cfg = fi.node, cfg_of(fi)
        cal = _Calculus(fi, inplace)
        is_same_dim = atom_is(fn, *same_dim)
        # candidates: magnitude combinations op(L, R), assignments of the result units, raises of OffsetUnitCalculusError
        if inplace:
            unit_targets = {"self._units"}
        else:
            ctors = [b for r in shape.returns_of(fn) for b in [shape.match("self.__class__(_M, _U)", shape.unalias(r.value, fn)) or shape.match("type(self)(_M, _U)", shape.unalias(r.value, fn))] if b is not None]
            unit_targets = {b["_U"] for b in ctors if b["_U"].isidentifier()}
            ck.floor("G-TABLE", len(unit_targets), 1, f"name of the result units passed to self.__class__(magnitude, units) in {q}")
        apps = [c for c in walk_local(fn) if isinstance(c, ast.Call) and isinstance(c.func, ast.Name) and c.func.id == "op" and len(c.args) == 2 and not shape.dead(c, fn)]
        uasg = [a for a in walk_local(fn) if isinstance(a, ast.Assign) and len(a.targets) == 1 and norm(a.targets[0]) in unit_targets and not shape.dead(a, fn)]
        know = {id(n): cal.knowledge(n) for n in apps + uasg}
        in_calculus = lambda n: bool(know[id(n)][0]) or bool(know[id(n)][1])
        apps_c, uasg_c = [c for c in apps if in_calculus(c)], [a for a in uasg if in_calculus(a)]
        ck.floor("G-TABLE", len(apps_c), len(flat), f"magnitude combinations op(L, R) under offset-calculus conditions in {q}")
        top = min(apps_c, key=lambda c: c.lineno)
        # conditions that hold for the whole calculus (same registry, same dimensionality ...) are not part of a row
        ambient = set.intersection(*[know[id(c)][2] for c in apps_c])

        def row_of(n):
            lits = know[id(n)][0]
            hits = [r for r in flat if set(r[1]) <= lits]
            return max(hits, key=lambda r: len(r[1])) if hits else None
        by_row = {r[0]: ([], []) for r in flat}
        cond_ok = {"branch-conditions==documented-rows": [], "multiplicative-subconditions": []}
        for c in apps_c:
            lits, clauses, unknown = know[id(c)]
            r = row_of(c)
            if r is None:
                cond_ok["branch-conditions==documented-rows"].append((c, f"`{norm(stmt_of(c)).splitlines()[0]}` combines the magnitudes under the conditions [{' & '.join(sorted(lits))}], which is not a documented row"))
                continue
            by_row[r[0]][0].append(c)
            extra = sorted(unknown - ambient)
            if extra:
                cond_ok[r[4]].append((c, f"row [{r[0]}] additionally depends on {extra}"))
            # precedence: every documented row that comes earlier must be known not to apply here
            for e in flat[:flat.index(r)]:
                if not _excluded(e[1], lits, clauses):
                    cond_ok[r[4] if e[4] == r[4] else "branch-conditions==documented-rows"].append((c, f"row [{r[0]}] is evaluated although the earlier documented row [{e[0]}] may apply (precedence of the rows changed or a condition was weakened)"))
        for a in uasg_c:
            r = row_of(a)
            if r is not None:
                by_row[r[0]][1].append(a)
        for r in flat:
            if not by_row[r[0]][0]:
                cond_ok[r[4]].append((top, f"no magnitude combination is performed under the documented row [{r[0]}] (conditions {' & '.join(r[1])})"))
        for key, problems in cond_ok.items():
            what = "branch conditions match the documented decision table" if key.startswith("branch") else "sub-conditions for multiplicative operands match"
            ck.check(not problems, "G-TABLE", f"{q}|{key}", fi.loc(problems[0][0]) if problems else fi.loc(top), what, "; ".join(p_[1] for p_ in problems[:3]))
        # a units assignment that holds for the whole calculus (before the chain) is the default of every row
        default_units = [a for a in uasg if not in_calculus(a) and known(a, fn, is_same_dim, True)]
        summary = {}
        for name, preds, sops, sunits, _k in flat:
            cs, us = by_row[name]
            if not cs:
                continue
            pairs = [((l_, r_), know[id(c)][0] | ll_ | rl_) for c in cs for l_, ll_ in cal.operand_alternatives(c.args[0]) for r_, rl_ in cal.operand_alternatives(c.args[1])]
            ops = sorted({p_ for p_, _l in pairs}, key=repr)
            raw_ok = all(p_ != (("S", None), ("O", None)) or "SAME_UNITS" in l_ for p_, l_ in pairs)
            uvals = sorted({cal.units(a.value) for a in (us or default_units)})
            units = uvals[0] if len(uvals) == 1 else ("U_s" if inplace and not uvals else (None if not uvals else "/".join(uvals)))
            summary[name] = (ops, units)
            ck.check(bool(ops) and all(o in sops for o in ops) and raw_ok, "G-TABLE", f"{q}|row[{name}]|operands", fi.loc(cs[0]),
                     f"operands combined as {ops}", f"row [{name}]: magnitudes are combined as {ops}{'' if raw_ok else ' (unconverted although the units are not known to be the same)'}, documented: {sops} (wrong operand converted / wrong target units)")
            ck.check(units == sunits, "G-TABLE", f"{q}|row[{name}]|result-units", fi.loc(us[0] if us else cs[0]),
                     f"result in {units}", f"row [{name}]: result units {units}, documented: {sunits}")
        tables[q] = (summary, fi, top)
        # every other combination raises: no path reaches the final result without one of the magnitude combinations,
        # and OffsetUnitCalculusError is raised where no documented row applies
        gates = [i for c in apps_c for i in cfg.nodes_for_ast(stmt_of(c))]
        after = cfg.reach(gates)
        finals = [n.id for n in cfg.nodes if n.kind == "stmt" and isinstance(n.ast, ast.Return) and n.id in after and n.id not in gates]      # the return(s) of the result the combinations flow into
        ck.floor("G-EXH", len(finals), 1, f"return of the result after the offset calculus in {q}")
        p = undominated(cfg, finals, gates)
        rs = [r for r in _raises_of(fn, "OffsetUnitCalculusError") for (lits, clauses, _u) in [cal.knowledge(r)] if all(_excluded(e[1], lits, clauses) for e in flat)]
        ck.check(p is None and bool(rs), "G-EXH", f"{q}|every-other-combination-raises", fi.loc(rs[0]) if rs else fi.loc(cfg.nodes[finals[0]].ast),
                 "where no documented row applies OffsetUnitCalculusError is raised", "a combination outside the documented rows no longer raises OffsetUnitCalculusError (it would fall through to a numeric result)", witness(cfg, p))
        # the dimensionality gate (shared with C03)
        ck.check(all(known(c, fn, is_same_dim, True) for c in apps_c), "G-DOM", f"{q}|dimensionality-test-dominates-calculus", fi.loc(), "operands of different dimensionality are rejected first",
                 "the offset calculus is reachable without the dimensionality test")
        refused(ck, fi, cfg, is_same_dim, False, "G-DOM", f"{q}|dimension-mismatch-raises", "mismatch raises DimensionalityError", "a dimension mismatch does not raise", "the dimensionality of the operands is no longer compared")
    # twin agreement (same rows, same summaries)
    a, b = tables["PlainQuantity._add_sub"], tables["PlainQuantity._iadd_sub"]
    ck.check(a[0] == b[0], "G-TWIN", "_add_sub/_iadd_sub|same-decision-table", b[1].loc(b[2]), "functional and in-place forms implement the same table",
             "the in-place form and the functional form differ in a branch (condition, converted operand, target or result units)")


def _stands_for_self(defs, x: str) -> bool:
    """`x` is `self`, or a local every definition of which is self or self converted to root/base units"""
    if x == "self":
        return True
    ds = defs.defs.get(x, [])

    def alts(v):
        return alts(v.body) + alts(v.orelse) if isinstance(v, ast.IfExp) else [v]
    return x.isidentifier() and x not in defs.params and bool(ds) and all(v is not None and _k == "assign" and all(norm(a_) in ("self", "self.to_root_units()", "self.to_base_units()") for a_ in alts(v)) for v, _k, _s in ds)


def muldiv_rules(ck, ix):
    preds = ("_ok_for_muldiv", "_has_compatible_delta", "_get_non_multiplicative_units", "_get_delta_units")
    latent = {("PlainQuantity.__pow__", "_ok_for_muldiv"), ("PlainQuantity.__ipow__", "_ok_for_muldiv")}
    n = 0
    for f in ix.all_functions():
        if not isinstance(f.node, (ast.FunctionDef, ast.AsyncFunctionDef)):
            continue
        for a in walk_local(f.node):
            if isinstance(a, ast.Attribute) and a.attr in preds and isinstance(a.ctx, ast.Load):
                par = getattr(a, "_parent", None)
                called = isinstance(par, ast.Call) and par.func is a
                n += 1
                key = f"{f.qualname.split('::')[1]}|{a.attr}"
                if not called and (f.qualname.split("::")[1], a.attr) in latent:
                    ck.ok("G-ERR-c", f"predicate-called|{key}", f.loc(a), "LATENT (triaged, not a property violation): the bound method is tested instead of being called, so this guard is dead; "
                          "every case it was meant to refuse is refused later by the `_is_multiplicative` gate or by to_root_units (DimensionalityError), see DESIGN.md §9 D6")
                    continue
                ck.check(called, "G-ERR-c", f"predicate-called|{key}", f.loc(a), "predicate is called",
                         f"`{norm(par) if par is not None else a.attr}` uses the bound method `{a.attr}` without calling it: the test is constant and the guard is dead")
    ck.floor("G-ERR-c", n, 10, "uses of the multiplicativity predicates")

    # exhaustive abstract evaluation of NonMultiplicativeQuantity._ok_for_muldiv
    fi = ix.func(NO, "NonMultiplicativeQuantity._ok_for_muldiv")
    ck.analysed(fi)
    cases = 0
    bad = []
    for n_off, n_units, auto, exp in itertools.product((0, 1, 2, 3), (1, 2, 3), (True, False), (1, 2, -1)):
        if n_off > n_units:
            continue
        env = {"len(self._units)": n_units, "self._REGISTRY.autoconvert_offset_to_baseunit": auto,
               "next(iter(self._units.values()))": exp, "len(self._get_non_multiplicative_units())": n_off}
        for explicit in (True, False):
            args = {"self": None, fi.node.args.args[1].arg: (n_off if explicit else None)}
            got = absint.evaluate(fi.node, env, args)
            want = n_off == 0 or (n_off == 1 and n_units == 1 and auto and exp == 1)
            cases += 1
            if bool(got) != want:
                bad.append(f"offset_units={n_off} units={n_units} autoconvert={auto} exponent={exp}: returns {got}, documented {want}")
    ck.extra["absint_cases__ok_for_muldiv"] = cases
    ck.check(not bad, "G-ABSINT", "_ok_for_muldiv|agrees-with-documented-rule", fi.loc(), f"{cases} abstract cases agree: {SPEC_OK_FOR_MULDIV}",
             f"_ok_for_muldiv disagrees with the documented rule ({SPEC_OK_FOR_MULDIV}) in {len(bad)} of {cases} abstract cases, e.g. {bad[:2]}")
    # is_multiplicative property of the facet quantity
    f = ix.func(NO, "NonMultiplicativeQuantity._is_multiplicative")
    ck.check(_returns_only(f, "not self._get_non_multiplicative_units()", "len(self._get_non_multiplicative_units()) == 0"), "G-PROV", "NonMultiplicativeQuantity._is_multiplicative", f.loc(),
             "multiplicative iff no non-multiplicative unit", "_is_multiplicative no longer tests for the absence of non-multiplicative units")
    # _get_non_multiplicative_units: the units of self._units (whatever the loop variable is called) whose definition is known not to be multiplicative
    f = ix.func(NO, "NonMultiplicativeQuantity._get_non_multiplicative_units")
    sel = bool(_selections(f.node, ("self._units", "self._units.keys()", "self._units.items()"), lambda u: (f"self._get_unit_definition({u}).is_multiplicative", False)))
    ck.check(sel, "G-PROV", "NonMultiplicativeQuantity._get_non_multiplicative_units", f.loc(), "selects units whose definition is not multiplicative", "_get_non_multiplicative_units no longer selects by `not is_multiplicative`")
    # _has_compatible_delta: the exact delta twin, or a delta unit with the same reference as the offset unit
    f = ix.func(NO, "NonMultiplicativeQuantity._has_compatible_delta")
    DU = "self._get_delta_units()"
    twin = [r for r in shape.returns_of(f.node) if shape.rnorm(r.value, f.node) == "True" and known(r, f.node, atom_is(f.node, f"'delta_' + unit in {DU}"), True)] \
        or [h for pat in (f"'delta_' + unit in {DU}",) for h in find(ix, f, pat, inline=False) if isinstance(stmt_of(h[0]), ast.Return)]
    REF = lambda x: f"self._get_unit_definition({x}).reference"
    # ... some delta unit D has the reference of the offset unit: `any(<REF(D) == REF(unit)> for D in deltas)`, or a loop over
    # the delta units that answers True where the equality is known
    same_ref = [h for gen in ("({e} for _D in {it})", "[{e} for _D in {it}]") for e in (f"{REF('_D')} == {REF('unit')}", f"{REF('unit')} == {REF('_D')}")
                for h in find(ix, f, "any(" + gen.format(e=e, it=DU) + ")", inline=False)]
    for loop in [l for l in walk_local(f.node) if isinstance(l, ast.For) and isinstance(l.target, ast.Name) and shape.rnorm(l.iter, f.node) == DU]:
        d_ = loop.target.id
        same = atom_is(f.node, f"{REF(d_)} == {REF('unit')}", f"{REF('unit')} == {REF(d_)}")
        same_ref += [r for r in ast.walk(loop) if isinstance(r, ast.Return) and r.value is not None and shape.rnorm(r.value, f.node) == "True" and known(r, f.node, same, True)]
    ck.check(bool(twin) and bool(same_ref), "G-PROV", "NonMultiplicativeQuantity._has_compatible_delta", f.loc(), "exact delta twin or a delta with the same reference", "_has_compatible_delta no longer looks for the delta twin / same-reference delta")

    # guards in the multiplicative operators
    for q, who in (("PlainQuantity._mul_div", ("self", "other")), ("PlainQuantity._imul_div", ("self", "other")), ("PlainQuantity.__rtruediv__", ("self",))):
        fi = ix.func(PQ, q)
        ck.analysed(fi)
        fn, cfg = fi.node, cfg_of(fi)
        for w in who:
            is_ok = atom_is(fn, f"{w}._ok_for_muldiv(*_R)")
            refused(ck, fi, cfg, is_ok, False, "G-DOM", f"{q}|{w}-not-ok-raises", "not ok => OffsetUnitCalculusError", "an operand that is not ok for mul/div does not raise", f"`{w}._ok_for_muldiv(...)` is no longer tested in {q}")
            ck.check(bool(edges_where(cfg, fn, is_ok, False)), "G-DOM", f"{q}|{w}-ok_for_muldiv-tested", fi.loc(), f"{w} is tested with _ok_for_muldiv", f"`{w}._ok_for_muldiv(...)` is no longer tested in {q}")
            for c in calls_matching(fn, f"{w}._ok_for_muldiv(_N)"):
                arg = shape.rnorm(c.args[0], fn)
                ck.check(arg == f"len({w}._get_non_multiplicative_units())", "G-PROV", f"{q}|{w}-offset-count-argument", fi.loc(c), f"count of {w}'s non-multiplicative units passed", f"`{norm(c)}` receives `{arg}`, not the number of {w}'s non-multiplicative units")
            # single offset unit goes through root units
            conv = [x for x in walk_local(fn) if isinstance(x, ast.Call) and call_name(x) in ("to_root_units", "ito_root_units", "to_base_units", "ito_base_units") and norm(x.func.value) == w]
            ck.check(bool(conv), "G-DOM", f"{q}|{w}-single-offset-unit-via-root-units", fi.loc(), f"a lone offset unit of {w} is converted to root units first", f"{w} with a single offset unit is no longer converted to root units before the operation")
    # the quantity/quantity branch combines the magnitudes and the units of the same two objects: `other` and either self
    # or the object that stands for self after the conversion to root units (whatever it is called)
    for q, short in (("PlainQuantity._mul_div", "_mul_div"), ("PlainQuantity._imul_div", "_imul_div")):
        fi = ix.func(PQ, q)
        defs = defs_of(fi)
        mags = {(b["_X"], b["_O"]) for a in MAG for a2 in MAG for (_n, b, _f) in find(ix, fi, f"magnitude_op(_X.{a}, _O.{a2})")}
        unts = {(b["_X"], b["_O"]) for (_n, b, _f) in find(ix, fi, "units_op(_X._units, _O._units)")}

        stands_for_self = lambda x: _stands_for_self(defs, x)
        okm = bool(mags) and mags == unts and all(stands_for_self(x) and o == "other" for x, o in mags) and (short == "_mul_div" or all(x == "self" for x, _o in mags))
        ck.check(okm, "G-TAG", f"{short}|magnitude-and-units-from-same-objects", fi.loc(),
                 "magnitude and units are taken from the same (converted) objects", f"magnitude and units in {short} are no longer taken from the same (converted) objects (magnitudes of {sorted(mags)}, units of {sorted(unts)})")
    fi = ix.func(PQ, "PlainQuantity.__rtruediv__")
    # the result is built from (number / magnitude of X, 1 / units of X) for one and the same X (self, possibly converted to root units)
    dfs = defs_of(fi)
    ctor = [(c_, b_) for c_ in walk_local(fi.node) if isinstance(c_, ast.Call) and len(c_.args) == 2 for b_ in [shape.match("_X.__class__", c_.func) or shape.match("type(_X)", c_.func)] if b_ is not None]
    okr = len(ctor) == 1 and _stands_for_self(dfs, ctor[0][1]["_X"])
    if okr:
        m_, u_ = [shape.unalias(a_, fi.node) for a_ in ctor[0][0].args]
        okr = isinstance(m_, ast.BinOp) and isinstance(m_.op, ast.Div) and isinstance(u_, ast.BinOp) and isinstance(u_.op, ast.Div)
        okr = okr and norm(m_.right).endswith("._magnitude") and norm(u_.right).endswith("._units") and norm(m_.right)[:-len("._magnitude")] == norm(u_.right)[:-len("._units")] and norm(u_.left) == "1" \
            and _stands_for_self(dfs, norm(m_.right)[:-len("._magnitude")]) and "other" in " ".join(dfs.roots(m_.left))
    ck.check(okr, "G-TAG", "__rtruediv__|number-over-quantity", fi.loc(),
             "other / self with reciprocal units", "__rtruediv__ no longer computes other / self with reciprocal units")

    # powers: non-multiplicative => autoconvert to root/base units or raise
    CONV = ("to_root_units", "ito_root_units", "to_base_units", "ito_base_units")
    for q in ("PlainQuantity.__pow__", "PlainQuantity.__ipow__"):
        fi = ix.func(PQ, q)
        ck.analysed(fi)
        fn, cfg = fi.node, cfg_of(fi)
        is_mult = atom_is(fn, "self._is_multiplicative")
        is_auto = atom_is(fn, "self._REGISTRY.autoconvert_offset_to_baseunit")
        ck.check(bool(edges_where(cfg, fn, is_mult, False)), "G-DOM", f"{q}|multiplicativity-tested", fi.loc(), "non-multiplicative bases are detected", f"{q} no longer tests `not self._is_multiplicative`")
        # where the base is known to be non-multiplicative: without autoconvert only a raise, with autoconvert a conversion to root/base units
        rs = [r for r in _raises_of(fn, "OffsetUnitCalculusError") if known(r, fn, is_mult, False)]
        ck.check(bool(rs) and all(known(r, fn, is_auto, False) for r in rs), "G-DOM", f"{q}|offset-base-needs-autoconvert", fi.loc(rs[0]) if rs else fi.loc(), "autoconvert decides", "the autoconvert test is gone")
        refused(ck, fi, cfg, is_auto, False, "G-DOM", f"{q}|offset-base-without-autoconvert-raises", "without autoconvert an offset base raises", "an offset base is raised to a power without autoconvert", "the autoconvert test is gone")
        convs = [c for c in walk_local(fn) if isinstance(c, ast.Call) and call_name(c) in CONV and isinstance(c.func, ast.Attribute) and norm(c.func.value) == "self" and known(c, fn, is_mult, False) and known(c, fn, is_auto, True)]
        ck.check(bool(convs), "G-DOM", f"{q}|offset-base-converted-before-power", fi.loc(convs[0]) if convs else fi.loc(), "with autoconvert the base is converted to root/base units first",
                 "with autoconvert the offset base is not converted to root/base units before the power")
        # the power itself is dominated by that test unless exponent is 0/1
        pw = nodes_with(cfg, lambda x: (isinstance(x, ast.BinOp) and isinstance(x.op, ast.Pow) and "_magnitude" in norm(x.left)) or
                        (isinstance(x, ast.AugAssign) and isinstance(x.op, ast.Pow) and "_magnitude" in norm(x.target)))
        ck.floor("G-DOM", len(pw), 1, f"magnitude power in {q}")
