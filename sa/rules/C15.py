"""C15 — unit-rewriting helpers preserve the physical quantity."""
from __future__ import annotations

import ast

from ..flow import call_name, dotted, norm, writes_in
from ..index import AnalysisError, walk_local
from ..lib import cfg_of, defs_of, live, nodes_with, return_nodes, undominated, witness
from ..tags import Tagger
from .. import shape

QTO = "pint.facets.plain.qto"
PQ = "pint.facets.plain.quantity"
PR = "pint.facets.plain.registry"

EXPLANATION = (
    "Static analysis (no execution): every exit of to_root_units/to_base_units/to_reduced_units/to_compact/to_preferred "
    "returns the input itself or `quantity.to(U)` (conversion through the gated converter), every ito_* form assigns "
    "magnitude and units from the same target (G-TAG constructor/in-place consistency) and is the branch-for-branch twin "
    "of the functional form with to <-> ito (G-TWIN); root/base twins take their target from the same registry function; "
    "ireduce_dimensions applies the in-place helpers to the *result* under the registry flags; to_compact returns its "
    "argument unchanged on the non-numeric/unitless/zero/NaN/inf branches before any conversion, derives the prefix "
    "from the magnitude of the quantity converted to the unprefixed unit (not from the input magnitude), uses "
    "floor for positive and ceil for negative exponents in steps of 3, and changes units only by renaming one entry; "
    "_get_reduced_units skips already eliminated units with continue, merges by exponent/ratio and restarts; "
    "_get_dimensionality_ratio answers 1 / None / the common ratio. Does not decide value equality, the [1,1000) range "
    "or the integer programme of to_preferred (the simple-match shortcut of to_preferred is decided: proportional exponents by cross-multiplication).")
EXPLANATION += ' Also decided (rules added after the second round of seeded changes): no unit-rewriting helper other than the ito* forms calls an in-place conversion primitive; the base-units memo read by to_base_units is written under its read guard with the substituted units.'
EXPLANATION += ' Also decided (round 8): _get_dimensionality_ratio answers None only where the two dimensionalities are known to differ; the in-place forms ito / ito_root_units / ito_base_units take their new magnitude from self._convert_magnitude(...).'



# ---------------------------------------------------------------- role-based helpers (no names of locals, no polarity)
INPUT_MAGNITUDE = ("quantity.magnitude", "quantity._magnitude", "quantity.m")


def _is(pattern: str, e: ast.AST, fn: ast.AST = None) -> bool:
    """`e` matches the pattern (shape.match syntax) as written or, inside `fn`, after resolving local temporaries"""
    if shape.match(pattern, e) is not None:
        return True
    return fn is not None and shape.match(pattern, shape.resolve(e, fn)) is not None


def _of_input_magnitude(defs, e) -> bool:
    """`e` derives from the magnitude of the *input* quantity (its nominal value included) and not from a converted one"""
    roots = defs.roots(e)
    return any(r == m or r.startswith(m + ".") for r in roots for m in INPUT_MAGNITUDE) and "call:to" not in roots


def _unchanged_conditions(defs):
    """The conditions under which to_compact must hand back its argument: [(label used in the report key, predicate on an
    atomic condition)].  The local that holds the (nominal) magnitude is recognised by what it derives from."""
    def zero(a):
        if not (isinstance(a, ast.Compare) and len(a.ops) == 1 and isinstance(a.ops[0], ast.Eq)):
            return False
        sides = [a.left, a.comparators[0]]
        const = [x for x in sides if isinstance(x, ast.Constant) and x.value == 0 and not isinstance(x.value, bool)]
        return len(const) == 1 and any(_of_input_magnitude(defs, x) for x in sides if x not in const)

    def test(name):
        return lambda a: isinstance(a, ast.Call) and norm(a.func) in (f"math.{name}", name) and len(a.args) == 1 and not a.keywords and _of_input_magnitude(defs, a.args[0])
    return [("quantity.unitless", lambda a: norm(a) == "quantity.unitless"), ("qm == 0", zero), ("math.isnan(qm)", test("isnan")), ("math.isinf(qm)", test("isinf"))]


def _origin(fi, e, fn, depth: int = 3):
    """(defining expression, function it lives in) of a value: local names are followed to their dominating definition
    and `helper(...)[k]` into the k-th element of the tuple returned by a module-level helper with a single return."""
    e = shape.unalias(e, fn)
    if depth > 0 and isinstance(e, ast.Subscript) and isinstance(e.slice, ast.Constant) and isinstance(e.slice.value, int) and isinstance(e.value, ast.Call) and isinstance(e.value.func, ast.Name):
        g = fi.module.functions.get(e.value.func.id)
        rets = shape.returns_of(g.node) if g is not None and isinstance(g.node, ast.FunctionDef) else []
        if len(rets) == 1:
            rv = shape.unalias(rets[0].value, g.node)
            if isinstance(rv, ast.Tuple) and e.slice.value < len(rv.elts):
                return _origin(g, rv.elts[e.slice.value], g.node, depth - 1)
    return e, fn


def _column(lc, fn):
    """For `[row[k] for row in T]` / `[x_k for x_0, x_1 in T]`: (text of T with temporaries resolved, k); else None."""
    if not (isinstance(lc, ast.ListComp) and len(lc.generators) == 1 and not lc.generators[0].ifs):
        return None
    g = lc.generators[0]
    table = shape.rnorm(g.iter, fn)
    if isinstance(g.target, ast.Name) and isinstance(lc.elt, ast.Subscript) and norm(lc.elt.value) == g.target.id and isinstance(lc.elt.slice, ast.Constant):
        return table, lc.elt.slice.value
    if isinstance(g.target, ast.Tuple) and isinstance(lc.elt, ast.Name):
        ks = [i for i, t in enumerate(g.target.elts) if isinstance(t, ast.Name) and t.id == lc.elt.id]
        if len(ks) == 1:
            return table, ks[0]
    return None


def _parallel_keys_and_values(fi, P, B, fn) -> bool:
    """P[i] is the key and B[i] the value of the same entry of one sorted table: either the two are columns 0 and 1 of
    the same list of (key, value) pairs, or P is `sorted(D)` (the sorted keys of a mapping D) and B is `[D[k] for k in
    P]`.  Locals and tuple-returning module helpers are looked through."""
    (pe, pf), (be, bf) = _origin(fi, P, fn), _origin(fi, B, fn)
    if pf is not bf:
        return False
    cp, cb = _column(pe, pf), _column(be, bf)
    if cp is not None and cb is not None and cp[0] == cb[0] and (cp[1], cb[1]) == (0, 1):
        return True
    if isinstance(be, ast.ListComp) and len(be.generators) == 1 and not be.generators[0].ifs and isinstance(be.generators[0].target, ast.Name):
        g = be.generators[0]
        if isinstance(be.elt, ast.Subscript) and norm(be.elt.slice) == g.target.id and shape.rnorm(g.iter, pf) == shape.rnorm(pe, pf):
            D = norm(be.elt.value)
            return any(shape.match(pt, pe) is not None for pt in (f"sorted({D})", f"sorted({D}.keys())"))
    return False


def to_compact_rule(ck, ix):
    """to_compact: unchanged for unitless/zero/NaN/inf, prefix chosen from the magnitude in the unprefixed unit (nominal
    value for uncertain magnitudes), only one unit renamed with the prefix."""
    f = ix.func(QTO, "to_compact")
    fn = f.node
    cfg, defs = cfg_of(f), defs_of(f)
    # candidates: every conversion of the input.  A conversion may only happen where each of the four conditions is known
    # to be false (whatever the shape of the test: one `or`, four guard clauses, a flipped if/else), and every exit taken
    # while one of them may hold returns the input object itself
    conv = [c for c in walk_local(fn) if isinstance(c, ast.Call) and call_name(c) == "to" and norm(c.func.value) == "quantity"]
    ck.floor("G-DOM", len(conv), 1, "conversions of the input quantity in to_compact")
    conds = _unchanged_conditions(defs)
    tested = lambda pred: bool(shape.guard_edges(cfg, pred, False) or shape.guard_edges(cfg, pred, True))
    ck.check(tested(conds[0][1]), "G-DOM", "to_compact|unchanged-guard-present", f.loc(), "unitless/zero/NaN/inf guard present", "the unitless/zero/NaN/inf guard of to_compact is gone")
    for label, pred in conds:
        bad = [c for c in conv if not shape.holds_at(c, fn, pred, False)]
        ck.check(not bad, "G-DOM", f"to_compact|unchanged-for|{label}", f.loc(bad[0]) if bad else f.loc(), f"`{label}` returns the input unchanged", f"to_compact no longer returns its input unchanged when `{label}`")
    passed_guards = lambda node: all(shape.holds_at(node, fn, pred, False) for _, pred in conds)
    early = [r for r in shape.returns_of(fn) if not passed_guards(r)]
    for r in early:
        ck.check(shape.rnorm(r.value, fn) == "quantity", "G-DOM", "to_compact|guard-returns-input", f.loc(r), "guard returns the input object", "the guard does not return the input unchanged")
    for c in conv:
        ck.check(passed_guards(c), "G-DOM", "to_compact|conversion-after-guards", f.loc(c), "conversions happen only after the guards", "a conversion happens before the unitless/zero/NaN/inf guard")
    # the prefix power: round(log10(|m|) / exponent / 3) * 3 with m the magnitude in the unprefixed unit, rounded down
    # for a positive exponent and up for a negative one - whatever the spelling (if/else, conditional expression, ...)
    logs = [c for c in walk_local(fn) if isinstance(c, ast.Call) and norm(c.func) in ("math.log10", "log10") and c.args and any(isinstance(x, ast.Call) and norm(x.func) == "abs" for x in ast.walk(c.args[0]))]
    ck.check(len(logs) >= 1, "G-PROV", "to_compact|two-power-formulas", f.loc(), "log10(|magnitude|) formula present", "no log10(abs(magnitude)) formula found in to_compact")
    exponents = []          # the expressions used as `exponent` in the formulas
    for lg in logs:
        roots = defs.roots(lg.args[0])
        of_input = sorted(r for r in roots for m in INPUT_MAGNITUDE if r == m or r.startswith(m + "."))
        ok = "call:to" in roots and not of_input
        ck.check(ok, "G-PROV", f"to_compact|prefix-from-converted-magnitude|L{lg.lineno - fn.lineno}", f.loc(lg), "the prefix is chosen from the magnitude in the unprefixed unit",
                 f"`{norm(lg)}`: the magnitude used to choose the prefix derives from {of_input or sorted(r for r in roots if 'magnitude' in r)}, not from the quantity converted to the unprefixed unit (already-prefixed inputs get the wrong prefix)")
        # the enclosing rounding call and formula
        call = getattr(lg, "_parent", None)
        while call is not None and not (isinstance(call, ast.Call) and call is not lg and any(lg in ast.walk(a_) for a_ in call.args)):
            call = getattr(call, "_parent", None)
        formula = getattr(call, "_parent", None) if call is not None else None
        m3 = shape.match("_L / float(_E) / 3", call.args[0]) if call is not None and len(call.args) == 1 else None
        steps = m3 is not None and m3["_L"] == norm(lg) and isinstance(formula, ast.BinOp) and isinstance(formula.op, ast.Mult) and norm(formula.right) == "3" and formula.left is call
        ck.check(steps, "G-PROV", f"to_compact|steps-of-three|L{lg.lineno - fn.lineno}", f.loc(lg),
                 "round(log10(|m|) / exponent / 3) * 3", f"`{norm(formula if formula is not None else (call if call is not None else lg))}` is not round(log10(|m|)/exponent/3)*3")
        if call is None:
            continue
        E = m3["_E"] if m3 is not None else next((norm(x.args[0]) for a_ in call.args for x in ast.walk(a_) if isinstance(x, ast.Call) and norm(x.func) == "float" and len(x.args) == 1), None)
        if steps:
            exponents.append(call.args[0].left.right.args[0])

        def positive(a_, E=E):
            mm = shape.match("_E > 0", a_) or shape.match("0 < _E", a_)
            return E is not None and mm is not None and mm["_E"] == E
        fn_ = call.func
        if isinstance(fn_, ast.Name):
            fn_ = shape.dominating_def(fn_, fn) or fn_      # one level: keep the condition as written
        if isinstance(fn_, ast.IfExp):
            pos_, truth = next(iter(shape.conjuncts(fn_.test, "t")), (None, None))
            okr = pos_ is not None and positive(pos_) and ((truth and norm(fn_.body) == "math.floor" and norm(fn_.orelse) == "math.ceil") or (not truth and norm(fn_.body) == "math.ceil" and norm(fn_.orelse) == "math.floor"))
        else:
            nm = norm(fn_)
            okr = nm in ("math.floor", "math.ceil") and shape.holds_at(call, fn, positive, nm == "math.floor")
        ck.check(okr, "G-PROV", f"to_compact|floor-for-positive-ceil-for-negative|L{lg.lineno - fn.lineno}", f.loc(call), "floor for positive exponents, ceil for negative",
                 f"`{norm(call.func)}` is applied on the wrong side of `{E or 'exponent'} > 0`: the power must be rounded down for a positive exponent and up for a negative one")
    # the units change only by renaming one entry of the converted quantity's units to <prefix> + <that entry>; the
    # exponent used in the formula belongs to the same entry
    ren = [c for c in walk_local(fn) if isinstance(c, ast.Call) and call_name(c) == "rename" and isinstance(c.func, ast.Attribute)]
    ok, prefix = len(ren) == 1 and len(ren[0].args) == 2, None
    if ok:
        old, new = ren[0].args
        newv = shape.unalias(new, fn)
        ok = _is("quantity.to(_U)._units", ren[0].func.value, fn) and isinstance(newv, ast.BinOp) and isinstance(newv.op, ast.Add) and shape.rnorm(newv.right, fn) == shape.rnorm(old, fn)
        if ok:
            prefix = shape.unalias(newv.left, fn)
            entry = lambda e: {r for r in defs.roots(e) if not r.startswith("const:")}
            ok = all(entry(x) == entry(old) for x in exponents)
    ck.check(ok, "G-PROV", "to_compact|only-one-unit-renamed-with-prefix", f.loc(), "units change only by prefixing one entry", "to_compact no longer changes the units only by renaming one entry to prefix + unit")
    # prefix lookup, by role: I = bisect_left(P, power) with power the value of the formula; I clamped to -1 where
    # I >= len(B); the prefix is B[I]; P and B are the key and value columns of the same table
    okl = False
    for a_ in [a_ for a_ in walk_local(fn) if isinstance(a_, ast.Assign) and isinstance(a_.targets[0], ast.Name) and isinstance(a_.value, ast.Call) and call_name(a_.value) == "bisect_left" and len(a_.value.args) == 2]:
        I, (P, power) = a_.targets[0].id, a_.value.args
        for sub in [x for x in walk_local(fn) if isinstance(x, ast.Subscript) and isinstance(x.ctx, ast.Load) and norm(x.slice) == I]:
            B = norm(sub.value)
            beyond = lambda at: shape.match(f"{I} >= len({B})", at) is not None or shape.match(f"len({B}) <= {I}", at) is not None
            within = lambda at: shape.match(f"{I} < len({B})", at) is not None or shape.match(f"len({B}) > {I}", at) is not None
            clamp = any(isinstance(x, ast.Assign) and norm(x.targets[0]) == I and norm(x.value) == "-1" and (shape.holds_at(x, fn, beyond, True) or shape.holds_at(x, fn, within, False)) for x in walk_local(fn))
            same = _parallel_keys_and_values(f, P, sub.value, fn)
            used = prefix is None or norm(prefix) == norm(sub)
            okl = okl or (clamp and same and used and "call:log10" in defs.roots(power))
    ck.check(okl, "G-PROV", "to_compact|prefix-lookup", f.loc(), "prefix looked up by bisect, clamped", "the prefix lookup by bisect/clamp changed")
    inf = [c for c in walk_local(fn) if isinstance(c, ast.Call) and call_name(c) == "infer_base_unit" and c.args]
    srcs = set()
    for c in inf:
        x = shape.resolve(c.args[0], fn)
        srcs |= {norm(x.body), norm(x.orelse)} if isinstance(x, ast.IfExp) else {norm(x)}
    tos = [c for c in conv if c.args and "call:infer_base_unit" in defs.roots(c.args[0])]
    ck.check(bool(inf) and srcs == {"quantity", "quantity.__class__(1, unit)"} and all("registry=quantity._REGISTRY" in norm(c) for c in inf) and len(tos) >= 1, "G-PROV", "to_compact|unprefixed-base", f.loc(), "converted to the unprefixed unit (of the quantity or of the requested unit) first",
             f"to_compact no longer converts to the unprefixed unit inferred from the quantity / the requested unit first (sources {sorted(srcs)})")


def _exponent_roles(fi):
    """Classifier for find_simple: expression -> (whose, part) with whose in {'s' (the quantity), 'p' (a preferred unit)}
    and part in {'head', 'tail'}, or None.  The exponent lists are recognised by what they are built from
    (quantity.dimensionality / the dimensionality of an element of preferred_units), head and tail by the starred
    destructuring `H, *T = exponents`; an element of T is `T[i]`, or a variable ranging over T (directly or through the
    matching position of a zip)."""
    fn = fi.node
    defs = defs_of(fi)

    def unit_var(e):
        """a variable ranging over preferred_units"""
        return isinstance(e, ast.Name) and any(kind.startswith("iter") and norm(v) == "preferred_units" for v, kind, st in defs.defs.get(e.id, []))

    def whose(e):
        """'s' / 'p': the exponents are read from quantity.dimensionality / from <element of preferred_units>.dimensionality"""
        owners = {("s" if norm(x.value) == "quantity" else ("p" if unit_var(x.value) else "?")) for x in ast.walk(shape.resolve(e, fn)) if isinstance(x, ast.Attribute) and x.attr == "dimensionality"}
        return owners.pop() if len(owners) == 1 and "?" not in owners else None
    heads, tails = {}, {}
    for a_ in walk_local(fn):
        if isinstance(a_, ast.Assign) and len(a_.targets) == 1 and isinstance(a_.targets[0], (ast.Tuple, ast.List)):
            el = a_.targets[0].elts
            if len(el) == 2 and isinstance(el[0], ast.Name) and isinstance(el[1], ast.Starred) and isinstance(el[1].value, ast.Name) and whose(a_.value):
                heads[el[0].id], tails[el[1].value.id] = whose(a_.value), whose(a_.value)
    elements = {}           # variable ranging over a tail -> whose
    for g in [x for x in ast.walk(fn) if isinstance(x, (ast.comprehension, ast.For))]:
        its, tgs = [g.iter], [g.target]
        if isinstance(g.iter, ast.Call) and norm(g.iter.func) == "zip" and isinstance(g.target, ast.Tuple) and len(g.target.elts) == len(g.iter.args):
            its, tgs = list(g.iter.args), list(g.target.elts)
        for it, tg in zip(its, tgs):
            if isinstance(it, ast.Name) and it.id in tails and isinstance(tg, ast.Name):
                elements[tg.id] = tails[it.id]

    def role(e):
        if isinstance(e, ast.Name):
            if e.id in heads:
                return heads[e.id], "head"
            if e.id in elements:
                return elements[e.id], "tail"
        if isinstance(e, ast.Subscript) and isinstance(e.value, ast.Name) and e.value.id in tails and not isinstance(e.slice, ast.Slice):
            return tails[e.value.id], "tail"
        return None
    return role, unit_var, set(heads.values())


def preferred_simple_match_rule(ck, ix):
    """_get_preferred.find_simple accepts a preferred unit when the quantity's dimension exponents are proportional
    to the unit's: s_tail[i]/s_head == p_tail[i]/p_head, tested by cross-multiplication.  Each side of the equality is
    a product of one exponent of the quantity and one of the unit, one taken from the head and one from the tail; a
    power (or any other operator) accepts non-proportional exponents and the returned unit has the wrong dimension."""
    m = ix.module(QTO)
    # by role: the simple-match shortcut is the piece of _get_preferred that destructures the dimension exponents of the
    # quantity and of a preferred unit into head and tail: _get_preferred itself (a private helper spliced into it) or a
    # function defined inside it, whatever it is called
    gp = ix.func(QTO, "_get_preferred")
    fs = [g for g in [gp] + [g for g in m.all_functions if g.parent is gp] if _exponent_roles(g)[2] >= {"s", "p"}]
    ck.floor("G-PROV", len(fs), 1, "find_simple")
    for f in fs:
        ck.analysed(f)
        role, unit_var, _owners = _exponent_roles(f)
        mixes = lambda e: len({role(x)[0] for x in ast.walk(e) if role(x)}) == 2      # involves an exponent of both
        cmps = [c for c in walk_local(f.node) if isinstance(c, ast.Compare) and len(c.ops) == 1 and isinstance(c.ops[0], ast.Eq) and mixes(c) and all(any(role(x) for x in ast.walk(sd)) for sd in (c.left, c.comparators[0]))]
        ck.check(len(cmps) == 1, "G-PROV", "find_simple|proportionality-test-present", f.loc(), "one proportionality test", f"{len(cmps)} exponent proportionality tests found")
        for c in cmps:
            sides = [c.left, c.comparators[0]]
            ok, why, got = True, "", []
            for sd in sides:
                if not (isinstance(sd, ast.BinOp) and isinstance(sd.op, ast.Mult)):
                    ok, why = False, f"`{norm(sd)}` is not a product"
                    break
                if any(isinstance(x, (ast.BinOp, ast.UnaryOp, ast.Call)) and x is not sd for x in ast.walk(sd)):
                    ok, why = False, f"`{norm(sd)}` contains an operator other than *"
                    break
                rs = sorted(r for r in (role(sd.left), role(sd.right)) if r)
                if len(rs) != 2 or sorted(r[0] for r in rs) != ["p", "s"] or sorted(r[1] for r in rs) != ["head", "tail"]:
                    ok, why = False, f"`{norm(sd)}` does not multiply one exponent of the quantity with one of the unit (head x tail)"
                    break
                got.append(rs)
            if ok and got[0] == got[1]:
                ok, why = False, "both sides are the same product"
            tl = [x for sd in sides for x in (sd.left, sd.right) if ok and role(x)[1] == "tail" and isinstance(x, ast.Subscript)]
            if ok and len({norm(x.slice) for x in tl}) > 1:
                ok, why = False, "the two tails are not read at the same position"
            ck.check(ok, "G-PROV", "find_simple|proportional-by-cross-multiplication", f.loc(c), "s_tail[i] * p_head == p_tail[i] * s_head",
                     f"`{norm(c)}`: {why}; exponents that are not proportional are accepted and to_preferred converts to a unit of another dimension (DimensionalityError), proportional ones such as (3, 9) vs (1, 3) are rejected")
        # the unit that is returned: an element of preferred_units raised to s_head / p_head
        pw = [b for b in walk_local(f.node) if isinstance(b, ast.BinOp) and isinstance(b.op, ast.Pow) and unit_var(b.left)]
        okp = len(pw) == 1 and isinstance(pw[0].right, ast.BinOp) and isinstance(pw[0].right.op, ast.Div) and role(pw[0].right.left) == ("s", "head") and role(pw[0].right.right) == ("p", "head")
        ck.check(okp, "G-PROV", "find_simple|unit-raised-to-exponent-ratio", f.loc(), "preferred_unit ** (s_head / p_head)", "the matched unit is no longer raised to the ratio of the leading exponents")


def run(ck, ix, tier):
    ck.rule("G-TWIN", "functional and in-place helper have the same branches with to <-> ito")
    # ------------------------------------------------------------ exits of the functional helpers
    for q in ("to_reduced_units", "to_compact", "to_preferred"):
        f = ix.func(QTO, q)
        ck.analysed(f)
        cfg = cfg_of(f)
        for r in live(cfg, return_nodes(cfg)):
            v = cfg.nodes[r].ast.value
            v = shape.resolve(v, f.node) if v is not None else None
            s = norm(v) if v is not None else "None"
            ok = s == "quantity" or (isinstance(v, ast.Call) and call_name(v) == "to" and norm(v.func.value) == "quantity" and len(v.args) == 1)
            ck.check(ok, "G-TAG", f"{q}|exit-is-input-or-conversion|{s[:40]}", f.loc(cfg.nodes[r].ast), "returns the input or quantity.to(U)",
                     f"`return {s}`: a unit-rewriting helper must return its input or the result of quantity.to(<units>) (a gated, value-preserving conversion)")
    for q in ("ito_reduced_units", "ito_preferred"):
        f = ix.func(QTO, q)
        ck.analysed(f)
        cfg = cfg_of(f)
        for r in live(cfg, return_nodes(cfg)):
            v = cfg.nodes[r].ast.value
            v = shape.resolve(v, f.node) if v is not None else None
            s = norm(v) if v is not None else "None"
            ok = s == "None" or (isinstance(v, ast.Call) and call_name(v) == "ito" and norm(v.func.value) == "quantity" and len(v.args) == 1)
            ck.check(ok, "G-TAG", f"{q}|exit-is-none-or-inplace-conversion|{s[:40]}", f.loc(cfg.nodes[r].ast), "returns None or quantity.ito(U)", f"`return {s}` in an in-place helper is not quantity.ito(<units>)")
        ws = [(p, k, n) for (p, k, n) in writes_in(f.node) if p.startswith("quantity.")]
        ck.check(not ws, "G-OWN", f"{q}|writes-only-through-ito", f.loc(ws[0][2]) if ws else f.loc(), "the quantity is modified only through ito()", f"`{norm(ws[0][2]) if ws else ''}` writes the quantity's fields directly (magnitude and units can disagree)")
    # twins
    for a, b in (("to_reduced_units", "ito_reduced_units"), ("to_preferred", "ito_preferred")):
        fa, fb = ix.func(QTO, a), ix.func(QTO, b)
        na = _twin_norm(fa.node, "to")
        nb = _twin_norm(fb.node, "ito")
        ck.check(na == nb, "G-TWIN", f"{a}/{b}|same-branches", fb.loc(), "identical up to to <-> ito",
                 f"{b} is not the branch-for-branch twin of {a} (after mapping ito->to and `return None`->`return quantity`): {_first_diff(na, nb)}")
    for name, inplace in (("to", False), ("ito", True), ("to_root_units", False), ("ito_root_units", True), ("to_base_units", False), ("ito_base_units", True)):
        fi = ix.func(PQ, f"PlainQuantity.{name}")
        ck.analysed(fi)
        t = Tagger(ck, fi, "G-TAG", inplace=inplace)
        t.run()
    # functional / in-place twins, compared by what they do (target, conversion, what is built or written), with
    # extracted private helpers looked through: both forms convert to the same target T, the functional form returns
    # self.__class__(conv_not_inplace(T), T), the in-place form writes self._magnitude = conv(T) and self._units = T

    def summary(fi, inplace):
        fn = shape.inline_helpers(ix, fi, skip=("_convert_magnitude", "_convert_magnitude_not_inplace"))      # the primitives are anchors: never looked through
        conv = [c for c in walk_local(fn) if isinstance(c, ast.Call) and call_name(c) in ("_convert_magnitude", "_convert_magnitude_not_inplace") and c.args]
        out = {"conv": sorted({call_name(c) for c in conv}), "target": sorted({shape.rnorm(c.args[0], fn) for c in conv}), "extra": sorted({norm(ast.Tuple(elts=list(c.args[1:]) + [k.value for k in c.keywords], ctx=ast.Load())) for c in conv})}
        if inplace:
            asg = {norm(a.targets[0]): a.value for a in walk_local(fn) if isinstance(a, ast.Assign) and norm(a.targets[0]) in ("self._magnitude", "self._units")}
            out["units"] = shape.rnorm(asg["self._units"], fn) if "self._units" in asg else None
            mv = shape.resolve(asg["self._magnitude"], fn) if "self._magnitude" in asg else None
            out["mag_is_conv"] = isinstance(mv, ast.Call) and call_name(mv) == "_convert_magnitude"
        else:
            ctor = [c for r in shape.returns_of(fn) for c in [shape.resolve(r.value, fn)] if isinstance(c, ast.Call) and norm(c.func) in ("self.__class__", "type(self)") and len(c.args) == 2]
            out["units"] = norm(ctor[0].args[1]) if ctor else None
            out["mag_is_conv"] = bool(ctor) and isinstance(ctor[0].args[0], ast.Call) and call_name(ctor[0].args[0]) == "_convert_magnitude_not_inplace"
        return out

    for q, reg in (("to", None), ("to_root_units", "_get_root_units"), ("to_base_units", "_get_base_units")):
        fa, fb = ix.func(PQ, f"PlainQuantity.{q}"), ix.func(PQ, f"PlainQuantity.i{q}")
        sa_, sb_ = summary(fa, False), summary(fb, True)
        ok = sa_["target"] == sb_["target"] and len(sa_["target"]) == 1 and sa_["extra"] == sb_["extra"]
        ck.check(ok, "G-TWIN", f"PlainQuantity.{q}/i{q}|same-target-same-conversion", fb.loc(), f"both forms convert to `{sa_['target']}`",
                 f"PlainQuantity.i{q} is not the twin of {q}: the functional form converts to {sa_['target']} with {sa_['extra']}, the in-place form to {sb_['target']} with {sb_['extra']}")
        for f, sm, inplace in ((fa, sa_, False), (fb, sb_, True)):
            qn = f.qualname.split("::")[1]
            ck.check(sm["mag_is_conv"] and sm["units"] is not None and [sm["units"]] == sm["target"], "G-TAG", f"{qn}|magnitude-and-units-same-target", f.loc(),
                     "magnitude converted to, and units set to, the same target", f"{qn}: the magnitude is converted to {sm['target']} but the units are {sm['units']} (or the magnitude is not the converted one)")
            ck.check(sm["conv"] == (["_convert_magnitude"] if inplace else ["_convert_magnitude_not_inplace"]), "G-OWN", f"{qn}|{'in-place' if inplace else 'copying'}-conversion-primitive", f.loc(),
                     "in-place form uses the in-place primitive, functional form the copying one", f"{qn} uses {sm['conv']}")
        if reg:
            for f in (fa, fb):
                cs = [c for c in walk_local(f.node) if isinstance(c, ast.Call) and call_name(c).startswith("_get_") and call_name(c).endswith("_units")]
                ck.check(len(cs) == 1 and call_name(cs[0]) == reg and norm(cs[0].args[0]) == "self._units", "G-TWIN", f"{f.qualname.split('::')[1]}|target-from-{reg}", f.loc(),
                         f"target from {reg}(self._units)", f"{f.qualname.split('::')[1]} takes its target from `{norm(cs[0]) if cs else '?'}`")
    m_as = ix.func(PQ, "PlainQuantity.m_as")
    m_rets = shape.returns_of(m_as.node)
    ck.check(bool(m_rets) and all(_is("self.to(units).magnitude", r.value, m_as.node) for r in m_rets), "G-TAG", "PlainQuantity.m_as|magnitude-of-conversion", m_as.loc(), "m_as = to(units).magnitude", "m_as is no longer the magnitude of to(units)")

    # ------------------------------------------------------------ ireduce_dimensions
    f = ix.func(PQ, "ireduce_dimensions")
    ck.analysed(f)
    w = [g for g in f.module.all_functions if g.parent is f]
    if not w:
        raise AnalysisError("ireduce_dimensions wrapper not found")
    # by role: R = <op>(self, *args, **kwargs) is the value of the wrapped operation (<op> = the decorator's parameter);
    # the wrapper returns R, applies each in-place helper to R under the registry flag of R, and to nothing else
    from .C16 import is_result_of_wrapped_operation, wrapped_operation_param
    wi, wn = w[0], w[0].node
    op = wrapped_operation_param(wi)
    if op is None:
        raise AnalysisError("ireduce_dimensions: the wrapped operation (parameter of the decorator) not found")
    is_res = lambda e: is_result_of_wrapped_operation(wi, e)
    forwarded = f"{op}({wn.args.args[0].arg if wn.args.args else 'self'}, *{wn.args.vararg.arg if wn.args.vararg else '_none'}, **{wn.args.kwarg.arg if wn.args.kwarg else '_none'})"
    rets = shape.returns_of(wn)
    ck.check(bool(rets) and all(is_res(r.value) and shape.match(forwarded, shape.unalias(r.value, wn)) is not None for r in rets), "G-OWN", "ireduce_dimensions|wraps-result", f.loc(), "wraps the result of the operation", "ireduce_dimensions no longer returns the result of the wrapped operation")
    for flag, helper in (("autoconvert_to_preferred", "ito_preferred"), ("auto_reduce_dimensions", "ito_reduced_units")):
        flag_of_result = lambda a_, flag=flag: isinstance(a_, ast.Attribute) and a_.attr == flag and isinstance(a_.value, ast.Attribute) and a_.value.attr == "_REGISTRY" and is_res(a_.value.value)
        calls = [c for c in walk_local(wn) if isinstance(c, ast.Call) and isinstance(c.func, ast.Attribute) and c.func.attr == helper]
        ok = bool(calls) and all(is_res(c.func.value) and shape.holds_at(c, wn, flag_of_result, True) for c in calls)
        ck.check(ok, "G-OWN", f"ireduce_dimensions|{flag}-applies-{helper}-to-result", f.loc(), f"{helper} applied to the result under {flag}", f"under {flag} the helper {helper} is not applied to the *result* (operands would be rewritten or the option ignored)")
    for c in walk_local(wn):
        if isinstance(c, ast.Call) and isinstance(c.func, ast.Attribute) and call_name(c).startswith("ito") and not is_res(c.func.value):
            ck.fail("G-OWN", f"ireduce_dimensions|rewrites-operand|{norm(c)[:40]}", f.loc(c), f"`{norm(c)}` rewrites an operand of the operation in place")

    to_compact_rule(ck, ix)

    # ------------------------------------------------------------ _get_reduced_units
    f = ix.func(QTO, "_get_reduced_units")
    ck.analysed(f)
    outer = [l for l in f.node.body if isinstance(l, ast.For) and any(isinstance(x, ast.Name) and x.id == "units" for x in ast.walk(l.iter))]
    if not outer:
        raise AnalysisError("_get_reduced_units: outer loop over the units not found")
    o = outer[0]
    u1 = o.target.elts[0].id if isinstance(o.target, ast.Tuple) else o.target.id
    inner = [l for l in ast.walk(o) if isinstance(l, ast.For) and l is not o and any(isinstance(x, ast.Name) and x.id == "units" for x in ast.walk(l.iter))]
    u2 = inner[0].target.id if inner and isinstance(inner[0].target, ast.Name) else None
    member = lambda a_: isinstance(a_, ast.Compare) and isinstance(a_.ops[0], ast.In) and norm(a_.left) == u1 and norm(a_.comparators[0]) == "units"
    g = [t for t in o.body if isinstance(t, ast.If) and any(member(p_) for p_, _ in shape.atoms(t.test))]
    ok = False
    for t in g:
        (p_, edge), = list(shape.atoms(t.test))
        gone_side = t.orelse if edge == "t" else t.body     # statements executed when unit1 is no longer in units
        ok = not any(isinstance(x, (ast.Break, ast.Return)) for st in gone_side for x in ast.walk(st)) and (edge == "t" or any(isinstance(st, ast.Continue) for st in gone_side))
    ck.check(bool(g) and ok, "G-PROV", "_get_reduced_units|eliminated-unit-skipped-not-aborting", f.loc(g[0]) if g else f.loc(), "an already eliminated unit is skipped (continue)",
             "an already eliminated unit aborts the whole reduction (break) instead of being skipped: later mergeable pairs are left unmerged")
    red = [a_ for a_ in walk_local(f.node) if isinstance(a_, ast.Assign) and norm(a_.targets[0]) == "units" and "add(" in norm(a_.value)]
    m = shape.match("units.add(_B, _E / _P).remove([_A])", red[0].value) if len(red) == 1 else None
    okm = m is not None and m["_A"] == u1 and m["_B"] == u2
    if okm:
        div = red[0].value.func.value.args[1]
        ev, pv = shape.resolve(div.left, f.node), shape.resolve(div.right, f.node)
        okm = norm(ev) in (f"units[{u1}]",) or (isinstance(div.left, ast.Name) and isinstance(o.target, ast.Tuple) and len(o.target.elts) == 2 and norm(o.target.elts[1]) == div.left.id and norm(o.iter) == "units.items()")   # the value variable of the loop over units.items()
        okm = okm and isinstance(pv, ast.Call) and call_name(pv) == "_get_dimensionality_ratio" and [norm(x) for x in pv.args] == [u1, u2]
    ck.check(bool(okm), "G-PROV", "_get_reduced_units|merge-by-exponent-over-ratio", f.loc(red[0]) if red else f.loc(), "unit1**exp becomes unit2**(exp/ratio(unit1, unit2))", f"the merge step is `{norm(red[0].value) if red else '?'}` (expected units.add(unit2, units[unit1] / ratio(unit1, unit2)).remove([unit1]))")
    rc = [c for c in walk_local(f.node) if isinstance(c, ast.Call) and call_name(c) == "_get_dimensionality_ratio"]
    same = lambda a_: isinstance(a_, ast.Compare) and isinstance(a_.ops[0], ast.Eq) and sorted([norm(a_.left), norm(a_.comparators[0])]) == sorted([u1, u2 or ""])
    ck.check(bool(rc) and all(shape.holds_at(c, f.node, same, False) for c in rc), "G-PROV", "_get_reduced_units|ratio-of-distinct-units", f.loc(), "ratio of distinct units", "the ratio is no longer computed only for distinct unit pairs (a unit would be merged into itself)")
    f = ix.func(PR, "GenericPlainRegistry._get_dimensionality_ratio")
    ck.analysed(f)
    dfs = defs_of(f)
    p1, p2 = [a_.arg for a_ in f.node.args.args][1:3]
    dims = {}
    for a_ in walk_local(f.node):
        if isinstance(a_, ast.Assign) and isinstance(a_.targets[0], ast.Name) and isinstance(a_.value, ast.Call) and call_name(a_.value) == "get_dimensionality" and a_.value.args:
            dims[norm(a_.value.args[0])] = a_.targets[0].id
        if isinstance(a_, ast.Assign) and isinstance(a_.targets[0], ast.Tuple) and len(a_.targets[0].elts) == 2 and isinstance(a_.value, ast.GeneratorExp) and "get_dimensionality" in norm(a_.value.elt):
            it = a_.value.generators[0].iter
            if isinstance(it, (ast.Tuple, ast.List)) and len(it.elts) == 2:
                dims[norm(it.elts[0])], dims[norm(it.elts[1])] = a_.targets[0].elts[0].id, a_.targets[0].elts[1].id
    d1, d2 = dims.get(p1), dims.get(p2)
    ck.check(d1 is not None and d2 is not None, "G-PROV", "_get_dimensionality_ratio|dimensionalities-of-both-units", f.loc(), "dimensionalities of both units are computed", "the dimensionalities of the two units are no longer both computed")
    divs = [b_ for b_ in walk_local(f.node) if isinstance(b_, ast.BinOp) and isinstance(b_.op, ast.Div)]
    def bound_from_items_of(name, d):
        """`name` is the value variable of a loop / comprehension / next() over <d>.items() (possibly through iter(...))"""
        for x in ast.walk(f.node):
            tgt, it = None, None
            if isinstance(x, (ast.For, ast.comprehension)):
                tgt, it = x.target, x.iter
            elif isinstance(x, ast.Assign) and isinstance(x.value, ast.Call) and call_name(x.value) == "next":
                tgt, it = x.targets[0], x.value.args[0] if x.value.args else None
            if tgt is None or it is None:
                continue
            if isinstance(tgt, ast.Tuple) and len(tgt.elts) == 2 and isinstance(tgt.elts[1], ast.Name) and tgt.elts[1].id == name:
                src = " ".join(sorted(dfs.roots(it))) + " " + norm(it)
                if f"{d}.items" in src or (d in src and "items" in src):
                    return True
        return False
    okd = bool(divs) and all(isinstance(b_.left, ast.Subscript) and norm(b_.left.value) == d2 and isinstance(b_.right, ast.Name) and bound_from_items_of(b_.right.id, d1) for b_ in divs)
    ck.check(okd, "G-PROV", "_get_dimensionality_ratio|common-ratio", f.loc(divs[0]) if divs else f.loc(), "ratio = exponent in unit2 / exponent in unit1, per dimension",
             f"_get_dimensionality_ratio no longer computes the exponent ratio dim(unit2)/dim(unit1): {[norm(b_) for b_ in divs]}")
    keysg = [c for c in walk_local(f.node) if isinstance(c, ast.Compare) and sorted([norm(c.left), norm(c.comparators[0])]) == sorted([f"{d1}.keys()", f"{d2}.keys()"])]
    ck.check(len(keysg) == 1, "G-PROV", "_get_dimensionality_ratio|same-dimension-set-required", f.loc(), "None when the dimension sets differ", "the test that both units involve the same set of dimensions is gone")
    rets = shape.returns_of(f.node)
    # every value the function can return (a conditional expression counts branch by branch): None is among them, and so
    # is a value computed from the exponent division
    from .C03 import _cases
    outcomes = [v for r in rets for v, _cond in _cases(r.value, f.node)]
    is_ratio = lambda v: not isinstance(v, ast.Constant) and any(isinstance(x, ast.BinOp) and isinstance(x.op, ast.Div) for x in ast.walk(shape.resolve(v, f.node)))
    ck.check(any(isinstance(v, ast.Constant) and v.value is None for v in outcomes) and any(is_ratio(v) for v in outcomes), "G-PROV", "_get_dimensionality_ratio|none-or-common-ratio", f.loc(), "returns None or the common ratio", "the function no longer answers None / the common ratio")
    # "not comparable" (an empty dimensionality on either side, different dimension names) may only be answered where the
    # two dimensionalities are already known to DIFFER: two dimensionless units (radian, degree; bit, byte) have equal,
    # empty dimensionalities and must get the ratio 1 so that they are merged
    dims_eq = lambda a_: isinstance(a_, ast.Compare) and len(a_.ops) == 1 and isinstance(a_.ops[0], ast.Eq) and \
        all("get_dimensionality" in shape.rnorm(x, f.node) for x in (a_.left, a_.comparators[0]))
    nones = [r for r in rets for v, _c in _cases(r.value, f.node) if isinstance(v, ast.Constant) and v.value is None]
    ck.floor("G-DOM", len(nones), 1, "None answers of _get_dimensionality_ratio")
    for r in nones:
        ck.check(shape.holds_at(r, f.node, dims_eq, False), "G-DOM", "_get_dimensionality_ratio|none-only-for-different-dimensionalities", f.loc(r), "None is answered only where the dimensionalities are known to differ",
                 f"`{norm(r)}` can be reached although the two dimensionalities are equal (the equality shortcut does not come first): two dimensionless units get None instead of 1 and are never merged by to_reduced_units")
    # the in-place forms obtain their new magnitude from the same conversion primitive as the functional forms
    for q_ in ("PlainQuantity.ito", "PlainQuantity.ito_root_units", "PlainQuantity.ito_base_units"):
        g = ix.func(PQ, q_)
        ck.analysed(g)
        from ..lib import inlined as _inl
        g = _inl(ix, g)           # a private helper that holds the store (called with *args / **kwargs) is looked through
        stores = [a_ for a_ in ast.walk(g.node) if isinstance(a_, ast.Assign) and any(norm(t_) == "self._magnitude" for t_ in a_.targets)]
        ck.floor("G-TWIN", len(stores), 1, f"stores to self._magnitude in {q_}")
        for a_ in stores:
            rv = shape.resolve(a_.value, g.node)
            ck.check(isinstance(rv, ast.Call) and call_name(rv).startswith("_convert_magnitude") and isinstance(rv.func, ast.Attribute) and norm(rv.func.value) == "self", "G-TWIN",
                     f"{q_}|magnitude-from-the-conversion-primitive", g.loc(a_), "the new magnitude is self._convert_magnitude(...)",
                     f"`{norm(a_)}` computes the new magnitude without self._convert_magnitude(...): the in-place form then differs from the functional one (no Decimal/Fraction coercion of the factor, no offset/context handling)")
    from .C16 import inplace_primitives_rule
    inplace_primitives_rule(ck, ix)  # only in-place forms may rescale/rebind their target
    from .. import memo as _memo
    _memo.rule_base_units_cache(ck, ix)  # to_base_units/ito_base_units read the base-units memo
    preferred_simple_match_rule(ck, ix)
    return EXPLANATION


def _canonical_locals(fn):
    """Copy of function `fn` in which every local variable (not a parameter) is renamed to L0, L1, ... in order of first
    binding, so that two functions that differ only in the names of their locals have the same text."""
    fn = ast.parse(ast.unparse(fn)).body[0]
    a = fn.args
    params = {x.arg for x in a.posonlyargs + a.args + a.kwonlyargs} | ({a.vararg.arg} if a.vararg else set()) | ({a.kwarg.arg} if a.kwarg else set())
    order = []
    for st in fn.body:
        for x in ast.walk(st):
            if isinstance(x, ast.Name) and isinstance(x.ctx, ast.Store) and x.id not in params and x.id not in order:
                order.append(x.id)
    order.sort(key=lambda nm: min((x.lineno, x.col_offset) for st in fn.body for x in ast.walk(st) if isinstance(x, ast.Name) and x.id == nm and isinstance(x.ctx, ast.Store)))
    ren = {nm: f"L{i}" for i, nm in enumerate(order)}
    for x in ast.walk(fn):
        if isinstance(x, ast.Name) and x.id in ren:
            x.id = ren[x.id]
    return fn


def _twin_norm(fn, verb, method=False):
    """Normalised statement list of a helper with the in-place vocabulary mapped to the functional one (locals renamed
    canonically: the twins need not call their temporaries the same)."""
    out = []
    for st in _canonical_locals(fn).body:
        if isinstance(st, ast.Expr) and isinstance(st.value, ast.Constant):
            continue
        s = norm(st)
        if verb == "ito":
            s = s.replace("quantity.ito(", "quantity.to(").replace("return None", "return quantity")
        out.append(s)
    return out


def _first_diff(a, b):
    for x, y in zip(a, b):
        if x != y:
            return f"`{x[:70]}` vs `{y[:70]}`"
    return f"{len(a)} vs {len(b)} statements"
