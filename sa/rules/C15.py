"""C15 — unit-rewriting helpers preserve the physical quantity."""
from __future__ import annotations

import ast

from ..flow import call_name, dotted, norm, writes_in
from ..index import AnalysisError, walk_local
from ..lib import cfg_of, defs_of, live, nodes_with, return_nodes, undominated, witness
from ..tags import Tagger

QTO = "pint.facets.plain.qto"
PQ = "pint.facets.plain.quantity"
PR = "pint.facets.plain.registry"

EXPLANATION = (
    "Static analysis (no execution): every exit of to_root_units/to_base_units/to_reduced_units/to_compact/to_preferred "
    "returns the input itself or `quantity.to(U)` (conversion through the gated converter), every ito_* form assigns "
    "magnitude and units from the same target (G-TAG constructor/in-place consistency) and is the branch-for-branch twin "
    "of the functional form with to <-> ito (G-TWIN); root/base twins take their target from the same registry function; "
    "ireduce_dimensions applies the in-place helpers to the *result* under the registry flags; to_compact returns its "
    "argument unchanged on the non-numeric/unitless/zero/NaN/inf branches before any conversion, derives the prefix "
    "from the magnitude of the quantity converted to the unprefixed unit (not from the input magnitude), uses "
    "floor for positive and ceil for negative exponents in steps of 3, and changes units only by renaming one entry; "
    "_get_reduced_units skips already eliminated units with continue, merges by exponent/ratio and restarts; "
    "_get_dimensionality_ratio answers 1 / None / the common ratio. Does not decide value equality, the [1,1000) range "
    "or the integer programme of to_preferred (the simple-match shortcut of to_preferred is decided: proportional exponents by cross-multiplication).")
EXPLANATION += ' Also decided (rules added after the second round of seeded changes): no unit-rewriting helper other than the ito* forms calls an in-place conversion primitive; the base-units memo read by to_base_units is written under its read guard with the substituted units.'



def to_compact_rule(ck, ix):
    """to_compact: unchanged for unitless/zero/NaN/inf, prefix chosen from the magnitude in the unprefixed unit (nominal
    value for uncertain magnitudes), only one unit renamed with the prefix."""
    f = ix.func(QTO, "to_compact")
    cfg, defs = cfg_of(f), defs_of(f)
    conv = nodes_with(cfg, lambda x: isinstance(x, ast.Call) and call_name(x) == "to" and norm(x.func.value) == "quantity")
    guards = [n.id for n in cfg.nodes if n.kind == "test" and "quantity.unitless" in norm(n.ast)]
    ck.check(bool(guards), "G-DOM", "to_compact|unchanged-guard-present", f.loc(), "unitless/zero/NaN/inf guard present", "the unitless/zero/NaN/inf guard of to_compact is gone")
    for g in guards:
        s = norm(cfg.nodes[g].ast)
        for part in ("quantity.unitless", "qm == 0", "math.isnan(qm)", "math.isinf(qm)"):
            ck.check(part in s, "G-DOM", f"to_compact|unchanged-for|{part}", f.loc(cfg.nodes[g].ast), f"`{part}` returns the input unchanged", f"to_compact no longer returns its input unchanged when `{part}`")
        succ = [v for (v, lab) in cfg.succ[g] if lab == "t"]
        ck.check(all(isinstance(cfg.nodes[v].ast, ast.Return) and norm(cfg.nodes[v].ast.value) == "quantity" for v in succ), "G-DOM", "to_compact|guard-returns-input", f.loc(cfg.nodes[g].ast), "guard returns the input object", "the guard does not return the input unchanged")
    for c in live(cfg, conv):
        p = undominated(cfg, [c], guards)
        ck.check(p is None, "G-DOM", "to_compact|conversion-after-guards", f.loc(cfg.nodes[c].ast), "conversions happen only after the guards", "a conversion happens before the unitless/zero/NaN/inf guard", witness(cfg, p))
    # magnitude used for the prefix derives from the converted quantity
    # the prefix power: round(log10(|m|) / exponent / 3) * 3 with m the magnitude in the unprefixed unit, rounded down
    # for a positive exponent and up for a negative one - whatever the spelling (if/else, conditional expression, ...)
    from .. import shape
    logs = [c for c in walk_local(f.node) if isinstance(c, ast.Call) and norm(c.func) in ("math.log10", "log10") and c.args and "abs(" in norm(c.args[0])]
    ck.check(len(logs) >= 1, "G-PROV", "to_compact|two-power-formulas", f.loc(), "log10(|magnitude|) formula present", "no log10(abs(magnitude)) formula found in to_compact")
    positive = lambda a_: isinstance(a_, ast.Compare) and len(a_.ops) == 1 and isinstance(a_.ops[0], ast.Gt) and norm(a_) == "unit_power > 0"
    for lg in logs:
        roots = defs.roots(lg.args[0])
        ok = any(r.startswith("q_base") for r in roots) and not any(r in ("qm", "quantity.magnitude") or r.startswith("quantity.magnitude") for r in roots)
        ck.check(ok, "G-PROV", f"to_compact|prefix-from-converted-magnitude|L{lg.lineno - f.node.lineno}", f.loc(lg), "the prefix is chosen from the magnitude in the unprefixed unit",
                 f"`{norm(lg)}`: the magnitude used to choose the prefix derives from {sorted(r for r in roots if 'magnitude' in r or r == 'qm')}, not from the quantity converted to the unprefixed unit (already-prefixed inputs get the wrong prefix)")
        # the enclosing rounding call and formula
        call = getattr(lg, "_parent", None)
        while call is not None and not (isinstance(call, ast.Call) and call is not lg and any(lg in ast.walk(a_) for a_ in call.args)):
            call = getattr(call, "_parent", None)
        ck.check(call is not None and "/ float(unit_power) / 3" in norm(call) and isinstance(getattr(call, "_parent", None), ast.BinOp) and norm(call._parent).endswith("* 3"), "G-PROV", f"to_compact|steps-of-three|L{lg.lineno - f.node.lineno}", f.loc(lg),
                 "round(log10(|m|) / exponent / 3) * 3", f"`{norm(getattr(call, '_parent', call)) if call is not None else norm(lg)}` is not round(log10(|m|)/exponent/3)*3")
        if call is None:
            continue
        fn_ = call.func
        if isinstance(fn_, ast.Name):
            fn_ = shape.dominating_def(fn_, f.node) or fn_      # one level: keep the condition as written
        if isinstance(fn_, ast.IfExp):
            pos_, truth = next(iter(shape.conjuncts(fn_.test, "t")), (None, None))
            okr = pos_ is not None and positive(pos_) and ((truth and norm(fn_.body) == "math.floor" and norm(fn_.orelse) == "math.ceil") or (not truth and norm(fn_.body) == "math.ceil" and norm(fn_.orelse) == "math.floor"))
        else:
            nm = norm(fn_)
            okr = nm in ("math.floor", "math.ceil") and shape.holds_at(call, f.node, positive, nm == "math.floor")
        ck.check(okr, "G-PROV", f"to_compact|floor-for-positive-ceil-for-negative|L{lg.lineno - f.node.lineno}", f.loc(call), "floor for positive exponents, ceil for negative",
                 f"`{norm(call.func)}` is applied on the wrong side of `unit_power > 0`: the power must be rounded down for a positive exponent and up for a negative one")
    ren = [c for c in walk_local(f.node) if isinstance(c, ast.Call) and call_name(c) == "rename"]
    newname = ren[0].args[1] if ren else None
    if isinstance(newname, ast.Name):
        newname = defs.single(newname.id) or newname
    ok = len(ren) == 1 and norm(ren[0].func.value) == "q_base._units" and norm(ren[0].args[0]) == "unit_str" and isinstance(newname, ast.BinOp) and isinstance(newname.op, ast.Add) and norm(newname.right) == "unit_str"
    ck.check(ok, "G-PROV", "to_compact|only-one-unit-renamed-with-prefix", f.loc(), "units change only by prefixing one entry", "to_compact no longer changes the units only by renaming one entry to prefix + unit")
    # prefix lookup, by role: I = bisect_left(P, power); I clamped to -1 when I >= len(B); the prefix is B[I]; P and B
    # are the key and value columns of the same sorted table
    from .. import shape as _shp
    okl = False
    for a_ in [a_ for a_ in walk_local(f.node) if isinstance(a_, ast.Assign) and isinstance(a_.targets[0], ast.Name) and isinstance(a_.value, ast.Call) and call_name(a_.value) == "bisect_left" and len(a_.value.args) == 2]:
        I, P = a_.targets[0].id, a_.value.args[0]
        for t_ in [t_ for t_ in walk_local(f.node) if isinstance(t_, ast.If)]:
            for at, _edge in _shp.conjuncts(t_.test):
                if _edge is not True:
                    continue
                mm = _shp.match(f"{I} >= len(_B)", at) or _shp.match(f"len(_B) <= {I}", at)
                if mm is None:
                    continue
                B = mm["_B"]
                clamp = any(isinstance(x, ast.Assign) and norm(x.targets[0]) == I and norm(x.value) == "-1" for st_ in t_.body for x in ast.walk(st_))
                read = any(isinstance(x, ast.Subscript) and norm(x.value) == B and norm(x.slice) == I for x in walk_local(f.node))
                dp, db = _shp.unalias(P, f.node), _shp.unalias(ast.Name(id=B, ctx=ast.Load()), f.node)
                defs15 = defs_of(f)
                vp = [v for v, k, s_ in defs15.defs.get(norm(P), []) if v is not None]
                vb = [v for v, k, s_ in defs15.defs.get(B, []) if v is not None]
                same = bool(vp) and bool(vb) and isinstance(vp[0], ast.ListComp) and isinstance(vb[0], ast.ListComp) and norm(vp[0].generators[0].iter) == norm(vb[0].generators[0].iter)
                okl = okl or (clamp and read and same)
    ck.check(okl, "G-PROV", "to_compact|prefix-lookup", f.loc(), "prefix looked up by bisect, clamped", "the prefix lookup by bisect/clamp changed")
    inf = [c for c in walk_local(f.node) if isinstance(c, ast.Call) and call_name(c) == "infer_base_unit" and c.args]
    srcs = set()
    for c in inf:
        x = shape.resolve(c.args[0], f.node)
        srcs |= {norm(x.body), norm(x.orelse)} if isinstance(x, ast.IfExp) else {norm(x)}
    tos = [c for c in walk_local(f.node) if isinstance(c, ast.Call) and call_name(c) == "to" and norm(c.func.value) == "quantity" and c.args and "call:infer_base_unit" in defs.roots(c.args[0])]
    ck.check(bool(inf) and srcs == {"quantity", "quantity.__class__(1, unit)"} and all("registry=quantity._REGISTRY" in norm(c) for c in inf) and len(tos) >= 1, "G-PROV", "to_compact|unprefixed-base", f.loc(), "converted to the unprefixed unit (of the quantity or of the requested unit) first",
             f"to_compact no longer converts to the unprefixed unit inferred from the quantity / the requested unit first (sources {sorted(srcs)})")



def preferred_simple_match_rule(ck, ix):
    """_get_preferred.find_simple accepts a preferred unit when the quantity's dimension exponents are proportional
    to the unit's: s_tail[i]/s_head == p_tail[i]/p_head, tested by cross-multiplication.  Each side of the equality is
    a product of one exponent of the quantity and one of the unit, one taken from the head and one from the tail; a
    power (or any other operator) accepts non-proportional exponents and the returned unit has the wrong dimension."""
    m = ix.module(QTO)
    fs = [g for g in m.all_functions if g.name == "find_simple"]
    ck.floor("G-PROV", len(fs), 1, "find_simple")
    for f in fs:
        ck.analysed(f)
        cmps = [c for c in walk_local(f.node) if isinstance(c, ast.Compare) and len(c.ops) == 1 and isinstance(c.ops[0], ast.Eq)
                and "exps" in norm(c.left) and "exps" in norm(c.comparators[0]) and "[" in norm(c)]
        ck.check(len(cmps) == 1, "G-PROV", "find_simple|proportionality-test-present", f.loc(), "one proportionality test", f"{len(cmps)} exponent proportionality tests found")
        for c in cmps:
            sides = [c.left, c.comparators[0]]
            ok = True
            why = ""
            for sd in sides:
                if not (isinstance(sd, ast.BinOp) and isinstance(sd.op, ast.Mult)):
                    ok, why = False, f"`{norm(sd)}` is not a product"
                    break
                if any(isinstance(x, ast.BinOp) and not isinstance(x.op, ast.Mult) for x in ast.walk(sd)):
                    ok, why = False, f"`{norm(sd)}` contains an operator other than *"
                    break
                names = sorted(n.id for n in ast.walk(sd) if isinstance(n, ast.Name) and "exps" in n.id)
                who = sorted(n[0] for n in names)            # 's' / 'p'
                part = sorted("head" if "head" in n else "tail" for n in names)
                if who != ["p", "s"] or part != ["head", "tail"]:
                    ok, why = False, f"`{norm(sd)}` does not multiply one exponent of the quantity with one of the unit (head x tail)"
                    break
            ck.check(ok, "G-PROV", "find_simple|proportional-by-cross-multiplication", f.loc(c), "s_tail[i] * p_head == p_tail[i] * s_head",
                     f"`{norm(c)}`: {why}; exponents that are not proportional are accepted and to_preferred converts to a unit of another dimension (DimensionalityError), proportional ones such as (3, 9) vs (1, 3) are rejected")
        pw = [b for b in walk_local(f.node) if isinstance(b, ast.BinOp) and isinstance(b.op, ast.Pow) and "preferred_unit" in norm(b.left)]
        ck.check(len(pw) == 1 and norm(pw[0].right) in ("s_exps_head / p_exps_head",), "G-PROV", "find_simple|unit-raised-to-exponent-ratio", f.loc(), "preferred_unit ** (s_head / p_head)", "the matched unit is no longer raised to the ratio of the leading exponents")

def run(ck, ix, tier):
    ck.rule("G-TWIN", "functional and in-place helper have the same branches with to <-> ito")
    # ------------------------------------------------------------ exits of the functional helpers
    for q in ("to_reduced_units", "to_compact", "to_preferred"):
        f = ix.func(QTO, q)
        ck.analysed(f)
        cfg = cfg_of(f)
        for r in live(cfg, return_nodes(cfg)):
            v = cfg.nodes[r].ast.value
            s = norm(v) if v is not None else "None"
            ok = s == "quantity" or (isinstance(v, ast.Call) and call_name(v) == "to" and norm(v.func.value) == "quantity" and len(v.args) == 1)
            ck.check(ok, "G-TAG", f"{q}|exit-is-input-or-conversion|{s[:40]}", f.loc(cfg.nodes[r].ast), "returns the input or quantity.to(U)",
                     f"`return {s}`: a unit-rewriting helper must return its input or the result of quantity.to(<units>) (a gated, value-preserving conversion)")
    for q in ("ito_reduced_units", "ito_preferred"):
        f = ix.func(QTO, q)
        ck.analysed(f)
        cfg = cfg_of(f)
        for r in live(cfg, return_nodes(cfg)):
            v = cfg.nodes[r].ast.value
            s = norm(v) if v is not None else "None"
            ok = s == "None" or (isinstance(v, ast.Call) and call_name(v) == "ito" and norm(v.func.value) == "quantity" and len(v.args) == 1)
            ck.check(ok, "G-TAG", f"{q}|exit-is-none-or-inplace-conversion|{s[:40]}", f.loc(cfg.nodes[r].ast), "returns None or quantity.ito(U)", f"`return {s}` in an in-place helper is not quantity.ito(<units>)")
        ws = [(p, k, n) for (p, k, n) in writes_in(f.node) if p.startswith("quantity.")]
        ck.check(not ws, "G-OWN", f"{q}|writes-only-through-ito", f.loc(ws[0][2]) if ws else f.loc(), "the quantity is modified only through ito()", f"`{norm(ws[0][2]) if ws else ''}` writes the quantity's fields directly (magnitude and units can disagree)")
    # twins
    for a, b in (("to_reduced_units", "ito_reduced_units"), ("to_preferred", "ito_preferred")):
        fa, fb = ix.func(QTO, a), ix.func(QTO, b)
        na = _twin_norm(fa.node, "to")
        nb = _twin_norm(fb.node, "ito")
        ck.check(na == nb, "G-TWIN", f"{a}/{b}|same-branches", fb.loc(), "identical up to to <-> ito",
                 f"{b} is not the branch-for-branch twin of {a} (after mapping ito->to and `return None`->`return quantity`): {_first_diff(na, nb)}")
    for name, inplace in (("to", False), ("ito", True), ("to_root_units", False), ("ito_root_units", True), ("to_base_units", False), ("ito_base_units", True)):
        fi = ix.func(PQ, f"PlainQuantity.{name}")
        ck.analysed(fi)
        t = Tagger(ck, fi, "G-TAG", inplace=inplace)
        t.run()
    # functional / in-place twins, compared by what they do (target, conversion, what is built or written), with
    # extracted private helpers looked through: both forms convert to the same target T, the functional form returns
    # self.__class__(conv_not_inplace(T), T), the in-place form writes self._magnitude = conv(T) and self._units = T
    from .. import shape

    def summary(fi, inplace):
        fn = shape.inline_helpers(ix, fi)
        conv = [c for c in walk_local(fn) if isinstance(c, ast.Call) and call_name(c) in ("_convert_magnitude", "_convert_magnitude_not_inplace") and c.args]
        out = {"conv": sorted({call_name(c) for c in conv}), "target": sorted({shape.rnorm(c.args[0], fn) for c in conv}), "extra": sorted({norm(ast.Tuple(elts=list(c.args[1:]) + [k.value for k in c.keywords], ctx=ast.Load())) for c in conv})}
        if inplace:
            asg = {norm(a.targets[0]): a.value for a in walk_local(fn) if isinstance(a, ast.Assign) and norm(a.targets[0]) in ("self._magnitude", "self._units")}
            out["units"] = shape.rnorm(asg["self._units"], fn) if "self._units" in asg else None
            mv = shape.resolve(asg["self._magnitude"], fn) if "self._magnitude" in asg else None
            out["mag_is_conv"] = isinstance(mv, ast.Call) and call_name(mv) == "_convert_magnitude"
        else:
            ctor = [c for r in shape.returns_of(fn) for c in [shape.resolve(r.value, fn)] if isinstance(c, ast.Call) and norm(c.func) in ("self.__class__", "type(self)") and len(c.args) == 2]
            out["units"] = norm(ctor[0].args[1]) if ctor else None
            out["mag_is_conv"] = bool(ctor) and isinstance(ctor[0].args[0], ast.Call) and call_name(ctor[0].args[0]) == "_convert_magnitude_not_inplace"
        return out

    for q, reg in (("to", None), ("to_root_units", "_get_root_units"), ("to_base_units", "_get_base_units")):
        fa, fb = ix.func(PQ, f"PlainQuantity.{q}"), ix.func(PQ, f"PlainQuantity.i{q}")
        sa_, sb_ = summary(fa, False), summary(fb, True)
        ok = sa_["target"] == sb_["target"] and len(sa_["target"]) == 1 and sa_["extra"] == sb_["extra"]
        ck.check(ok, "G-TWIN", f"PlainQuantity.{q}/i{q}|same-target-same-conversion", fb.loc(), f"both forms convert to `{sa_['target']}`",
                 f"PlainQuantity.i{q} is not the twin of {q}: the functional form converts to {sa_['target']} with {sa_['extra']}, the in-place form to {sb_['target']} with {sb_['extra']}")
        for f, sm, inplace in ((fa, sa_, False), (fb, sb_, True)):
            qn = f.qualname.split("::")[1]
            ck.check(sm["mag_is_conv"] and sm["units"] is not None and [sm["units"]] == sm["target"], "G-TAG", f"{qn}|magnitude-and-units-same-target", f.loc(),
                     "magnitude converted to, and units set to, the same target", f"{qn}: the magnitude is converted to {sm['target']} but the units are {sm['units']} (or the magnitude is not the converted one)")
            ck.check(sm["conv"] == (["_convert_magnitude"] if inplace else ["_convert_magnitude_not_inplace"]), "G-OWN", f"{qn}|{'in-place' if inplace else 'copying'}-conversion-primitive", f.loc(),
                     "in-place form uses the in-place primitive, functional form the copying one", f"{qn} uses {sm['conv']}")
        if reg:
            for f in (fa, fb):
                cs = [c for c in walk_local(f.node) if isinstance(c, ast.Call) and call_name(c).startswith("_get_") and call_name(c).endswith("_units")]
                ck.check(len(cs) == 1 and call_name(cs[0]) == reg and norm(cs[0].args[0]) == "self._units", "G-TWIN", f"{f.qualname.split('::')[1]}|target-from-{reg}", f.loc(),
                         f"target from {reg}(self._units)", f"{f.qualname.split('::')[1]} takes its target from `{norm(cs[0]) if cs else '?'}`")
    m_as = ix.func(PQ, "PlainQuantity.m_as")
    ck.check("return self.to(units).magnitude" in norm(m_as.node), "G-TAG", "PlainQuantity.m_as|magnitude-of-conversion", m_as.loc(), "m_as = to(units).magnitude", "m_as is no longer the magnitude of to(units)")

    # ------------------------------------------------------------ ireduce_dimensions
    f = ix.func(PQ, "ireduce_dimensions")
    ck.analysed(f)
    w = [g for g in f.module.all_functions if g.parent is f]
    if not w:
        raise AnalysisError("ireduce_dimensions wrapper not found")
    src = norm(w[0].node)
    ck.check("result = f(self, *args, **kwargs)" in src and "return result" in src, "G-OWN", "ireduce_dimensions|wraps-result", f.loc(), "wraps the result of the operation", "ireduce_dimensions no longer returns the result of the wrapped operation")
    for flag, helper in (("autoconvert_to_preferred", "ito_preferred"), ("auto_reduce_dimensions", "ito_reduced_units")):
        tests = [t for t in walk_local(w[0].node) if isinstance(t, ast.If) and norm(t.test) == f"result._REGISTRY.{flag}"]
        ok = bool(tests) and all(any(isinstance(c, ast.Call) and call_name(c) == helper and norm(c.func.value) == "result" for c in ast.walk(t)) for t in tests)
        ck.check(ok, "G-OWN", f"ireduce_dimensions|{flag}-applies-{helper}-to-result", f.loc(), f"{helper} applied to the result under {flag}", f"under {flag} the helper {helper} is not applied to the *result* (operands would be rewritten or the option ignored)")
    for c in walk_local(w[0].node):
        if isinstance(c, ast.Call) and call_name(c).startswith("ito") and norm(c.func.value) != "result":
            ck.fail("G-OWN", f"ireduce_dimensions|rewrites-operand|{norm(c)[:40]}", f.loc(c), f"`{norm(c)}` rewrites an operand of the operation in place")

    to_compact_rule(ck, ix)

    # ------------------------------------------------------------ _get_reduced_units
    f = ix.func(QTO, "_get_reduced_units")
    ck.analysed(f)
    from .. import shape
    outer = [l for l in f.node.body if isinstance(l, ast.For) and any(isinstance(x, ast.Name) and x.id == "units" for x in ast.walk(l.iter))]
    if not outer:
        raise AnalysisError("_get_reduced_units: outer loop over the units not found")
    o = outer[0]
    u1 = o.target.elts[0].id if isinstance(o.target, ast.Tuple) else o.target.id
    inner = [l for l in ast.walk(o) if isinstance(l, ast.For) and l is not o and any(isinstance(x, ast.Name) and x.id == "units" for x in ast.walk(l.iter))]
    u2 = inner[0].target.id if inner and isinstance(inner[0].target, ast.Name) else None
    member = lambda a_: isinstance(a_, ast.Compare) and isinstance(a_.ops[0], ast.In) and norm(a_.left) == u1 and norm(a_.comparators[0]) == "units"
    g = [t for t in o.body if isinstance(t, ast.If) and any(member(p_) for p_, _ in shape.atoms(t.test))]
    ok = False
    for t in g:
        (p_, edge), = list(shape.atoms(t.test))
        gone_side = t.orelse if edge == "t" else t.body     # statements executed when unit1 is no longer in units
        ok = not any(isinstance(x, (ast.Break, ast.Return)) for st in gone_side for x in ast.walk(st)) and (edge == "t" or any(isinstance(st, ast.Continue) for st in gone_side))
    ck.check(bool(g) and ok, "G-PROV", "_get_reduced_units|eliminated-unit-skipped-not-aborting", f.loc(g[0]) if g else f.loc(), "an already eliminated unit is skipped (continue)",
             "an already eliminated unit aborts the whole reduction (break) instead of being skipped: later mergeable pairs are left unmerged")
    red = [a_ for a_ in walk_local(f.node) if isinstance(a_, ast.Assign) and norm(a_.targets[0]) == "units" and "add(" in norm(a_.value)]
    m = shape.match("units.add(_B, _E / _P).remove([_A])", red[0].value) if len(red) == 1 else None
    okm = m is not None and m["_A"] == u1 and m["_B"] == u2
    if okm:
        div = red[0].value.func.value.args[1]
        ev, pv = shape.resolve(div.left, f.node), shape.resolve(div.right, f.node)
        okm = norm(ev) in (f"units[{u1}]",) or norm(div.left) == "exp"
        okm = okm and isinstance(pv, ast.Call) and call_name(pv) == "_get_dimensionality_ratio" and [norm(x) for x in pv.args] == [u1, u2]
    ck.check(bool(okm), "G-PROV", "_get_reduced_units|merge-by-exponent-over-ratio", f.loc(red[0]) if red else f.loc(), "unit1**exp becomes unit2**(exp/ratio(unit1, unit2))", f"the merge step is `{norm(red[0].value) if red else '?'}` (expected units.add(unit2, units[unit1] / ratio(unit1, unit2)).remove([unit1]))")
    rc = [c for c in walk_local(f.node) if isinstance(c, ast.Call) and call_name(c) == "_get_dimensionality_ratio"]
    same = lambda a_: isinstance(a_, ast.Compare) and isinstance(a_.ops[0], ast.Eq) and sorted([norm(a_.left), norm(a_.comparators[0])]) == sorted([u1, u2 or ""])
    ck.check(bool(rc) and all(shape.holds_at(c, f.node, same, False) for c in rc), "G-PROV", "_get_reduced_units|ratio-of-distinct-units", f.loc(), "ratio of distinct units", "the ratio is no longer computed only for distinct unit pairs (a unit would be merged into itself)")
    f = ix.func(PR, "GenericPlainRegistry._get_dimensionality_ratio")
    ck.analysed(f)
    dfs = defs_of(f)
    p1, p2 = [a_.arg for a_ in f.node.args.args][1:3]
    dims = {}
    for a_ in walk_local(f.node):
        if isinstance(a_, ast.Assign) and isinstance(a_.targets[0], ast.Name) and isinstance(a_.value, ast.Call) and call_name(a_.value) == "get_dimensionality" and a_.value.args:
            dims[norm(a_.value.args[0])] = a_.targets[0].id
        if isinstance(a_, ast.Assign) and isinstance(a_.targets[0], ast.Tuple) and len(a_.targets[0].elts) == 2 and isinstance(a_.value, ast.GeneratorExp) and "get_dimensionality" in norm(a_.value.elt):
            it = a_.value.generators[0].iter
            if isinstance(it, (ast.Tuple, ast.List)) and len(it.elts) == 2:
                dims[norm(it.elts[0])], dims[norm(it.elts[1])] = a_.targets[0].elts[0].id, a_.targets[0].elts[1].id
    d1, d2 = dims.get(p1), dims.get(p2)
    ck.check(d1 is not None and d2 is not None, "G-PROV", "_get_dimensionality_ratio|dimensionalities-of-both-units", f.loc(), "dimensionalities of both units are computed", "the dimensionalities of the two units are no longer both computed")
    divs = [b_ for b_ in walk_local(f.node) if isinstance(b_, ast.BinOp) and isinstance(b_.op, ast.Div)]
    def bound_from_items_of(name, d):
        """`name` is the value variable of a loop / comprehension / next() over <d>.items() (possibly through iter(...))"""
        for x in ast.walk(f.node):
            tgt, it = None, None
            if isinstance(x, (ast.For, ast.comprehension)):
                tgt, it = x.target, x.iter
            elif isinstance(x, ast.Assign) and isinstance(x.value, ast.Call) and call_name(x.value) == "next":
                tgt, it = x.targets[0], x.value.args[0] if x.value.args else None
            if tgt is None or it is None:
                continue
            if isinstance(tgt, ast.Tuple) and len(tgt.elts) == 2 and isinstance(tgt.elts[1], ast.Name) and tgt.elts[1].id == name:
                src = " ".join(sorted(dfs.roots(it))) + " " + norm(it)
                if f"{d}.items" in src or (d in src and "items" in src):
                    return True
        return False
    okd = bool(divs) and all(isinstance(b_.left, ast.Subscript) and norm(b_.left.value) == d2 and isinstance(b_.right, ast.Name) and bound_from_items_of(b_.right.id, d1) for b_ in divs)
    ck.check(okd, "G-PROV", "_get_dimensionality_ratio|common-ratio", f.loc(divs[0]) if divs else f.loc(), "ratio = exponent in unit2 / exponent in unit1, per dimension",
             f"_get_dimensionality_ratio no longer computes the exponent ratio dim(unit2)/dim(unit1): {[norm(b_) for b_ in divs]}")
    keysg = [c for c in walk_local(f.node) if isinstance(c, ast.Compare) and sorted([norm(c.left), norm(c.comparators[0])]) == sorted([f"{d1}.keys()", f"{d2}.keys()"])]
    ck.check(len(keysg) == 1, "G-PROV", "_get_dimensionality_ratio|same-dimension-set-required", f.loc(), "None when the dimension sets differ", "the test that both units involve the same set of dimensions is gone")
    rets = shape.returns_of(f.node)
    ck.check(any(isinstance(r.value, ast.Constant) and r.value.value is None for r in rets) and any(isinstance(r.value, ast.Name) for r in rets), "G-PROV", "_get_dimensionality_ratio|none-or-common-ratio", f.loc(), "returns None or the common ratio", "the function no longer answers None / the common ratio")
    from .C16 import inplace_primitives_rule
    inplace_primitives_rule(ck, ix)  # only in-place forms may rescale/rebind their target
    from .. import memo as _memo
    _memo.rule_base_units_cache(ck, ix)  # to_base_units/ito_base_units read the base-units memo
    preferred_simple_match_rule(ck, ix)
    return EXPLANATION


def _twin_norm(fn, verb, method=False):
    """Normalised statement list of a helper with the in-place vocabulary mapped to the functional one."""
    out = []
    for st in fn.body:
        if isinstance(st, ast.Expr) and isinstance(st.value, ast.Constant):
            continue
        s = norm(st)
        if verb == "ito":
            s = s.replace("quantity.ito(", "quantity.to(").replace("return None", "return quantity")
            s = s.replace("self._convert_magnitude(", "self._convert_magnitude_not_inplace(")
        out.append(s)
    if method:
        # functional: magnitude = conv(other); return self.__class__(magnitude, other)   in-place: self._magnitude = conv(other); self._units = other; return None
        txt = "\n".join(out)
        txt = txt.replace("self._magnitude = ", "magnitude = ")
        if verb == "ito":
            txt = txt.replace("self._units = other\nreturn quantity", "return self.__class__(magnitude, other)").replace("self._units = other\nreturn None", "return self.__class__(magnitude, other)")
        return txt.split("\n")
    return out


def _first_diff(a, b):
    for x, y in zip(a, b):
        if x != y:
            return f"`{x[:70]}` vs `{y[:70]}`"
    return f"{len(a)} vs {len(b)} statements"
